#!/bin/sh
# Build the overlay venv used by every check (offline; wheels from /opt/veriftools/wheels).
set -e
cd "$(dirname "$0")"
V=/verif/.venv
if [ -x "$V/bin/python" ] && "$V/bin/python" -c "import crosshair, z3" 2>/dev/null; then
    exit 0
fi
rm -rf "$V"
/venv/bin/python -m venv "$V"
SP=$("$V/bin/python" -c "import sysconfig; print(sysconfig.get_paths()['purelib'])")
printf "/venv/lib/python3.12/site-packages\n" > "$SP/_overlay.pth"
PIP_NO_INDEX=1 "$V/bin/pip" install -q --no-index --find-links /opt/veriftools/wheels crosshair-tool z3-solver
"$V/bin/python" -c "import crosshair, z3; print('verif venv ok', z3.get_version_string())"
