"""Regenerate /verif/MANIFEST.json from the harness modules present (metadata only; no ioflo import)."""
import os, re, json, ast, sys
V = os.path.dirname(os.path.dirname(os.path.abspath(__file__)))
props = [json.loads(l) for l in open(os.path.join(V, "properties.jsonl"))]
NA = {
    "C01": "property of fresh-process interpreter state and import order: there is no function input to make symbolic; deciding it is enumeration of concrete process runs, which is a different technique (DESIGN.md section 5)",
}
READY = set(open(os.path.join(V, "tools", "ready.txt")).read().split())
checks, na = [], []
for p in props:
    pid = p["id"]
    f = os.path.join(V, "harness", pid + ".py")
    if pid in NA or not os.path.exists(f) or pid not in READY:
        na.append(dict(property_id=pid, reason=NA.get(pid, "check not built yet in this round (planned: DESIGN.md section 4 %s)" % pid)))
        continue
    meta = {}
    for node in ast.parse(open(f).read()).body:
        if isinstance(node, ast.Assign) and isinstance(node.targets[0], ast.Name):
            try:
                meta[node.targets[0].id] = ast.literal_eval(node.value)
            except Exception:
                pass
    eng = meta.get("ENGINE", "E1")
    tech = meta.get("TECHNIQUE") or (
        "symbolic execution of the real ioflo code (CrossHair engine, z3): symbolic ints/bools partitioned by the code's own branches, all paths closed within the stated bounds; counterexamples replayed in plain CPython"
        if eng == "E1" else
        "source-to-SMT translation of the real function (Python AST -> z3 terms, state merging), negated property checked unsat within stated bounds; models replayed on the real function")
    checks.append(dict(
        property_id=pid,
        quick_cmd="./check %s --tier quick" % pid,
        thorough_cmd="./check %s --tier thorough" % pid,
        evidence_file="/verif/evidence/%s.json" % pid,
        replay_cmd_template="./check %s --replay {path}" % pid,
        engine="symx" if eng == "E1" else ("astsmt" if eng == "E2" else "symx+astsmt"),
        level_claimed=dict(category="model_checking",
                           text=meta.get("LEVEL_TEXT", "bounded, solver-exhausted exploration of the real code: every path of the harness within the stated bounds is closed by z3 (exhausted bit), so the oracle holds for every value of the symbolic inputs inside the bounds; nothing is claimed outside them"),
                           design_ref="DESIGN.md section 4 " + pid),
        level_note=meta.get("LEVEL_NOTE", "trusted: CrossHair 0.0.110 symbolic int/bool semantics, z3 5.1; harness doubles and assumptions listed in the evidence file; bounds stated per obligation in evidence"),
        technique=tech))
man = dict(
    version=1,
    setup_cmd="./setup.sh",
    hooks=dict(guard="IOFLO_VERIF", enable="export IOFLO_VERIF=1 (set by ./check; no guarded source hooks are needed so far)",
               baseline_off_cmd="cd /repo && env -u IOFLO_VERIF /venv/bin/python -m pytest -ra -q -p no:cacheprovider --timeout=900 --continue-on-collection-errors",
               source_commits=[], add_only=True),
    engines=[dict(name="symx", path="engine/symx.py", kind_free_text="E1: own driver over CrossHair's symbolic-execution engine + z3; path-wise, exhaustion bit, concrete replay",
                  serves_properties=[c["property_id"] for c in checks if "symx" in c["engine"]]),
             dict(name="astsmt", path="engine/astsmt.py", kind_free_text="E2: Python-AST to z3 translator with state merging and shape forking for numeric kernels",
                  serves_properties=[c["property_id"] for c in checks if "astsmt" in c["engine"]])],
    checks=checks,
    not_applicable=na,
    notes="All checks: ./check <id> [--tier quick|thorough]; exit 0/1/3 (3 = harness error). Known findings: known_findings.json. See DESIGN.md.")
json.dump(man, open(os.path.join(V, "MANIFEST.json"), "w"), indent=1)
print("checks", len(checks), "not_applicable", len(na))
