"""Confirm a seeded change (from an independent sub-agent) and run the property's check against it.
usage: seedtest.py <ID> [--tier quick] [--only substr] [--keep]
Steps: patch applies at /repo HEAD; demo passes on /repo and fails on the patched copy; ioflo's test-suite still
passes 123 tests on the patched copy; ./check <ID> on the patched copy (VERIF_REPO) -> expect exit 1.
Writes /verif/seeded/<ID>/ (patch.diff, demo.py, meta.json incl. what was run here and which classes caught it)."""
import os, sys, json, shutil, subprocess, time
V = os.path.dirname(os.path.dirname(os.path.abspath(__file__)))
pid = sys.argv[1]
tier = "quick"
only = None
for i, a in enumerate(sys.argv):
    if a == "--tier": tier = sys.argv[i + 1]
    if a == "--only": only = sys.argv[i + 1]
src = "/tmp/seed/%s/SEED" % pid
if "--src" in sys.argv:
    src = sys.argv[sys.argv.index("--src") + 1]
name = pid if "--name" not in sys.argv else sys.argv[sys.argv.index("--name") + 1]
work = "/tmp/verif_seed/%s" % name
shutil.rmtree(work, True)
os.makedirs("/tmp/verif_seed", exist_ok=True)
shutil.copytree("/repo", work, ignore=shutil.ignore_patterns("__pycache__"))
ran = []
def sh(cmd, **kw):
    r = subprocess.run(cmd, shell=True, capture_output=True, text=True, **kw)
    ran.append(dict(cmd=cmd, rc=r.returncode, tail=(r.stdout + r.stderr)[-400:]))
    return r
r = sh("cd %s && git apply %s/patch.diff" % (work, src))
if r.returncode:
    r = sh("cd %s && patch -p1 -F3 < %s/patch.diff" % (work, src))
ok_apply = r.returncode == 0
d0 = sh("cd /repo && PYTHONPATH=/repo /venv/bin/python %s/demo.py" % src, timeout=600)
d1 = sh("cd %s && PYTHONPATH=%s /venv/bin/python %s/demo.py" % (work, work, src), timeout=600)
ts = sh("cd %s && unshare -n sh -c 'ip link set lo up; /venv/bin/python -m pytest -q -p no:cacheprovider --timeout=900 --continue-on-collection-errors 2>&1 | tail -3'" % work)
suite_ok = "123 passed" in ts.stdout
t = time.time()
ck = sh("cd %s && VERIF_REPO=%s ./check %s --tier %s %s" % (V, work, pid, tier, ("--only '%s'" % only) if only else ""))
classes = sorted(set(l.split()[1] for l in ck.stdout.splitlines() if l.startswith("violation class=")))
res = dict(property=pid, applies=ok_apply, demo_on_repo_rc=d0.returncode, demo_on_patched_rc=d1.returncode, suite_123_passed=suite_ok,
           check_rc=ck.returncode, check_tier=tier, check_wall_s=round(time.time() - t), caught=ck.returncode == 1, classes=classes[:8])
print(json.dumps(res))
out = os.path.join(V, "seeded", name)
os.makedirs(out, exist_ok=True)
if os.path.realpath(src) != os.path.realpath(out):
    shutil.copy(src + "/patch.diff", out)
    shutil.copy(src + "/demo.py", out)
meta = json.load(open(src + "/meta.json")) if os.path.exists(src + "/meta.json") else {}
meta["confirmed_by_lead"] = res
meta["lead_ran"] = ran
json.dump(meta, open(out + "/meta.json", "w"), indent=1)
if "--keep" not in sys.argv:
    shutil.rmtree(work, True)
