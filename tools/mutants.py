"""Mutation self-test: apply each listed single-edit mutant to a scratch copy of /repo, run the property's check
against it (VERIF_REPO), expect exit 1 with a VIOLATION line.  Usage: tools/mutants.py [ids...] [--jobs N] [--scale S]
Scratch copies live under /tmp/verif_mut and are removed after each run.  Not part of any verdict."""
import os, sys, shutil, subprocess, json, time

V = os.path.dirname(os.path.dirname(os.path.abspath(__file__)))
M = [
 # (mutant id, property, check --only filter or None, file, old, new)
 ("C02a", "C02", "periods/mid/", "ioflo/base/skedding.py", "retime + tasker.period,", "stamp + tasker.period,"),
 ("C02b", "C02", "periods/mid/", "ioflo/base/skedding.py", "if retime > stamp: #not time yet", "if retime >= stamp: #not time yet"),
 ("C03a", "C03", "T1/", "ioflo/base/skedding.py", "                    status = tasker.runner.send(ABORT)\n", "                    status = tasker.status\n"),
 ("C03b", "C03", "T1/no-crash", "ioflo/base/skedding.py", "                    if not more: #all taskers stopped or aborted", "                    if not more and False: #all taskers stopped or aborted"),
 ("C04a", "C04", "bids/perm0", "ioflo/base/wanting.py", "        for tasker in taskers:\n            tasker.desire = STOP\n", "        for tasker in list(taskers)[:1]:\n            tasker.desire = STOP\n"),
 ("C04b", "C04", "fiats/", "ioflo/base/fiating.py", "        return (status == STARTED)", "        return True"),
 ("C05a", "C05", "N4-go0", "ioflo/base/framing.py", "            outline.append(frame)\n            frame = frame.under\n", "            outline.append(frame)\n            frame = frame.unders[-1] if frame.unders else None\n"),
 ("C05b", "C05", "cond-suspended", "ioflo/base/acting.py", "framer.change(main.head, main.headHuman)", "framer.change(main.outline, main.human)"),
 ("C06a", "C06", "noaux", "ioflo/base/framing.py", "if (nears[i] is far) or (nears[i] is not fars[i]):", "if (nears[i] is not fars[i]):"),
 ("C06b", "C06", "noaux", "ioflo/base/framing.py", "        exits.reverse()\n        for frame in exits:\n            frame.exit()", "        for frame in exits:\n            frame.exit()"),
 ("C08a", "C08", "N3-go1-plain-sym1", "ioflo/base/framing.py", "            if not aux.checkStart(): #performs entry checks beacts\n                return False\n", ""),
 ("C09a", "C09", "doneneed", "ioflo/base/framing.py", "            if aux.original:\n                aux.main = None #release aux to be used by another frame\n", ""),
 ("C09b", "C09", "doneneed", "ioflo/base/needing.py", "result = frame.auxes and all([aux.done for aux in frame.auxes])", "result = frame.auxes and any([aux.done for aux in frame.auxes])"),
 ("C09c", "C09", "doneneed", "ioflo/base/framing.py", "        for act in self.reacts:\n            act()\n        for aux in self.auxes:\n            aux.recur()", "        for aux in self.auxes:\n            aux.recur()\n        for act in self.reacts:\n            act()"),
 ("C10a", "C10", "aux2", "ioflo/base/acting.py", "        if not aux.done: #not done so active\n            aux.segue()", "        if not aux.done: #not done so active\n            for act in needs:\n                if not act():\n                    return None\n            aux.segue()"),
 ("C10b", "C10", "aux2", "ioflo/base/acting.py", "                self.deactivate(aux)\n                framer.reactivate()\n", "                self.deactivate(aux)\n"),
 ("C11a", "C11", "indirect", "ioflo/base/framing.py", "        if enters: #only enter  if there are explicit enters\n            self.restartTimer() #this also updates share\n", "        if enters: #only enter  if there are explicit enters\n"),
 ("C11b", "C11", "literal-repeat", "ioflo/base/framing.py", "        self.updateTimer() #this also updates share\n        self.updateCounter() #this also updates share\n", "        self.updateTimer() #this also updates share\n"),
 ("C12a", "C12", "V1", "ioflo/base/framing.py", "            name = \"_\".join((self.surname, tag))  # replace name with full name\n            clone = original.clone(name=name, tag=tag, schedule=schedule)\n            self.auxes[tag] = clone", "            name = \"_\".join((self.surname, tag))  # replace name with full name\n            clone = original.clone(name=name, tag=original.tag, schedule=schedule)\n            self.auxes[tag] = clone"),
 ("C20a", "C20", "update/V2", "ioflo/base/needing.py", "                      (share.stamp > mark.stamp) or", "                      (share.stamp >= mark.stamp) or"),
 ("C20b", "C20", "update/V1", "ioflo/base/acting.py", "                mark.used = mark.stamp", "                pass"),
 ("C20c", "C20", "change/V2", "ioflo/base/acting.py", "            mark.data = storing.Data(share.items())  # set date when marker runs", "            mark.data = mark.data or storing.Data(share.items())"),
 ("C07a", "C07", "r0/f0-go-x", "ioflo/base/framing.py", "        for frame in self.actives:  #start at top and find transitions\n            #Eval preacts", "        for frame in reversed(self.actives):  #start at top and find transitions\n            #Eval preacts"),
 ("C18a", "C18", "step/add", "ioflo/base/storing.py", "        if tail in node:\n            raise ValueError(\"Tail '%s' of '%s' is preexisting level\" % (tail, share.name))\n", ""),
]


def main():
    args = [a for a in sys.argv[1:] if not a.startswith("--")]
    jobs = next((a.split("=")[1] for a in sys.argv if a.startswith("--jobs=")), "6")
    scale = next((a.split("=")[1] for a in sys.argv if a.startswith("--scale=")), "1")
    res = {}
    for (mid, prop, only, f, old, new) in M:
        if args and mid not in args and prop not in args:
            continue
        d = "/tmp/verif_mut/" + mid
        shutil.rmtree(d, True)
        shutil.copytree("/repo", d, ignore=shutil.ignore_patterns(".git", "__pycache__"))
        p = os.path.join(d, f)
        s = open(p).read()
        if s.count(old) != 1:
            res[mid] = "MUTANT DOES NOT APPLY (count=%d)" % s.count(old)
            print(mid, res[mid], flush=True)
            shutil.rmtree(d, True)
            continue
        open(p, "w").write(s.replace(old, new))
        cmd = [os.path.join(V, "check"), prop, "--jobs", jobs, "--scale", scale] + (["--only", only] if only else [])
        t = time.time()
        r = subprocess.run(cmd, env=dict(os.environ, VERIF_REPO=d), capture_output=True, text=True)
        keys = sorted(set(l.split()[1] for l in r.stdout.splitlines() if l.startswith("violation class=")))
        res[mid] = dict(exit=r.returncode, caught=(r.returncode == 1), classes=keys[:4], wall=round(time.time() - t))
        print(mid, res[mid], flush=True)
        shutil.rmtree(d, True)
    return res


if __name__ == "__main__":
    main()
