"""apply one proposed fix diff to /repo as its own 'fix:' commit and record it as fixed in known_findings.json
usage: applyfix.py <diff> <property> <key> <summary...>"""
import sys, json, subprocess, os
diff, prop, key = sys.argv[1:4]
summary = " ".join(sys.argv[4:])
diff = os.path.abspath(diff)
r = subprocess.run(["git", "-C", "/repo", "apply", "--check", diff], capture_output=True, text=True)
if r.returncode:
    print("DOES NOT APPLY", diff, r.stderr); sys.exit(1)
subprocess.check_call(["git", "-C", "/repo", "apply", diff])
subprocess.check_call(["git", "-C", "/repo", "commit", "-qam", "fix: " + summary])
h = subprocess.check_output(["git", "-C", "/repo", "log", "--format=%h", "-1"], text=True).strip()
p = "/verif/known_findings.json"
d = json.load(open(p))
d["findings"].append(dict(property=prop, status="fixed", commit=h, key=key, what="fixed: property=%s %s %s" % (prop, h, summary),
                          finding="findings/" + os.path.basename(diff)[:-5] + ".md"))
json.dump(d, open(p, "w"), indent=1)
print("committed", h, summary)
