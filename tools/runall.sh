#!/bin/sh
# run the quick (or $TIER) check of each listed property sequentially; summary on stdout
cd "$(dirname "$0")/.."
TIER=${TIER:-quick}
for p in "$@"; do
  t0=$(date +%s)
  ./check $p --tier $TIER > /tmp/lead/run_$p.out 2>&1
  rc=$?
  t1=$(date +%s)
  echo "$p rc=$rc wall=$((t1-t0))s inconclusive=$(grep -c '^INCONCLUSIVE' /tmp/lead/run_$p.out) viol=$(grep -c '^VIOLATION' /tmp/lead/run_$p.out) known=$(grep -c '^KNOWN-FINDING' /tmp/lead/run_$p.out) harnerr=$(grep -c '^HARNESS-ERROR' /tmp/lead/run_$p.out) :: $(tail -1 /tmp/lead/run_$p.out | cut -c1-160)"
done
