"""regenerate seeded/RESULTS.md from seeded/*/meta.json"""
import os, json, glob
V = os.path.dirname(os.path.dirname(os.path.abspath(__file__)))
rows = []
for d in sorted(glob.glob(os.path.join(V, "seeded", "C*"))):
    m = json.load(open(os.path.join(d, "meta.json")))
    c = m.get("confirmed_by_lead", {})
    rows.append((os.path.basename(d), m.get("property", ""), (m.get("summary", "") or "").replace("\n", " ")[:230],
                 (str(m.get("needs", "")) or "").replace("\n", " ")[:200],
                 "yes" if c.get("caught") else "NO", ", ".join(x.replace("class=", "") for x in c.get("classes", [])[:2]),
                 "ok" if (c.get("applies") and c.get("demo_on_repo_rc") == 0 and c.get("demo_on_patched_rc") not in (0, None) and c.get("suite_123_passed")) else "CHECK",
                 c.get("check_wall_s")))
out = ["# Independently seeded changes and the checks that catch them", "",
       "Each row: a change written by a fresh sub-agent that saw only the property text and a scratch worktree; confirmed here",
       "(patch applies at /repo HEAD, demo passes on /repo and fails with the patch, ioflo's suite still passes 123 tests) and run",
       "against the property's quick check on a scratch copy (`tools/seedtest.py`). `<id>_2` = second, different change for the same property.", "",
       "| seed | confirmed | caught by quick check | classes reported | wall s | what the change does | what it needs |", "|---|---|---|---|---|---|---|"]
for r in rows:
    out.append("| %s | %s | %s | %s | %s | %s | %s |" % (r[0], r[6], r[4], r[5], r[7], r[2].replace("|", "/"), r[3].replace("|", "/")))
n = len(rows)
k = sum(1 for r in rows if r[4] == "yes")
out += ["", "%d seeds, %d caught by the quick tier of the current checks." % (n, k)]
open(os.path.join(V, "seeded", "RESULTS.md"), "w").write("\n".join(out) + "\n")
print(n, k, [r[0] for r in rows if r[4] != "yes"])
