"""Shared FloScript helpers for the build-time harnesses (C13 .. C17).

* `notrace(sym)`        context manager: CrossHair `NoTracing()` under symbolic exploration,
                        a no-op under concrete replay.
* `build(text, ...)`    write the script to a per-process temp file and run the REAL
                        `ioflo.base.building.Builder.build` on it, optionally under a CPU-time
                        limit (SIGVTALRM / ITIMER_VIRTUAL, independent of the engine's SIGALRM wall
                        backstop).  Returns a `Built` record; never raises for script errors.
* `dump_house(house)`   plain-data serialisation of everything the builder produced (taskers,
                        framers, frames, links, acts with actor / inits / ioinits / parms /
                        context, store contents) for comparing two builds with `==`.
* `first_diff(a, b)`    short human readable location of the first difference of two dumps.
* `act_refs(house)`     ordered list of every resolved Share / Node reference held by the acts.
* `run_ticks(houses,n)` minimal deterministic tick runner with a recorder (status, active
                        outline, store contents per tick).

Nothing here edits ioflo; all observation is through public attributes.
"""
import os
import sys
import signal
import tempfile
import shutil
import atexit
import contextlib
import traceback
from collections import deque
from collections.abc import Mapping

try:    # imported in the runner's parent process so that the forked obligation workers do not each pay
    from engine import symx as _symx   # noqa: F401   the 2-3 s CrossHair/z3 import
except Exception:   # standalone use without the engine
    _symx = None

from ioflo.base import building, housing, excepting, storing, framing, acting, tasking, logging, serving
from ioflo.base.globaling import START, STOP, ACTIVE, STOPPED


# ---------------------------------------------------------------------------------------------
# tracing control
# ---------------------------------------------------------------------------------------------
def notrace(sym):
    """NoTracing() when running under the symbolic engine, nothing under concrete replay."""
    if getattr(sym, "symbolic", False):
        from crosshair.tracers import NoTracing
        return NoTracing()
    return contextlib.nullcontext()


def pick(sym, name, n, width=6):
    """selector in [0, n) like sym.choice, but split into base-`width` digits: CrossHair's
    enumeration of one k-way realisation costs O(k) per path, two sqrt(k)-way ones much less."""
    if n <= width + 2:
        return sym.choice(name, n) if n > 1 else 0
    hi_n = (n + width - 1) // width
    hi = pick(sym, name + "^", hi_n, width)
    rest = n - hi * width
    lo = sym.choice(name, min(width, rest)) if rest > 1 else 0
    return hi * width + lo


# ---------------------------------------------------------------------------------------------
# building
# ---------------------------------------------------------------------------------------------
class BuildHang(BaseException):
    """the CPU-time limit of one build expired (BaseException so that no ioflo handler eats it)"""


_ARMED = [False]


def _on_prof(signum, frame):
    if _ARMED[0]:
        raise BuildHang()


_DIR = [None, None]   # (pid, dir)


def _scratch_dir():
    pid = os.getpid()
    if _DIR[0] != pid:
        base = "/dev/shm" if os.path.isdir("/dev/shm") and os.access("/dev/shm", os.W_OK) else None
        d = tempfile.mkdtemp(prefix="verif_flo_%d_" % pid, dir=base)   # tmpfs: a rewrite costs 0.1 ms, not 4
        _DIR[0], _DIR[1] = pid, d
        atexit.register(shutil.rmtree, d, True)
        try:   # pool workers leave through os._exit: multiprocessing runs its own finalizers
            from multiprocessing import util as _mpu
            _mpu.Finalize(None, shutil.rmtree, args=(d, True), exitpriority=10)
        except Exception:
            pass
    return _DIR[1]


def script_path(name="script.flo"):
    return os.path.join(_scratch_dir(), name)


def write_file(name, text):
    p = script_path(name)
    with open(p, "w") as f:
        f.write(text)
    return p


def ioflo_where(tb):
    """qualified name of the innermost traceback frame that lies inside the ioflo package"""
    where = None
    while tb is not None:
        code = tb.tb_frame.f_code
        fn = code.co_filename.replace("\\", "/")
        if "/ioflo/" in fn:
            where = getattr(code, "co_qualname", code.co_name)
        tb = tb.tb_next
    return where


def ioflo_stack(tb):
    """qualified names of all traceback frames inside the ioflo package, outermost first"""
    out = []
    while tb is not None:
        code = tb.tb_frame.f_code
        if "/ioflo/" in code.co_filename.replace("\\", "/"):
            out.append(getattr(code, "co_qualname", code.co_name))
        tb = tb.tb_next
    return out


def innermost(tb):
    """(qualname, is_inside_ioflo) of the innermost traceback frame"""
    last = None
    while tb is not None:
        last = tb
        tb = tb.tb_next
    if last is None:
        return (None, False)
    code = last.tb_frame.f_code
    return (getattr(code, "co_qualname", code.co_name), "/ioflo/" in code.co_filename.replace("\\", "/"))


class Built(object):
    """outcome of one Builder.build call"""
    __slots__ = ("ok", "exc", "where", "inner", "hung", "builder", "houses", "text", "stack")

    def __init__(self):
        self.ok = None        # Builder.build return value (True / False) when it returned
        self.exc = None       # exception instance when it raised
        self.where = None     # innermost ioflo function of the exception / of the interrupted loop
        self.inner = None     # innermost function of the exception traceback (may be outside ioflo)
        self.hung = False     # CPU limit expired
        self.builder = None
        self.houses = []
        self.text = ""
        self.stack = []       # ioflo functions on the stack when the exception / interruption happened

    @property
    def kind(self):
        """'ok' | 'false' | 'hang' | exception class name"""
        if self.hung:
            return "hang"
        if self.exc is not None:
            return type(self.exc).__name__
        return "ok" if self.ok else "false"

    def message(self):
        if self.exc is None:
            return ""
        m = getattr(self.exc, "message", None)
        return str(m if m is not None else self.exc)


def build(text, cpu_limit=None, name="script.flo", confirm=True):
    """Build `text` with the real Builder.  `cpu_limit` (seconds of user-mode CPU time of this
    process, ITIMER_VIRTUAL: independent of machine load and of page-fault / system time) bounds
    the call: on expiry the build is interrupted.  An interrupted build is repeated once from
    scratch under four times the limit and only reported as `.hung` when the repetition is
    interrupted too (CPU-time accounting is tick based and the first build of a freshly forked
    worker on a loaded machine can be slow once)."""
    _warm_up()
    out = _build(text, cpu_limit, name)
    if out.hung and confirm:
        again = _build(text, cpu_limit * 4, name)     # second opinion under a four times longer limit
        if not again.hung:
            return again
    return out


_WARM = [None]


def _warm_up():
    """once per process: freeze the heap inherited from the (forked) parent so that the cyclic garbage
    collector neither scans it nor copy-on-write-faults it during timed builds, and run one untimed
    build so that lazily created state (regex caches, module attributes) exists"""
    pid = os.getpid()
    if _WARM[0] == pid:
        return
    _WARM[0] = pid
    import gc
    gc.collect()
    gc.freeze()
    _build("house warm\nframer w be active first a\n  frame a\n    go next\n  frame b\n", None, "warm.flo")


def _build(text, cpu_limit, name):
    out = Built()
    out.text = text
    path = write_file(name, text)
    b = building.Builder(fileName=path)
    out.builder = b
    old = None
    if cpu_limit:
        old = signal.signal(signal.SIGVTALRM, _on_prof)
        _ARMED[0] = True
        # periodic: an exception raised by the handler while the interpreter is inside a __del__ /
        # weakref callback is swallowed ("Exception ignored in ..."), so the timer keeps firing every
        # 20 ms until the interruption lands in ordinary code
        signal.setitimer(signal.ITIMER_VIRTUAL, cpu_limit, 0.02)
    try:
        try:
            try:
                out.ok = b.build()
            finally:
                _ARMED[0] = False
                if cpu_limit:
                    signal.setitimer(signal.ITIMER_VIRTUAL, 0)
        except BuildHang as e:
            out.hung = True
            out.ok = None
            out.where = ioflo_where(e.__traceback__)
            out.stack = ioflo_stack(e.__traceback__)
        except Exception as e:
            out.exc = e
            out.where = ioflo_where(e.__traceback__)
            out.stack = ioflo_stack(e.__traceback__)
            out.inner = innermost(e.__traceback__)
    except BuildHang as e:       # a tick delivered between the inner handlers and the disarm
        out.hung = True
        out.ok = None
        out.where = out.where or ioflo_where(e.__traceback__)
        out.stack = out.stack or ioflo_stack(e.__traceback__)
    finally:
        _ARMED[0] = False
        if cpu_limit:
            signal.setitimer(signal.ITIMER_VIRTUAL, 0)
            signal.signal(signal.SIGVTALRM, old if old is not None else signal.SIG_DFL)
        try:   # the builder leaves the script open when an exception escapes it
            if b.currentFile is not None and not b.currentFile.closed:
                b.currentFile.close()
            for f in b.files:
                if not f.closed:
                    f.close()
        except Exception:
            pass
    out.houses = list(b.houses)
    return out


# ---------------------------------------------------------------------------------------------
# serialisation
# ---------------------------------------------------------------------------------------------
def _prim(v):
    return (type(v).__name__, repr(v))


class _Ser(object):
    def __init__(self, humans=False, counts=False):
        self.humans = humans
        self.counts = counts
        self.busy = set()

    def val(self, v):
        if v is None or isinstance(v, (bool, int, float, complex, str, bytes)):
            return _prim(v)
        if isinstance(v, storing.Share):
            return ("Share", v.name)
        if isinstance(v, storing.Node):
            return ("Node", v.name)
        if isinstance(v, framing.Frame):
            fr = v.framer
            return ("Frame", fr.name if isinstance(fr, framing.Framer) else fr, v.name)
        if isinstance(v, tasking.Tasker):
            return (type(v).__name__, v.name)
        if isinstance(v, housing.House):
            return ("House", v.name)
        if isinstance(v, storing.Store):
            return ("Store", v.name)
        if isinstance(v, acting.Act):
            return self.act(v)
        if isinstance(v, acting.Actor):
            return self.actor(v)
        if isinstance(v, tuple) and hasattr(v, "_fields"):
            return (type(v).__name__,) + tuple(self.val(x) for x in v)
        if isinstance(v, Mapping):
            return ("map:" + type(v).__name__, [(self.val(k), self.val(x)) for k, x in v.items()
                                                if self.humans or k != "human"])
        if isinstance(v, (list, tuple, deque)):
            return ("seq:" + type(v).__name__, [self.val(x) for x in v])
        if isinstance(v, (set, frozenset)):
            return ("set", sorted(repr(self.val(x)) for x in v))
        return ("obj", type(v).__name__)

    def actor(self, a):
        if id(a) in self.busy:
            return ("Actor^", type(a).__name__, a.name)
        self.busy.add(id(a))
        try:
            attrs = []
            d = getattr(a, "__dict__", None) or {}
            for k in sorted(d):
                if k.startswith("_") or k in ("name", "store"):
                    continue
                attrs.append((k, self.val(d[k])))
            tr = getattr(a, "_tracts", None)
            if tr:
                attrs.append(("_tracts", [self.val(x) for x in tr]))
            return ("Actor", type(a).__name__, a.name, attrs)
        finally:
            self.busy.discard(id(a))

    def act(self, act):
        if id(act) in self.busy:
            return ("Act^", type(act).__name__)
        self.busy.add(id(act))
        try:
            fr = act.frame
            out = [("class", type(act).__name__),
                   ("context", act.context),
                   ("frame", fr.name if isinstance(fr, framing.Frame) else fr),
                   ("actor", self.actor(act.actor) if isinstance(act.actor, acting.Actor) else _prim(act.actor)),
                   ("registrar", getattr(act.registrar, "__name__", None)),
                   ("inits", self.val(act.inits) if act.inits is not None else None),
                   ("ioinits", self.val(act.ioinits) if act.ioinits is not None else None),
                   ("prerefs", self.val(act.prerefs) if getattr(act, "prerefs", None) is not None else None),
                   ("parms", self.val(act.parms)),
                   ("inode", _prim(getattr(act, "inode", None)))]
            if isinstance(act, acting.SideAct):
                out.append(("action", act.action))
            if self.humans:
                out.append(("human", act.human))
            if self.counts:
                out.append(("count", act.count))
            return ("Act", out)
        finally:
            self.busy.discard(id(act))


def _name(x):
    if x is None:
        return None
    if isinstance(x, str):
        return "str:" + x
    if isinstance(x, Mapping):
        return "map:" + repr(sorted((str(k), str(v)) for k, v in x.items()))
    return getattr(x, "name", repr(type(x)))


FRAME_ACT_LISTS = ("beacts", "enacts", "renacts", "preacts", "reacts", "exacts", "rexacts")


def dump_frame(frame, ser):
    fr = frame.framer
    return [("name", frame.name),
            ("framer", fr.name if isinstance(fr, framing.Framer) else fr),
            ("inode", frame.inode),
            ("over", _name(frame.over)),
            ("unders", [_name(u) for u in frame.unders]),
            ("next", _name(frame.next_)),
            ("outline", [_name(f) for f in frame.outline]),
            ("head", [_name(f) for f in frame.head]),
            ("human", frame.human), ("headHuman", frame.headHuman),
            ("auxes", [_name(a) for a in frame.auxes])] + \
           [(lst, [ser.act(a) for a in getattr(frame, lst)]) for lst in FRAME_ACT_LISTS]


def dump_tasker(t, ser):
    out = [("class", type(t).__name__), ("name", t.name), ("period", _prim(t.period)),
           ("schedule", t.schedule), ("presolved", t.presolved), ("resolved", t.resolved)]
    if isinstance(t, framing.Framer):
        out += [("first", _name(t.first)), ("inode", t.inode), ("tag", t.tag),
                ("original", t.original), ("insular", t.insular), ("razeable", t.razeable),
                ("main", _name(t.main)),
                ("auxes", [(k, _name(v)) for k, v in t.auxes.items()]),
                ("moots", [(k, ser.val(v)) for k, v in t.moots.items()]),
                ("frames", [dump_frame(f, ser) for f in t.frameNames.values()])]
    elif isinstance(t, logging.Logger):
        out += [("flushPeriod", _prim(t.flushPeriod)), ("prefix", t.prefix), ("keep", _prim(t.keep)),
                ("cyclePeriod", _prim(t.cyclePeriod)), ("fileSize", _prim(t.fileSize)), ("reuse", t.reuse),
                ("logs", [[("name", l.name), ("kind", l.kind), ("baseFilename", l.baseFilename),
                           ("rule", l.rule),
                           ("loggees", [(tag, _name(s)) for tag, s in l.loggees.items()]),
                           ("fields", ser.val(getattr(l, "fields", None)))]
                          for l in t.logs])]
    elif isinstance(t, serving.Server):
        out += [("sha", ser.val(t.sha)), ("dha", ser.val(t.dha)), ("prefix", t.prefix)]
    return out


WALLCLOCK = ("realtime", "datetime")


def dump_store(store, ser=None):
    ser = ser or _Ser()
    out = []

    def walk(node, prefix):
        for k, v in node.items():
            p = prefix + [k]
            if isinstance(v, storing.Share):
                path = ".".join(p)
                if path in WALLCLOCK:      # Store.__init__/changeStamp put time.time() there
                    out.append((path, [(f, "<wallclock>") for f in v.keys()], []))
                    continue
                out.append((path, [(f, ser.val(x)) for f, x in v.items()],
                            sorted(str(m) for m in v.marks.keys())))
            else:
                out.append((".".join(p) + ".", None, None))
                walk(v, p)
    walk(store.shares, [])
    return out


def dump_house(house, humans=False, counts=False, store=True):
    ser = _Ser(humans=humans, counts=counts)
    out = [("name", house.name)]
    for lst in ("taskers", "framers", "fronts", "mids", "backs", "taskables", "auxes", "slaves", "moots"):
        out.append((lst, [t.name for t in getattr(house, lst)]))
    out.append(("metas", [(k, _name(v)) for k, v in house.metas.items()]))
    out.append(("tasker_detail", [dump_tasker(t, ser) for t in house.taskers]))
    if store:
        out.append(("store", dump_store(house.store, ser)))
    return out


def dump_houses(houses, **kw):
    return [dump_house(h, **kw) for h in houses]


def first_diff(a, b, path=""):
    """location and values of the first difference between two dumps ('' when equal)"""
    if type(a) != type(b):
        return "%s: %r != %r" % (path, _short(a), _short(b))
    if isinstance(a, (list, tuple)):
        keyed = all(isinstance(x, tuple) and len(x) == 2 and isinstance(x[0], str) for x in a) and \
                all(isinstance(x, tuple) and len(x) == 2 and isinstance(x[0], str) for x in b)
        for i, (x, y) in enumerate(zip(a, b)):
            if x != y:
                if keyed and x[0] == y[0]:
                    return first_diff(x[1], y[1], path + "/" + x[0])
                return first_diff(x, y, "%s[%d]" % (path, i))
        if len(a) != len(b):
            return "%s: length %d != %d (extra %r)" % (path, len(a), len(b),
                                                       _short((a[len(b):] or b[len(a):])[0]))
        return ""
    if a != b:
        return "%s: %r != %r" % (path, _short(a), _short(b))
    return ""


def _short(x, n=160):
    s = repr(x)
    return s if len(s) <= n else s[:n] + "..."


# ---------------------------------------------------------------------------------------------
# resolved store references of the acts
# ---------------------------------------------------------------------------------------------
def act_refs(house):
    """[(locator, kind, path)] for every Share / Node held by an act's parms (recursively through
    nested need acts) or by a non-parametric actor's attributes, in structural order.  The locator
    carries positions only (no entity names) so that two builds of a renamed script line up."""
    refs = []

    def from_val(v, loc, seen):
        if isinstance(v, storing.Share):
            refs.append((loc, "share", v.name))
        elif isinstance(v, storing.Node):
            refs.append((loc, "node", v.name))
        elif isinstance(v, acting.Act):
            from_act(v, loc, seen)
        elif isinstance(v, Mapping):
            for k, x in v.items():
                from_val(x, loc + (str(k),), seen)
        elif isinstance(v, (list, tuple, deque)) and not hasattr(v, "_fields"):
            for i, x in enumerate(v):
                from_val(x, loc + (i,), seen)

    def from_act(act, loc, seen):
        if id(act) in seen:
            return
        seen.add(id(act))
        from_val(act.parms, loc + ("parms",), seen)
        a = act.actor
        if isinstance(a, acting.Actor):
            d = getattr(a, "__dict__", None) or {}
            for k in sorted(d):
                if k in ("store",) or k.startswith("_"):
                    continue
                from_val(d[k], loc + ("attr", k), seen)

    for i, framer in enumerate(house.framers):
        for j, frame in enumerate(framer.frameNames.values()):
            for lst in FRAME_ACT_LISTS:
                for k, act in enumerate(getattr(frame, lst)):
                    from_act(act, (i, j, lst, k), set())
    return refs


def store_paths(store):
    return [p for p, _, _ in dump_store(store)]


# ---------------------------------------------------------------------------------------------
# tick runner with recorder
# ---------------------------------------------------------------------------------------------
def run_ticks(houses, ticks, period=0.125, values=True):
    """Drive every taskable of every house for `ticks` ticks the way Skedder.run does for
    zero-period taskers (send tasker.desire once per tick in house order, then advance the store
    stamp).  Returns the recorded trace: per tick, per tasker (name, status, desire, active
    outline) and the store contents after the tick.  An exception of a tasker ends the run and is
    recorded (type name only) as the last trace element."""
    trace = []
    stamp = 0.0
    ser = _Ser()
    for house in houses:
        house.store.changeStamp(stamp)
        for t in house.taskables:
            t.desire = START if t.schedule == ACTIVE else STOP
            t.status = STOPPED
    for n in range(ticks):
        row = []
        try:
            for house in houses:
                for t in house.taskables:
                    status = t.runner.send(t.desire)
                    row.append((house.name, t.name, status, t.desire,
                                getattr(t, "human", None), getattr(t, "done", None)))
        except StopIteration:
            row.append(("StopIteration",))
            trace.append(row)
            break
        except Exception as e:
            row.append(("exception", type(e).__name__))
            trace.append(row)
            break
        if values:
            row.append([dump_store(h.store, ser) for h in houses])
        trace.append(row)
        stamp += period
        for house in houses:
            house.store.changeStamp(stamp)
    return trace
