"""verification engines for ioflo (E1 symx, E2 astsmt)"""


class Ob:
    """One obligation (one shard of a harness)."""
    def __init__(self, name, fn, params=None, kind="e1", budget=60, per_path=20, covers=(),
                 bounds=None, replay=None, max_fail_keys=6, hang_s=None):
        self.name = name
        self.fn = fn
        self.params = params or {}
        self.kind = kind
        self.budget = budget
        self.per_path = per_path
        self.covers = tuple(covers)
        self.bounds = bounds or {}
        self.replay = replay
        self.max_fail_keys = max_fail_keys
        self.hang_s = hang_s
