"""FloScript program generation, build/run helpers and recorder actors for the
run-time framer harnesses (C02-C12, C20, C21).

A program is described structurally (`Prog`), emitted as FloScript text, built by
the REAL `ioflo.base.building.Builder` (concrete text, so under NoTracing) and run
by the real framer/skedder code with symbolic store values.  `engine/floref.py`
interprets the same structure independently.
"""
import os, sys, atexit, shutil, tempfile, contextlib

from ioflo.base.globaling import *  # noqa: F401,F403
from ioflo.base import building, doing, housing, skedding, framing, tasking, storing, acting

LOG = []          # (framer name, frame name, context)
_TMP = None


def tmpdir():
    global _TMP
    if _TMP is None or not os.path.isdir(_TMP):
        _TMP = tempfile.mkdtemp(prefix="verif_flo_")
        atexit.register(shutil.rmtree, _TMP, True)
    return _TMP


@doing.doify('VerifRecord')
def verifRecord(self, **kwa):
    fr = self._act.frame
    LOG.append((fr.framer.name, fr.name, self._act.context))


CRASH = dict(count=0, at=0, kind=0)   # crash injection: the at-th call of any `verif raise` action raises


@doing.doify('VerifRaise')
def verifRaise(self, **kwa):
    """crash injection point: counts calls; raises at call number CRASH['at'] (may be a symbolic int)"""
    CRASH["count"] += 1
    if CRASH["count"] == CRASH["at"]:
        if CRASH["kind"] == 1:
            raise ValueError("verif injected")
        if CRASH["kind"] == 2:
            raise KeyboardInterrupt()


@contextlib.contextmanager
def notrace(sym):
    """run a block untraced under symbolic execution; no-op under concrete replay"""
    if getattr(sym, "symbolic", False):
        from crosshair.tracers import NoTracing
        with NoTracing():
            yield
    else:
        yield


def build_text(text, name="p.flo"):
    """Build houses from FloScript text with the real Builder. Raises on failure."""
    fn = os.path.join(tmpdir(), name)
    with open(fn, "w") as f:
        f.write(text)
    b = building.Builder(fileName=fn)
    ok = b.build()
    if not ok:
        raise RuntimeError("harness script did not build:\n" + text)
    return b.houses


# ---------------------------------------------------------------------------
# structural program description
CTX = ("enter", "recur", "precur", "exit", "renter", "rexit")


class FrameSpec:
    def __init__(self, name, parent=None, guard=None, items=None, rec=True):
        self.name = name
        self.parent = parent        # name or None
        self.guard = guard          # None or cond list [(share, op, goal)]
        self.items = items or []    # ordered body: ('go', target, cond) ('aux', name) ('caux', name, cond)
                                    # ('done',) ('bid', control, target) ('rec', ctx) ('put', share, val) ('inc', share, val)
        self.rec = rec              # recorder acts in every context


class FramerSpec:
    def __init__(self, name, kind="active", first=None, frames=None, period=None):
        self.name = name
        self.kind = kind            # active inactive aux slave
        self.first = first
        self.frames = frames or []
        self.period = period


class Prog:
    def __init__(self, framers, shares=()):
        self.framers = framers
        self.shares = list(shares)  # share names to pre-create

    def framer(self, name):
        for f in self.framers:
            if f.name == name:
                return f
        raise KeyError(name)


def clause_text(c):
    if c[0] == "@done":
        who = c[1] if c[1] in ("any", "all") else "aux " + c[1]
        return "%s in frame %s is done" % (who, c[2])
    return "%s %s %s" % c


def cond_text(cond):
    return " and ".join(clause_text(c) for c in cond)


def emit(prog):
    lines = ["house h"]
    for fr in prog.framers:
        l = "  framer %s be %s" % (fr.name, fr.kind)
        if fr.period is not None:
            l += " at %s" % fr.period
        if fr.first:
            l += " first %s" % fr.first
        lines.append(l)
        for f in fr.frames:
            lines.append("    frame %s%s" % (f.name, (" in %s" % f.parent) if f.parent else ""))
            if f.guard:
                lines.append("      let me if " + cond_text(f.guard))
            if f.rec:
                for c in ("enter", "exit", "renter", "rexit", "recur"):
                    lines.append("      do verif record at %s" % c)
            for it in f.items:
                k = it[0]
                if k == "go":
                    lines.append("      go %s%s" % (it[1], (" if " + cond_text(it[2])) if it[2] else ""))
                elif k == "aux":
                    lines.append("      aux %s" % it[1])
                elif k == "caux":
                    lines.append("      aux %s if %s" % (it[1], cond_text(it[2])))
                elif k == "done":
                    lines.append("      done me")
                elif k == "bid":
                    lines.append("      bid %s %s" % (it[1], it[2]))
                elif k == "rec":
                    lines.append("      do verif record at %s" % it[1])
                elif k in ("put", "inc", "copy"):
                    ctx = it[3] if len(it) > 3 else "enter"
                    lines.append("      " + ctx)
                    if k == "put":
                        lines.append("      put %s into %s" % (it[2], it[1]))
                    elif k == "inc":
                        lines.append("      inc %s with %s" % (it[1], it[2]))
                    else:
                        lines.append("      copy %s into %s" % (it[1], it[2]))
                    lines.append("      native")
                elif k == "timeout":
                    lines.append("      timeout %s" % it[1])
                elif k == "repeat":
                    lines.append("      repeat %s" % it[1])
                elif k == "raw":
                    lines.append("      " + it[1])
                else:
                    raise ValueError(k)
    return "\n".join(lines) + "\n"


def add_transit_recorders(house):
    """append a recording callable to every Transiter's/Suspender's transit sub-context list"""
    for framer in house.framers:
        for frame in framer.frameNames.values():
            for act in frame.preacts:
                actor = act.actor
                if isinstance(actor, acting.Interrupter):
                    def rec(fn=framer.name, n=frame.name):
                        LOG.append((fn, n, "transit"))
                    actor._tracts.append(rec)


def outline_names(framer):
    return [f.name for f in framer.actives]


CLOCKS = []       # (framer name, frame name, framer.elapsed, framer.recurred, elapsed share value, recurred share value)


@doing.doify('VerifClock')
def verifClock(self, **kwa):
    fr = self._act.frame
    m = fr.framer
    CLOCKS.append((m.name, fr.name, m.elapsed, m.recurred, m.elapsedShr.value, m.recurredShr.value))


STAMPS = []       # (framer name, store stamp) one entry per framer run


@doing.doify('VerifStamp')
def verifStamp(self, **kwa):
    fr = self._act.frame
    STAMPS.append((fr.framer.name, self.store.stamp))
