"""In-memory file-system double for the logging checks (C22, C23).

Three levels of content per file (inode):
    handle.pending   text written through a Python file object, not yet flushed (dies with the process)
    inode.os         content the kernel has (what other opens, getsize and the survivors of a killed process see)
    inode.disk       durable content := inode.os at the last fsync of that inode
Stated assumptions of the model: name-space operations (create, rename) are atomic and durable at
once; rename replaces the destination; a truncating open empties `os` at once and `disk` at the next
fsync; text == bytes (ASCII only); no I/O errors other than ENOENT / EEXIST, plus two optional
environment faults a harness may inject: `fs.rename_fail_at = n` (the n-th os.rename call raises
OSError(EIO) and changes nothing; n may be symbolic) and `fs.remove_external(path)` (another actor
deletes a file between two operations of the process).

`install(fs)` puts the double into ioflo.base.logging (`os`) and ioflo.aid.filing (`os`, `open`), so the
*real* `ocfn`, `Log.reopen/flush/close/cycle` and `Logger.createPath` run against it.

Every state-changing call is numbered (`fs.nops`) and reported to `fs.hook(fs, event, info)` if set.
If `fs.crash_at` is set (may be a symbolic int) the process "dies" right after operation number
`crash_at`: `fs.crash` gets the two post-mortem views, the file system freezes and `ProcessKilled`
is raised into the caller.
"""
import errno
import io
import os as _os


class ProcessKilled(Exception):
    """raised by the double when the crash index is reached"""


class DoubleLimit(BaseException):
    """the code used a file-system feature this double does not model (=> harness error, never a verdict)"""


class Inode(object):
    def __init__(self, os_="", disk=""):
        self.os = os_
        self.disk = disk


class Handle(object):
    def __init__(self, fs, inode, mode, fd, path):
        self.fs = fs
        self.inode = inode
        self.mode = mode
        self.fd = fd
        self.name = path
        self.pending = []
        self.closed = False
        self.rpos = 0
        self.writable = ("w" in mode) or ("a" in mode) or ("+" in mode)
        self.append_only = ("a" in mode) or ("w" in mode)   # sequential writes after truncate == append

    # -- writing
    def write(self, s):
        if self.closed:
            raise ValueError("I/O operation on closed file.")
        if not self.writable:
            raise io.UnsupportedOperation("not writable")
        if not self.append_only:
            raise DoubleLimit("positional write in mode %r" % self.mode)
        if self.fs.dead:
            return len(s)
        if self.fs.realize is not None:
            s = self.fs.realize(s)       # like real file I/O: the text becomes concrete here
        self.pending.append(s)
        self.fs._event("write", handle=self, text=s, count=False)
        return len(s)

    def _drain(self, why):
        if self.pending and not self.fs.dead:
            self.inode.os = self.inode.os + "".join(self.pending)
            self.pending = []
            self.fs._event(why, handle=self)

    def flush(self):
        if self.closed:
            raise ValueError("I/O operation on closed file.")
        self._drain("flush")
        if not self.fs.dead:
            self.fs._event("flushed", handle=self, count=False)

    def close(self):
        if not self.closed:
            self._drain("close")
            self.closed = True
            self.fs.fds.pop(self.fd, None)

    def fileno(self):
        if self.closed:
            raise ValueError("I/O operation on closed file")
        return self.fd

    # -- reading (whole-text only; enough for tests and ocfn users)
    def seek(self, pos, whence=0):
        if whence == 0:
            self.rpos = pos
        elif whence == 2:
            self.rpos = len(self.inode.os) + sum(len(p) for p in self.pending) + pos
        else:
            raise DoubleLimit("seek whence=1")
        return self.rpos

    def read(self, n=-1):
        text = (self.inode.os + "".join(self.pending))[self.rpos:]
        if n is not None and n >= 0:
            text = text[:n]
        self.rpos += len(text)
        return text

    def readlines(self):
        return self.read().splitlines(True)

    def __enter__(self):
        return self

    def __exit__(self, *a):
        self.close()
        return False


class _Path(object):
    def __init__(self, fs):
        self._fs = fs

    def exists(self, p):
        return p in self._fs.files or p in self._fs.dirs

    def getsize(self, p):
        ino = self._fs.files.get(p)
        if ino is None:
            raise FileNotFoundError(errno.ENOENT, "No such file or directory", p)
        return len(ino.os)

    def isfile(self, p):
        return p in self._fs.files

    def isdir(self, p):
        return p in self._fs.dirs

    def __getattr__(self, n):
        return getattr(_os.path, n)


class _Os(object):
    """stands in for the `os` module inside ioflo.base.logging / ioflo.aid.filing"""
    def __init__(self, fs):
        self._fs = fs
        self.path = _Path(fs)

    def open(self, filename, flags, mode=0o777):
        fs = self._fs
        if flags & _os.O_CREAT and flags & _os.O_EXCL:
            if filename in fs.files:
                raise FileExistsError(errno.EEXIST, "File exists", filename)
            fs._create(filename)
            return fs._newfd(filename, fs.files[filename])
        raise DoubleLimit("os.open flags %r" % flags)

    def fdopen(self, fd, mode="r", *pa, **kwa):
        fs = self._fs
        path, inode = fs.rawfds.pop(fd)
        h = Handle(fs, inode, mode, fd, path)
        fs.fds[fd] = h
        return h

    def rename(self, src, dst):
        fs = self._fs
        if fs.dead:
            return
        fs.nrenames += 1
        if fs.rename_fail_at is not None and fs.nrenames == fs.rename_fail_at:
            # injected environment fault: this rename call fails and changes nothing
            fs._event("rename-failed", src=src, dst=dst, why="EIO", count=False)
            raise OSError(errno.EIO, "Input/output error", src)
        if src not in fs.files:
            fs._event("rename-failed", src=src, dst=dst, why="ENOENT", count=False)
            raise FileNotFoundError(errno.ENOENT, "No such file or directory", src)
        gone = fs.files.get(dst)
        fs.files[dst] = fs.files.pop(src)
        fs._event("rename", src=src, dst=dst, replaced=gone)

    def remove(self, p):
        fs = self._fs
        if fs.dead:
            return
        if p not in fs.files:
            raise FileNotFoundError(errno.ENOENT, "No such file or directory", p)
        gone = fs.files.pop(p)
        fs._event("remove", src=p, replaced=gone)

    unlink = remove

    def fsync(self, fd):
        fs = self._fs
        if fs.dead:
            return
        h = fs.fds.get(fd)
        if h is None:
            raise OSError(errno.EBADF, "Bad file descriptor")
        h.inode.disk = h.inode.os
        fs._event("fsync", handle=h)

    def makedirs(self, p, *pa, **kwa):
        fs = self._fs
        if p in fs.dirs:
            raise FileExistsError(errno.EEXIST, "File exists", p)
        fs.dirs.add(p)

    def __getattr__(self, n):
        return getattr(_os, n)


class MemFS(object):
    def __init__(self):
        self.files = {}      # path -> Inode  (name space; durable at once)
        self.dirs = set()
        self.fds = {}        # fd -> Handle
        self.rawfds = {}     # fd from os.open not yet wrapped by fdopen
        self.nextfd = 100
        self.nops = 0        # state-changing operations so far (crash points)
        self.hook = None     # hook(fs, event, info) after every event
        self.realize = None  # set to sym.realize by harnesses running under the symbolic engine
        self.crash_at = None
        self.nrenames = 0    # os.rename calls so far
        self.rename_fail_at = None   # environment fault: the rename call with this number raises OSError(EIO); may be symbolic
        self.crash = None    # dict(os=..., disk=...) taken when the process died
        self.dead = False
        self.os = _Os(self)

    # -- used by the double itself
    def _newfd(self, path, inode):
        fd = self.nextfd
        self.nextfd += 1
        self.rawfds[fd] = (path, inode)
        return fd

    def _create(self, path):
        if self.dead:
            self.files.setdefault(path, Inode())
            return
        self.files[path] = Inode()
        self._event("create", src=path)

    def _event(self, event, count=True, **info):
        if self.dead:
            return
        if self.hook is not None:
            self.hook(self, event, info)
        if count:
            self.nops += 1
            if self.crash_at is not None and self.nops == self.crash_at:
                self.crash = dict(os=self.view("os"), disk=self.view("disk"), nops=self.nops, event=event)
                self.dead = True
                raise ProcessKilled(event)

    # -- builtin open() replacement for ioflo.aid.filing
    def open(self, filename, mode="r", *pa, **kwa):
        if "b" in mode:
            raise DoubleLimit("binary mode")
        inode = self.files.get(filename)
        if inode is None:
            if "r" in mode:
                raise FileNotFoundError(errno.ENOENT, "No such file or directory", filename)
            self._create(filename)
            inode = self.files[filename]
        elif "w" in mode and not self.dead:
            if inode.os:
                inode.os = ""
            self._event("truncate", src=filename, inode=inode)
        fd = self._newfd(filename, inode)
        return self.os.fdopen(fd, mode)

    # -- used by harnesses
    def put(self, path, text):
        """pre-existing durable file"""
        self.files[path] = Inode(text, text)

    def remove_external(self, path):
        """environment fault: somebody else deletes a file (not an operation of the process: no crash point)"""
        gone = self.files.pop(path, None)
        if gone is not None:
            self._event("external-remove", src=path, replaced=gone, count=False)
        return gone

    def view(self, level):
        """{path: content} as seen after a process kill ('os') or a machine crash ('disk')"""
        return {p: getattr(i, level) for p, i in self.files.items()}

    def logical(self, path):
        """content a reader inside the process would expect: os + unflushed text of open handles"""
        ino = self.files.get(path)
        if ino is None:
            return None
        text = ino.os
        for h in self.fds.values():
            if h.inode is ino and h.pending:
                text = text + "".join(h.pending)
        return text


class _FixedNow(object):
    year, month, day, hour, minute, second, microsecond = 2020, 1, 2, 3, 4, 5, 6000


class _FixedDatetime(object):
    """stands in for the `datetime` module inside ioflo.base.logging (Logger.createPath's unique directory name)"""
    class datetime(object):
        @staticmethod
        def now():
            return _FixedNow()


def install(fs):
    """route ioflo.base.logging / ioflo.aid.filing to the double; returns an undo function"""
    from ioflo.base import logging as L
    from ioflo.aid import filing as F
    saved = (L.os, F.os, F.__dict__.get("open"), L.datetime)
    L.os = fs.os
    F.os = fs.os
    F.open = fs.open
    L.datetime = _FixedDatetime

    def undo():
        L.os, F.os = saved[0], saved[1]
        L.datetime = saved[3]
        if saved[2] is None:
            F.__dict__.pop("open", None)
        else:
            F.open = saved[2]
    return undo
