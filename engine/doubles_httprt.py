"""Harness-side doubles for the HTTP round-trip properties C30 / C31 / C34.

Nothing here touches ioflo's source.  Three groups:

* C30: `IncomerStub` (collects what a Responder transmits; what a Requestant needs of
  its incomer), `read_response` (an independent, minimal RFC 7230 response reader used as
  reference for "is this response delimited"), `run_concrete` (untraced concrete section).
* C31: an in-memory socket pair (`Pipe`, `Conn`, `Listen`) for the unmodified
  `Patron` <-> `Valet`, with a transfer-limit policy (`SlotLimits`) whose call index and
  byte limit are symbolic integers.
* C34: a fake network (`FakeNet`): a replacement for the `socket` / `ssl` module names
  inside `ioflo.aio.tcp.clienting`, scripted servers keyed by (ip, port), a TLS context
  double.  `Patron.redirect` builds brand-new `Client` / `ClientTls` objects, so the double
  has to sit below them, at the socket module.
"""
import errno
import socket as _socket
import ssl as _ssl
import types
from collections import deque

BIG = 1 << 20


def _again():
    return _socket.error(errno.EAGAIN, "again")


# --------------------------------------------------------------------------- C30
class IncomerStub(object):
    """What Requestant / Responder use of an Incomer: .tx(), .ca, .timeout."""
    def __init__(self, ca=("127.0.0.1", 50001)):
        self.ca = ca
        self.timeout = 5.0
        self.sent = []

    def tx(self, data):
        self.sent.append(bytes(data))

    def wire(self):
        return b"".join(self.sent)


class WireError(Exception):
    def __init__(self, kind, detail=""):
        Exception.__init__(self, kind, detail)
        self.kind = kind
        self.detail = detail


def read_response(buf, pos=0, closed=False, head_only=False):
    """Reference reader of ONE HTTP/1.1 response starting at buf[pos] (RFC 7230 3.3.3).
    Returns (status:int, reason:str, headers:[(lowername, value)], body:bytes, newpos, framing)
    or None when the message is incomplete.  framing in {'length','chunked','close','none'}.
    A response with neither Content-Length nor chunked coding is only complete at
    connection close (`closed`); on an open connection it is reported as framing 'close'
    with body = everything so far, and newpos = None (cannot know where it ends)."""
    end = buf.find(b"\r\n\r\n", pos)
    if end < 0:
        return None
    lines = bytes(buf[pos:end]).split(b"\r\n")
    parts = lines[0].decode("iso-8859-1").split(" ", 2)
    if len(parts) < 2 or not parts[0].startswith("HTTP/"):
        raise WireError("bad-status-line", repr(lines[0]))
    status = int(parts[1])
    reason = parts[2] if len(parts) > 2 else ""
    headers = []
    for ln in lines[1:]:
        name, sep, value = ln.decode("iso-8859-1").partition(":")
        if not sep:
            raise WireError("bad-header-line", repr(ln))
        headers.append((name.strip().lower(), value.strip()))
    p = end + 4
    hd = dict(headers)
    if head_only or status in (204, 304) or 100 <= status < 200:
        if hd.get("transfer-encoding", "").lower() != "chunked":
            return status, reason, headers, b"", p, "none"
    if hd.get("transfer-encoding", "").lower() == "chunked":
        body = bytearray()
        while True:
            e = buf.find(b"\r\n", p)
            if e < 0:
                return None
            size = int(bytes(buf[p:e]).split(b";")[0].strip(), 16)
            p = e + 2
            if size == 0:
                # trailers until empty line
                while True:
                    e = buf.find(b"\r\n", p)
                    if e < 0:
                        return None
                    line = buf[p:e]
                    p = e + 2
                    if not line:
                        return status, reason, headers, bytes(body), p, "chunked"
            if len(buf) < p + size + 2:
                return None
            body.extend(buf[p:p + size])
            if bytes(buf[p + size:p + size + 2]) != b"\r\n":
                raise WireError("bad-chunk-end", repr(bytes(buf[p + size:p + size + 2])))
            p += size + 2
    if "content-length" in hd:
        n = int(hd["content-length"])
        if len(buf) < p + n:
            return None
        return status, reason, headers, bytes(buf[p:p + n]), p + n, "length"
    return status, reason, headers, bytes(buf[p:]), (len(buf) if closed else None), "close"


# --------------------------------------------------------------------------- C31
class Unlimited(object):
    calls = 0

    def next(self, avail):
        self.calls += 1
        return avail


class SlotLimits(object):
    """Transfer-limit policy of the socket pair.  Every send()/recv() on either end is one
    'transfer call', numbered 1,2,3.. globally.  Slot k limits call number at[k] to
    lim[k]*stride bytes (0 = EAGAIN / nothing moved) when tail[k] == 0, or to all BUT the last
    lim[k]*stride bytes when tail[k] == 1 (a short write that leaves a small remainder, e.g. the
    head of a request goes out and part of its body stays behind); every other call moves all
    it can.  at[k], lim[k] and tail[k] are symbolic integers: the solver forks on `at[k] == callno` for the
    calls that really happen and on `limit < available`."""
    def __init__(self, sym, slots, maxcall, lmax, stride=1, tail=True):
        self.calls = 0
        self.stride = stride
        self.resume = bool(getattr(sym, "symbolic", False))
        self.at = []
        self.lim = []
        self.tail = []
        self.fired = 0
        for k in range(slots):
            a = sym.int("at%d" % k, 0, maxcall)
            l = sym.int("lim%d" % k, 0, lmax)
            self.tail.append(sym.int("tail%d" % k, 0, 1) if tail else 0)
            if k:
                prev = self.at[k - 1]
                sym.assume(prev == 0 or prev < a)   # ascending, unused slots (0) first
            self.at.append(a)
            self.lim.append(l)

    def next(self, avail):
        self.calls += 1
        if not self.at:
            return avail
        if self.resume:
            # the exchange itself runs untraced (concrete ioflo code); only this decision is symbolic
            from crosshair.tracers import ResumedTracing
            from crosshair.core import deep_realize
            with ResumedTracing():
                return deep_realize(self._decide(avail))
        return self._decide(avail)

    def _decide(self, avail):
        n = self.calls
        for k in range(len(self.at)):
            if self.at[k] == n:
                self.fired += 1
                lim = self.lim[k] * self.stride
                if self.tail[k] == 1:
                    if lim == 0:
                        return avail          # "all but 0 bytes": same as unlimited
                    lim = avail - lim
                    if lim < 0:
                        lim = 0
                if lim < avail:
                    return lim
                return avail
        return avail


class Pipe(object):
    """one direction of a byte stream"""
    def __init__(self):
        self.buf = bytearray()
        self.closed = False
        self.total = bytearray()     # everything ever written (wire log)


class Conn(object):
    """one end of an in-memory stream socket pair (non-blocking semantics)"""
    def __init__(self, rx, tx, me, peer, policy):
        self.rx, self.tx, self.me, self.peer = rx, tx, me, peer
        self.policy = policy
        self.moved = 0        # bytes moved through this end (progress detection)
        self.open = True

    def setblocking(self, flag):
        pass

    def getsockname(self):
        return self.me

    def getpeername(self):
        return self.peer

    def shutdown(self, how):
        pass

    def close(self):
        self.open = False
        self.tx.closed = True

    def send(self, data):
        if not data:
            return 0
        n = self.policy.next(len(data))
        if n == 0:
            raise _again()
        chunk = bytes(data[:n])
        # bytes sent after the peer closed are accepted by the kernel and lost; no exception here
        self.tx.buf.extend(chunk)
        self.tx.total.extend(chunk)
        self.moved += n
        return n

    def recv(self, bs):
        if not self.rx.buf:
            if self.rx.closed:
                return b""
            raise _again()
        avail = len(self.rx.buf)
        if bs < avail:
            avail = bs
        n = self.policy.next(avail)
        if n == 0:
            raise _again()
        d = bytes(self.rx.buf[:n])
        del self.rx.buf[:n]
        self.moved += n
        return d


class Listen(object):
    """listening-socket double: accept() hands out queued (Conn, ca) pairs"""
    def __init__(self):
        self.pending = []

    def accept(self):
        if not self.pending:
            raise _again()
        return self.pending.pop(0)

    def shutdown(self, how):
        pass

    def close(self):
        pass


def socket_pair(policy, ca=("127.0.0.1", 50001), sa=("127.0.0.1", 8080)):
    """Returns (client_end, server_end, c2s_pipe, s2c_pipe)."""
    c2s, s2c = Pipe(), Pipe()
    return Conn(s2c, c2s, ca, sa, policy), Conn(c2s, s2c, sa, ca, policy), c2s, s2c


def wire_pair(patron, valet, policy, ca=("127.0.0.1", 50001), sa=("127.0.0.1", 8080)):
    """Connect an (unopened) Patron and an (unopened) Valet through a socket pair:
    valet.servant.ss = listening double with the server end pending; patron.connector.cs =
    client end, marked accepted.  Returns (c2s, s2c)."""
    cend, send_, c2s, s2c = socket_pair(policy, ca, sa)
    lis = Listen()
    lis.pending.append((send_, ca))
    valet.servant.ss = lis
    valet.servant.opened = True
    patron.connector.cs = cend
    patron.connector.ca = ca
    patron.connector.accepted = True
    patron.connector.opened = True
    return c2s, s2c


# --------------------------------------------------------------------------- C34
PAUSE = object()


class FakeSock(object):
    """socket.socket double living in a FakeNet"""
    def __init__(self, net):
        self.net = net
        self.server = None
        self.peer = None
        self.me = None
        self.tls = False
        self.sni = None
        self.inbox = bytearray()      # bytes the client sent, not yet consumed by the server
        self.outbox = deque()         # bytes / PAUSE the server queued for the client
        self.closed = False
        self.peer_closed = False

    # plumbing the Client class calls at open()
    def setsockopt(self, *a):
        pass

    def getsockopt(self, *a):
        return BIG

    def setblocking(self, flag):
        pass

    def connect_ex(self, ha):
        if self.server is not None:
            return errno.EISCONN
        server = self.net.servers.get((ha[0], ha[1]))
        self.net.connects.append((ha[0], ha[1]))
        if server is None:
            return errno.ECONNREFUSED
        self.server = server
        self.peer = (ha[0], ha[1])
        self.net.nconn += 1
        self.me = ("127.0.0.1", 50000 + self.net.nconn)
        server.conns.append(self)
        return 0

    def getsockname(self):
        return self.me

    def getpeername(self):
        return self.peer

    def shutdown(self, how):
        pass

    def close(self):
        self.closed = True

    def send(self, data):
        if self.server is None:
            raise _socket.error(errno.ENOTCONN, "not connected")
        self.inbox.extend(data)
        return len(data)

    def recv(self, bs):
        if not self.outbox:
            if self.peer_closed:
                return b""
            raise _again()
        item = self.outbox.popleft()
        if item is PAUSE:
            raise _again()
        if len(item) > bs:
            self.outbox.appendleft(item[bs:])
            item = item[:bs]
        return bytes(item)


class FakeTlsSock(object):
    """what FakeContext.wrap_socket returns: same stream, flagged as TLS"""
    def __init__(self, sock, sni):
        self._s = sock
        sock.tls = True
        sock.sni = sni

    def do_handshake(self):
        if not self._s.server.tls:
            raise _ssl.SSLError(_ssl.SSL_ERROR_SSL, "peer does not speak TLS (double)")

    def recv(self, bs):
        # a non-blocking TLS socket signals "no data yet" with SSLWantReadError, not EAGAIN
        try:
            return self._s.recv(bs)
        except BlockingIOError:
            raise _ssl.SSLWantReadError(_ssl.SSL_ERROR_WANT_READ, "want read (double)")

    def __getattr__(self, name):
        return getattr(self._s, name)


class FakeContext(object):
    """ssl.SSLContext double"""
    def __init__(self):
        self.check_hostname = True
        self.verify_mode = _ssl.CERT_REQUIRED
        self.options = 0

    def load_default_certs(self, purpose=None):
        pass

    def load_verify_locations(self, cafile=None, capath=None, cadata=None):
        pass

    def load_cert_chain(self, certfile=None, keyfile=None):
        pass

    def wrap_socket(self, sock, server_side=False, do_handshake_on_connect=False, server_hostname=None):
        return FakeTlsSock(sock, server_hostname)


class ScriptServer(object):
    def __init__(self, net, ip, port, tls):
        self.net, self.ip, self.port, self.tls = net, ip, port, tls
        self.conns = []

    def service(self):
        """consume complete requests from every connection; answer from net.script"""
        progressed = False
        for c in self.conns:
            if c.closed:
                continue
            if self.tls != "both" and c.tls != self.tls and c.inbox:
                # plain bytes to a TLS port or TLS to a plain port: record and drop the connection
                self.net.log.append(dict(server=(self.ip, self.port), tls=c.tls, garbage=True,
                                         method=None, target=None, headers={}, body=b""))
                del c.inbox[:]
                c.peer_closed = True
                progressed = True
                continue
            while True:
                end = c.inbox.find(b"\r\n\r\n")
                if end < 0:
                    break
                lines = bytes(c.inbox[:end]).split(b"\r\n")
                reqline = lines[0].decode("iso-8859-1").split(" ")
                headers = {}
                for ln in lines[1:]:
                    name, sep, value = ln.decode("iso-8859-1").partition(":")
                    headers[name.strip().lower()] = value.strip()
                n = int(headers.get("content-length", "0") or 0)
                if len(c.inbox) < end + 4 + n:
                    break
                body = bytes(c.inbox[end + 4:end + 4 + n])
                del c.inbox[:end + 4 + n]
                rec = dict(server=(self.ip, self.port), tls=c.tls, garbage=False, conn=id(c),
                           method=reqline[0], target=reqline[1] if len(reqline) > 1 else "",
                           headers=headers, body=body)
                self.net.log.append(rec)
                for piece in self.net.respond(len(self.net.log) - 1, rec):
                    c.outbox.append(piece)
                progressed = True
        return progressed


class FakeNet(object):
    """A closed world of scripted HTTP servers reachable through FakeSock.
    `respond(index, request_record)` -> iterable of bytes / PAUSE pieces: the scripted answer
    to the index-th request received anywhere in the world."""
    def __init__(self, respond):
        self.servers = {}
        self.log = []        # every request received, in arrival order
        self.connects = []   # every connect attempt (ip, port)
        self.nconn = 0
        self.respond = respond

    def add(self, ip, port, tls=False):
        """tls: False = plain port, True = TLS port, "both" = accepts either (a front end that serves
        http and https on one port; lets a redirect change ONLY the scheme)"""
        self.servers[(ip, port)] = ScriptServer(self, ip, port, tls)

    def service(self):
        progressed = False
        for s in self.servers.values():
            if s.service():
                progressed = True
        return progressed

    def socket(self, *a, **k):
        return FakeSock(self)


def _clone_module(mod, **overrides):
    m = types.ModuleType(mod.__name__ + "_double")
    m.__dict__.update({k: v for k, v in mod.__dict__.items() if not k.startswith("__")})
    m.__dict__.update(overrides)
    return m


def install_fake_net(net):
    """Point the names `socket` and `ssl` inside ioflo.aio.tcp.clienting at doubles bound to
    `net` (errno constants, socket.error, ssl error classes stay the real ones)."""
    import ioflo.aio.tcp.clienting as tcpc
    tcpc.socket = _clone_module(_socket, socket=net.socket)
    tcpc.ssl = _clone_module(_ssl, create_default_context=lambda purpose=None, **k: FakeContext(),
                             SSLContext=lambda *a, **k: FakeContext())
    return tcpc


def uninstall_fake_net():
    import ioflo.aio.tcp.clienting as tcpc
    tcpc.socket = _socket
    tcpc.ssl = _ssl


# --------------------------------------------------------------------------- concrete sections
class _Stop(Exception):
    pass


class Rec(object):
    """check/cover recorder for a section that runs with every input already realised.
    The section runs under NoTracing (plain CPython speed); the verdict is handed to `sym`
    afterwards.  An unexpected exception of the code under test propagates unchanged."""
    def __init__(self):
        self.covers = []
        self.failure = None

    def cover(self, label):
        self.covers.append(label)

    def check(self, c, key, detail=""):
        if not c:
            raise _Stop(key, detail)

    def fail(self, key, detail=""):
        raise _Stop(key, detail)


def run_concrete(sym, fn, *args, **kw):
    """Run fn(rec, *args) untraced; replay its covers / first failure on sym."""
    from crosshair.tracers import NoTracing
    rec = Rec()
    with NoTracing():
        try:
            fn(rec, *args, **kw)
        except _Stop as e:
            rec.failure = e.args
    for lab in rec.covers:
        sym.cover(lab)
    if rec.failure is not None:
        sym.fail(rec.failure[0], rec.failure[1])
    return True
