"""Framer step harness shared by C05, C06, C08, C09, C10, C11 (and C07).

A program family is drawn from selectors (frame forest, first frame, transitions,
plain / conditional auxiliaries); the REAL house is built and its main framer is
driven tick by tick with fresh symbolic share values each tick; the independent
reference interpreter (engine/floref.py) runs in lock-step.  `run()` returns the
per-tick observations of both so that each property's harness can compare exactly
the projection its statement talks about.
"""
from engine import flogen, floref
from engine.flogen import FrameSpec, FramerSpec, Prog, LOG

START, RUN, STOP, ABORT = 1, 2, 0, 3


def forest(sym, n, prefix="par"):
    """parent array with parent[i] < i (canonical labelling); selectors"""
    parent = [-1]
    for i in range(1, n):
        parent.append(sym.choice("%s%d" % (prefix, i), i + 1) - 1)
    return parent


def chain(parent, a):
    """outline of frame a in a forest given by parent[] (primary child = lowest index child)"""
    up, f = [], a
    while f >= 0:
        up.append(f)
        f = parent[f]
    up.reverse()
    f = a
    n = len(parent)
    while True:
        kids = [k for k in range(n) if parent[k] == f]
        if not kids:
            break
        f = kids[0]
        up.append(f)
    return up


def aux_framer(name, tag, guard=True, frames=2):
    """aux framer: <tag>0 --(y_<name> >= 1)--> <tag>1 [done me]; first-frame guard h_<name> >= 1"""
    f0 = FrameSpec(tag + "0", None, [("h_" + name, ">=", 1)] if guard else None,
                   [("go", tag + "1", [("y_" + name, ">=", 1)])] if frames > 1 else [("done",)])
    fs = [f0]
    if frames == 2:
        fs.append(FrameSpec(tag + "1", None, None, [("done",)]))
    elif frames >= 3:   # done in a non-final frame, then a further transition (z_<name> >= 1)
        fs.append(FrameSpec(tag + "1", None, None, [("done",), ("go", tag + "2", [("z_" + name, ">=", 1)])]))
        fs.append(FrameSpec(tag + "2", None, None, []))
    return FramerSpec(name, "aux", tag + "0", fs)


QUICK_FORESTS = {3: [[-1, 0, 1], [-1, 0, 0], [-1, -1, 1]], 4: [[-1, 0, 1, 1], [-1, 0, 0, -1]]}


def all_forests(n):
    """every parent array with parent[i] in [-1, i-1]"""
    out = [[-1]]
    for i in range(1, n):
        out = [p + [q] for p in out for q in range(-1, i)]
    return out


def family(sym, n, ngo=1, auxes=(), guards=True, done_need=False, aux_frames=2, far_any=True,
           parent=None, first=None, near_in_cur=False, host_in_cur=False, force_same=False, cond_second_host=False):
    """Draw one program.  auxes: sequence of ('plain'|'cond') kinds; each gets its own aux framer
    a<k> attached to a symbolically chosen frame; with two plain auxes a selector may attach the
    SAME original to two frames.  Returns (prog, info)."""
    if parent is None:
        parent = forest(sym, n)
    if first is None:
        first = sym.choice("first", n)
    cur = chain(parent, first)
    frames = []
    for i in range(n):
        frames.append(FrameSpec("f%d" % i, ("f%d" % parent[i]) if parent[i] >= 0 else None,
                                [("g%d" % i, ">=", 1)] if guards else None, [("rec", "precur")]))
    shares = ["g%d" % i for i in range(n)] if guards else []
    framers = []
    info = dict(parent=parent, first=first, cur=cur, aux=[])
    same = False
    for k, kind in enumerate(auxes):
        name = "a%d" % k
        if kind == "plain" and k > 0 and auxes[k - 1] == "plain":
            same = True if force_same else sym.flag("sameorig%d" % k)
        host = cur[sym.choice("host%d" % k, len(cur))] if host_in_cur else sym.choice("host%d" % k, n)
        if same:
            name = "a%d" % (k - 1)
        else:
            framers.append(aux_framer(name, "pqrs"[k], frames=aux_frames))
            shares += ["h_" + name, "y_" + name] + (["z_" + name] if aux_frames >= 3 else [])
        if kind == "plain":
            frames[host].items.append(("aux", name))
        else:
            frames[host].items.append(("caux", name, [("c_" + name, ">=", 1)]))
            shares.append("c_" + name)
            if cond_second_host:     # the same conditional auxiliary named by a second frame
                h2 = sym.choice("host2_%d" % k, n)
                sym.assume(h2 != host)
                frames[h2].items.append(("caux", name, [("c_" + name, ">=", 1)]))
                info["host2"] = h2
        info["aux"].append((name, kind, host))
    for j in range(ngo):
        if near_in_cur and j == 0:
            near = cur[sym.choice("near%d" % j, len(cur))]
        else:
            near = sym.choice("near%d" % j, n)
        far = sym.choice("far%d" % j, n)
        cond = [("x%d" % j, ">=", 1)]
        if done_need and info["aux"]:
            which = done_need[sym.choice("dn%d" % j, len(done_need))] if isinstance(done_need, (list, tuple)) else sym.choice("dn%d" % j, 4)
            plain = [a for a in info["aux"] if a[1] == "plain"]
            if which == 1:
                cond.append(("@done", "any", "f%d" % near))
            elif which == 2:
                cond.append(("@done", "all", "f%d" % near))
            elif which == 3 and plain:
                cond.append(("@done", plain[0][0], "f%d" % plain[0][2]))
        frames[near].items.append(("go", "f%d" % far, cond))
        shares.append("x%d" % j)
        info.setdefault("gos", []).append((near, far))
    main = FramerSpec("m", "active", "f%d" % first, frames)
    prog = Prog([main] + framers, shares)
    return prog, info


class Obs:
    """observation of one send(): for real and reference"""
    __slots__ = ("control", "status", "log", "actives", "active", "clocks", "aux", "env")


def observe_real(house, main, prog):
    o = {}
    for fr in house.framers:
        o[fr.name] = dict(status=fr.status, actives=[f.name for f in fr.actives],
                          active=fr.active.name if fr.active else None,
                          elapsed=fr.elapsed, recurred=fr.recurred, done=bool(fr.done),
                          main=fr.main.name if fr.main else None, desire=fr.desire)
    return o


def observe_ref(world):
    o = {}
    for fr in world.framers.values():
        o[fr.name] = dict(status=fr.status, actives=[f.name for f in fr.actives],
                          active=fr.active.name if fr.active else None,
                          elapsed=fr.elapsed, recurred=fr.recurred, done=bool(fr.done),
                          main=fr.main.name if fr.main else None, desire=fr.desire)
    return o


def run(sym, prog, controls, lo=0, hi=1, dt=1, fixed=None, value_range=None, start_true=(), plan=None, on_assumed=None):
    """Build prog, drive framer 'm' with the given controls (one per tick), fresh symbolic share
    values in [lo,hi] each tick (names t<k>_<share>), stamp advancing by dt (int).  Yields per tick
    (control, real_log, ref_log, real_obs, ref_obs, env).  `fixed` maps share -> concrete value;
    shares in `start_true` are 1 at tick 0 (so the start itself succeeds).  `plan[k]` (optional) maps
    share -> concrete value for tick k ("*" = every other share): concrete prelude ticks construct
    a pre-state without forking; ticks without a plan entry are fully symbolic."""
    text = flogen.emit(prog)
    with flogen.notrace(sym):
        houses = flogen.build_text(text)
        house = houses[0]
        flogen.add_transit_recorders(house)
    store = house.store
    main = [f for f in house.framers if f.name == "m"][0]
    env = {}
    shares = {}
    for s in prog.shares:
        shares[s] = store.create(s)
    state = getattr(prog, "state", {})      # shares written by the program itself: name -> initial value
    for s, v in state.items():
        shares[s] = store.create(s)
        shares[s].value = v
        env[s] = v
    world = floref.World(prog, env)
    stamp = 0
    out = []
    for k, control in enumerate(controls):
        for s in prog.shares:
            pk = plan[k] if plan and k < len(plan) and plan[k] is not None else None
            if pk is not None and (s in pk or "*" in pk):
                v = pk[s] if s in pk else pk["*"]
            elif fixed and s in fixed:
                v = fixed[s]
            elif k == 0 and s in start_true:
                v = 1
            else:
                r = (value_range or {}).get(s, (lo, hi))
                v = sym.int("t%d_%s" % (k, s), r[0], r[1])
            shares[s].value = v
            env[s] = v
        store.stamp = stamp
        world.now = stamp
        del LOG[:]
        del world.log[:]
        del world.events[:]
        rstatus = main.runner.send(control)
        world.send(world.framers["m"], control)
        if world.assumed_away:
            if on_assumed is not None:   # direct checks on the real side before the path is dropped
                on_assumed(k, control, list(LOG), observe_real(house, main, prog), observe_ref(world))
            sym.assume(False)
        out.append((control, list(LOG), list(world.log), observe_real(house, main, prog), observe_ref(world), dict(env, __events__=list(world.events), __store__=dict((s, shares[s].value) for s in state))))
        stamp = stamp + dt
    return text, out
