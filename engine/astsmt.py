"""Engine E2 -- astsmt: Python-AST -> z3 translation with value merging and shape forking.

A small symbolic interpreter over the `ast` of functions *as found in the imported ioflo
module* (source re-read with `inspect` in every process; nothing is cached between runs).
It executes both sides of every symbolic branch and merges the values with `If`
("merge values"), and forks DART-style on conditions whose two sides would leave a
variable with a different *shape* (list length, scalar kind) -- `while n:` trip counts, a
list grown under a symbolic condition ("fork shapes").  One call therefore yields a small
set of `Path(assume, result)` pairs whose assumptions are checked to be exhaustive.

Python value        z3 sort
int (bit ops)       BitVec(w), signed; every `+ - * << -x` emits a no-overflow side condition
int (arithmetic)    Int
exact rational      Real  (`%`, `//` by a fresh integer quotient + defining inequalities)
float               FP(11,53), RNE, CPython semantics of < <= == != min max abs bool()

Anything outside the supported subset raises `Unsupported`; harnesses turn that into an
INCONCLUSIVE obligation (never a silent skip).  `Session` keeps one solver alive
(push/pop), times every check, applies the vacuity guards (premises satisfiable, a
deliberately wrong oracle refutable) and the side-condition check, and assembles the result
dict the runner expects for kind="e2" obligations.  `Session.validate` is the translator
validation step: the translated term is evaluated on concrete inputs (substitute +
simplify) and compared with calling the real function; a mismatch raises
`TranslationMismatch` (the runner reports HARNESS-ERROR, exit 3).
"""
import ast
import builtins
import inspect
import operator
import struct
import textwrap
import time
from fractions import Fraction

import z3

FP64 = z3.Float64()
RNE = z3.RNE()


class Unsupported(Exception):
    """construct outside the translated subset -> obligation inconclusive"""


class TranslationMismatch(Exception):
    """translator validation failed: z3 term and real function disagree on a concrete input"""


class PyRaise(Exception):
    """the translated code raises on a concrete (non-symbolic) path"""
    def __init__(self, exc):
        Exception.__init__(self, repr(exc))
        self.exc = exc


class _NeedFork(Exception):
    """internal: a shape difference under a symbolic condition; the enclosing `if` forks"""


class _Dead(Exception):
    """internal: the current branch is infeasible under the path assumptions (dead code)"""


class _Poison:
    def __repr__(self):
        return "<possibly-unbound>"


POISON = _Poison()


# --------------------------------------------------------------------------- values

def is_sym(v):
    return isinstance(v, z3.ExprRef)


def has_sym(v):
    if is_sym(v) or isinstance(v, (SymObj, SymStr)):
        return True
    if isinstance(v, (list, tuple)):
        return any(has_sym(x) for x in v)
    if isinstance(v, dict):
        return any(has_sym(x) for x in v.values())
    return False


def fp_val(c):
    c = float(c)
    if c != c:
        return z3.fpNaN(FP64)
    if c in (float("inf"), float("-inf")):
        return z3.fpPlusInfinity(FP64) if c > 0 else z3.fpMinusInfinity(FP64)
    n = int.from_bytes(struct.pack(">d", c), "big")
    return z3.simplify(z3.fpBVToFP(z3.BitVecVal(n, 64), FP64))


def exact_real(c):
    if isinstance(c, float):
        if c != c or c in (float("inf"), float("-inf")):
            raise Unsupported("non-finite float in exact arithmetic")
        c = Fraction(c)
    if isinstance(c, Fraction):
        return z3.RealVal(str(c))
    return z3.RealVal(int(c))


def to_py(v):
    """z3 value (after simplify) -> python value; lists/tuples recursively"""
    if isinstance(v, (list, tuple)):
        return type(v)(to_py(x) for x in v)
    if isinstance(v, SymStr):
        return "".join(chr(to_py(c) & 0xff) if not isinstance(c, str) else c for c in v.chars)
    if not is_sym(v):
        return v
    v = z3.simplify(v)
    if z3.is_true(v):
        return True
    if z3.is_false(v):
        return False
    if z3.is_bv_value(v):
        return v.as_signed_long()
    if z3.is_int_value(v):
        return v.as_long()
    if z3.is_rational_value(v):
        return Fraction(v.numerator_as_long(), v.denominator_as_long())
    if z3.is_algebraic_value(v):
        raise Unsupported("algebraic value")
    if z3.is_fp_value(v):
        if v.isNaN():
            return float("nan")
        if v.isInf():
            return float("-inf") if v.isNegative() else float("inf")
        bv = z3.simplify(z3.fpToIEEEBV(v))
        return struct.unpack(">d", bv.as_long().to_bytes(8, "big"))[0]
    raise Unsupported("not a value: %s" % v)


def to_z3(c, sort):
    """python value -> z3 value of the given sort"""
    if sort == z3.BoolSort():
        return z3.BoolVal(bool(c))
    if sort == z3.IntSort():
        return z3.IntVal(int(c))
    if sort == z3.RealSort():
        return exact_real(c)
    if sort == FP64:
        return fp_val(c)
    if isinstance(sort, z3.BitVecSortRef):
        return z3.BitVecVal(int(c), sort.size())
    raise Unsupported("sort %s" % sort)


def same_value(a, b):
    """python-level equality used by validation/replay: NaN equals NaN, types of bool vs int matter"""
    if isinstance(a, (list, tuple)) and isinstance(b, (list, tuple)):
        return len(a) == len(b) and all(same_value(x, y) for x, y in zip(a, b))
    if isinstance(a, float) and isinstance(b, float) and a != a and b != b:
        return True
    if isinstance(a, bool) != isinstance(b, bool):
        return False
    return a == b


class SymObj:
    """attribute-chain-as-variable: `self.parm.data.ovmax` is one symbolic input,
    `self.es.value = v` one recorded output.  `factory(path)` supplies the initial value of
    an attribute on first read (a z3 constant, a concrete value or another SymObj);
    functions found on `cls` are returned as bound methods and inlined."""
    def __init__(self, path, factory, cls=None):
        self.path = path
        self.factory = factory
        self.cls = cls
        self.attrs = {}
        self.written = {}

    def get(self, name):
        if name in self.attrs:
            return self.attrs[name]
        if self.cls is not None:
            for k in self.cls.__mro__:
                if name in k.__dict__ and inspect.isfunction(k.__dict__[name]):
                    return BoundMethod(k.__dict__[name], self)
        v = self.factory(self.path + "." + name)
        self.attrs[name] = v
        return v

    def set(self, name, v):
        self.attrs[name] = v
        self.written[name] = v


class BoundMethod:
    def __init__(self, fn, obj):
        self.fn = fn
        self.obj = obj


class SuperProxy:
    def __init__(self, cls, obj):
        self.cls = cls
        self.obj = obj


class SymStr:
    """a string whose characters are code points: concrete 1-char strs or BitVec(8) terms"""
    def __init__(self, chars):
        self.chars = list(chars)

    def __len__(self):
        return len(self.chars)

    @staticmethod
    def of(v):
        if isinstance(v, SymStr):
            return v
        if isinstance(v, str):
            return SymStr(list(v))
        raise Unsupported("not a string: %r" % (v,))

    def items(self):
        """iteration yields 1-character strings"""
        return [c if isinstance(c, str) else SymStr([c]) for c in self.chars]

    def code(self, i):
        c = self.chars[i]
        return z3.BitVecVal(ord(c), 8) if isinstance(c, str) else c


def sym_char_eq(a, b):
    if isinstance(a, str) and isinstance(b, str):
        return a == b
    a = z3.BitVecVal(ord(a), 8) if isinstance(a, str) else a
    b = z3.BitVecVal(ord(b), 8) if isinstance(b, str) else b
    return a == b


def shallow(t, depth, memo=None):
    """copy of term t in which every proper sub-term below `depth` is replaced by a fresh constant
    (one per distinct sub-term).  A generalisation of t: if it simplifies to true/false so does t."""
    memo = {} if memo is None else memo
    if t.num_args() == 0:
        return t
    if depth <= 0:
        k = ("abs", t.get_id())
        if k not in memo:
            memo[k] = z3.Const("abs!%d" % t.get_id(), t.sort())
        return memo[k]
    k = (t.get_id(), depth)
    if k not in memo:
        memo[k] = t.decl()(*[shallow(c, depth - 1, memo) for c in t.children()])
    return memo[k]


_CONST_CACHE = {}


def _small(t, limit):
    """True if the DAG of t has at most `limit` nodes (bounded traversal)"""
    seen = set()
    todo = [t]
    while todo:
        x = todo.pop()
        i = x.get_id()
        if i in seen:
            continue
        seen.add(i)
        if len(seen) > limit:
            return False
        todo.extend(x.children())
    return True


def const_of(c, depth=7):
    """True / False if the z3 Bool `c` is decided by a bounded simplification, else None.
    Small terms are simplified as they are; of larger ones only the top `depth` levels are kept
    (z3.simplify on the full, deeply nested term costs time quadratic in the unrolling depth:
    measured 186 s for crc64 on 9 bytes).  Results are cached per hash-consed term."""
    key = (c.get_id(), depth)
    hit = _CONST_CACHE.get(key)
    if hit is not None and hit[0].eq(c):
        return hit[1]
    try:
        r = z3.simplify(c if _small(c, 48) else shallow(c, depth))
    except z3.Z3Exception:
        r = None
    out = True if (r is not None and z3.is_true(r)) else (False if (r is not None and z3.is_false(r)) else None)
    if len(_CONST_CACHE) > 200000:
        _CONST_CACHE.clear()
    _CONST_CACHE[key] = (c, out)
    return out


# --------------------------------------------------------------------------- parsing (per process)

_AST_CACHE = {}   # per-process only: every run re-reads the source of the imported module


def fn_ast(fn):
    """FunctionDef of `fn`, re-read from the imported module's source (once per process)"""
    key = fn
    if key not in _AST_CACHE:
        try:
            src = textwrap.dedent(inspect.getsource(fn))
        except (OSError, TypeError) as e:
            raise Unsupported("no source for %r: %s" % (fn, e))
        node = ast.parse(src).body[0]
        if not isinstance(node, ast.FunctionDef):
            raise Unsupported("not a function definition: %r" % (fn,))
        _AST_CACHE[key] = node
    return _AST_CACHE[key]


# --------------------------------------------------------------------------- interpreter

class Interp:
    """One symbolic execution (one shape path).

    num: how two *concrete* numbers are lifted when they must be merged under a symbolic
         condition: 'bv' (width bvw), 'int', 'real' or 'fp'.
    intrinsics: {callable: handler(interp, args, kwargs)} models / havocs of callees.
    binop_hook(interp, op, a, b, node) -> value or None : arithmetic havoc hook.
    """
    def __init__(self, num="int", bvw=32, max_unroll=64, intrinsics=None, binop_hook=None,
                 solver=None, script=None, int_truediv_fp=False):
        self.int_truediv_fp = int_truediv_fp   # 'bv' domain: int / int yields an FP(11,53) term (IEEE, like CPython)
        self.num = num
        self.bvw = bvw
        self.max_unroll = max_unroll
        self.intrinsics = dict(intrinsics or {})
        self.binop_hook = binop_hook
        self.solver = solver
        self.script = script if script is not None else []   # DART decisions: [value, done]
        self.pos = 0
        self.assume = []      # fork decisions taken on this path
        self.defs = []        # definitional constraints (fresh floor quotients)
        self.side = []        # (label, cond): must hold (no overflow, no raise, unwinding)
        self.notes = []       # modelling notes (e.g. TypeError handler not reachable)
        self.cur = True       # current path condition (incl. "not yet returned")
        self.nstores = 0
        self.float_ops = 0    # int / int and float(int) met in an exact (Int/Real) domain: IEEE behaviour not modelled there
        self.memo = {}
        self.solver_checks = 0
        self.solver_time = 0.0
        self.depth = 0

    # ---- concrete/symbolic helpers

    def lift(self, c, like=None):
        """python scalar -> z3 term, of the sort of `like` if given, else by self.num"""
        if is_sym(c):
            return c
        if like is not None:
            if z3.is_bv(like):
                if isinstance(c, float):
                    raise Unsupported("float meets bit-vector")
                c = int(c)
                w = like.size()
                if not (-(1 << (w - 1)) <= c < (1 << (w - 1))):
                    raise Unsupported("constant %d does not fit signed %d bits" % (c, w))
                return z3.BitVecVal(c, w)
            if z3.is_fp(like):
                if isinstance(c, int) and not isinstance(c, bool) and abs(c) > 2 ** 53:
                    raise Unsupported("int constant not exactly a float")
                return fp_val(c)
            if z3.is_real(like):
                return exact_real(c)
            if z3.is_int(like):
                if isinstance(c, float) and not c.is_integer():
                    return exact_real(c)
                if isinstance(c, Fraction) and c.denominator != 1:
                    return exact_real(c)
                return z3.IntVal(int(c))
            if z3.is_bool(like):
                if isinstance(c, bool):
                    return z3.BoolVal(c)
                raise Unsupported("number meets Bool")
        if isinstance(c, bool):
            return z3.BoolVal(c)
        if isinstance(c, float):
            if self.num == "fp":
                return fp_val(c)
            return exact_real(c)
        if isinstance(c, Fraction):
            return exact_real(c)
        if isinstance(c, int):
            if self.num == "bv":
                return self.lift(c, z3.BitVec("_", self.bvw))
            if self.num == "real":
                return z3.RealVal(c)
            if self.num == "fp":
                return self.lift(c, z3.FP("_", FP64))
            return z3.IntVal(c)
        raise Unsupported("cannot lift %r" % (c,))

    def coerce2(self, a, b):
        if is_sym(a) and not is_sym(b):
            if z3.is_bv(a) and isinstance(b, float) and self.int_truediv_fp:
                return self.int_to_fp(a), fp_val(b)
            if z3.is_bool(a) and not isinstance(b, bool):
                a = self.bool_to_num(a)
            if z3.is_int(a) and ((isinstance(b, float) and not b.is_integer()) or
                                 (isinstance(b, Fraction) and b.denominator != 1)):
                a = z3.ToReal(a)
            return a, self.lift(b, a)
        if is_sym(b) and not is_sym(a):
            y, x = self.coerce2(b, a)
            return x, y
        if not is_sym(a) and not is_sym(b):
            if isinstance(a, bool) and isinstance(b, bool):
                return z3.BoolVal(a), z3.BoolVal(b)
            if isinstance(a, float) or isinstance(b, float) or isinstance(a, Fraction) or isinstance(b, Fraction):
                if self.num == "fp":
                    return fp_val(a), fp_val(b)
                return exact_real(a), exact_real(b)
            return self.lift(int(a)), self.lift(int(b))
        if z3.is_bool(a) and not z3.is_bool(b):
            a = self.bool_to_num(a, b)
        if z3.is_bool(b) and not z3.is_bool(a):
            b = self.bool_to_num(b, a)
        if z3.is_fp(a) and z3.is_bv(b) and self.int_truediv_fp:
            return a, self.int_to_fp(b)        # float (op) int: the int converts exactly (<= 53 bits)
        if z3.is_bv(a) and z3.is_fp(b) and self.int_truediv_fp:
            return self.int_to_fp(a), b
        if z3.is_bv(a) and z3.is_bv(b) and a.size() != b.size():
            n = max(a.size(), b.size())
            a = z3.SignExt(n - a.size(), a) if a.size() < n else a
            b = z3.SignExt(n - b.size(), b) if b.size() < n else b
            return a, b
        if z3.is_int(a) and z3.is_real(b):
            return z3.ToReal(a), b
        if z3.is_real(a) and z3.is_int(b):
            return a, z3.ToReal(b)
        if a.sort() != b.sort():
            raise Unsupported("sorts %s / %s" % (a.sort(), b.sort()))
        return a, b

    def int_to_fp(self, x):
        """exact conversion of a (signed) bit-vector integer of at most 53 bits to a double"""
        if x.size() > 53:
            raise Unsupported("int -> float conversion of a %d-bit integer is not exact" % x.size())
        return z3.fpSignedToFP(RNE, x, FP64)

    def bool_to_num(self, b, like=None):
        one, zero = (self.lift(1, like), self.lift(0, like)) if like is not None else (self.lift(1), self.lift(0))
        return z3.If(b, one, zero)

    def truth(self, v):
        """python truthiness -> python bool or z3 Bool"""
        if is_sym(v):
            if z3.is_bool(v):
                return v
            if z3.is_fp(v):
                return z3.Not(z3.fpIsZero(v))
            if z3.is_bv(v) or z3.is_int(v) or z3.is_real(v):
                return v != 0
            raise Unsupported("truth of %s" % v.sort())
        if isinstance(v, SymStr):
            return len(v) > 0
        if isinstance(v, (SymObj, BoundMethod)):
            return True
        if v is POISON:
            raise Unsupported("read of a possibly unbound name")
        return bool(v)

    @staticmethod
    def land(a, b):
        if a is False or b is False:
            return False
        if a is True:
            return b
        if b is True:
            return a
        return z3.And(a, b)

    @staticmethod
    def lor(a, b):
        if a is True or b is True:
            return True
        if a is False:
            return b
        if b is False:
            return a
        return z3.Or(a, b)

    @staticmethod
    def lnot(a):
        if a is True:
            return False
        if a is False:
            return True
        return z3.Not(a)

    def ite(self, c, a, b):
        """merge two python-level values under condition c (shape differences -> _NeedFork)"""
        if not is_sym(c):
            return a if c else b
        if a is b:
            return a
        if a is POISON or b is POISON:
            return POISON
        if isinstance(a, (list, tuple)) or isinstance(b, (list, tuple)):
            if type(a) is not type(b) or len(a) != len(b):
                raise _NeedFork("merge of different shapes")
            return type(a)(self.ite(c, x, y) for x, y in zip(a, b))
        if isinstance(a, SymStr) or isinstance(b, SymStr) or isinstance(a, str) or isinstance(b, str):
            if isinstance(a, str) and isinstance(b, str) and a == b:
                return a
            if not isinstance(a, (str, SymStr)) or not isinstance(b, (str, SymStr)):
                raise _NeedFork("merge of string and non-string")
            sa, sb = SymStr.of(a), SymStr.of(b)
            if len(sa) != len(sb):
                raise _NeedFork("merge of strings of different length")
            return SymStr([x if (isinstance(x, str) and isinstance(y, str) and x == y)
                           else z3.If(c, sa.code(i), sb.code(i))
                           for i, (x, y) in enumerate(zip(sa.chars, sb.chars))])
        if not is_sym(a) and not is_sym(b):
            if type(a) is type(b) and a == b and not (isinstance(a, float) and a != a):
                return a
            if a is None or b is None:
                raise _NeedFork("merge with None")
            if not isinstance(a, (bool, int, float, Fraction)) or not isinstance(b, (bool, int, float, Fraction)):
                raise _NeedFork("merge of %s and %s" % (type(a).__name__, type(b).__name__))
        elif a is None or b is None or isinstance(a, (SymObj, BoundMethod)) or isinstance(b, (SymObj, BoundMethod)):
            raise _NeedFork("merge of scalar and object")
        elif (not is_sym(a) and not isinstance(a, (bool, int, float, Fraction))) or \
                (not is_sym(b) and not isinstance(b, (bool, int, float, Fraction))):
            raise _NeedFork("merge of scalar and %s" % type(a if is_sym(b) else b).__name__)
        sa, sb = self.coerce2(a, b)
        return z3.If(c, sa, sb)

    # ---- DART decisions

    def _check(self, *extra):
        t = time.time()
        self.solver.push()
        try:
            self.solver.add(*self.assume)
            self.solver.add(*self.defs)
            self.solver.add(*extra)
            r = str(self.solver.check())
        finally:
            self.solver.pop()
        self.solver_checks += 1
        self.solver_time += time.time() - t
        return r

    def dead_check(self):
        """raise _Dead if the current (conditional) branch cannot be reached under the decisions so far"""
        if self.solver is not None and is_sym(self.cur) and self._check(self.cur) == "unsat":
            raise _Dead()

    def need_fork(self, why):
        self.dead_check()
        raise _NeedFork(why)

    def decide(self, c):
        """fork point: returns a concrete bool for condition c; each alternative is checked
        for feasibility under the decisions taken so far before it is scheduled"""
        if not is_sym(c):
            return bool(c)
        k = const_of(c)
        if k is not None:
            return k
        if self.cur is not True:
            self.dead_check()
        if self.pos < len(self.script):
            v = self.script[self.pos][0]
        else:
            if self.solver is None:
                raise Unsupported("shape fork needs a solver")
            rt, rf = self._check(c), self._check(z3.Not(c))
            if "unknown" in (rt, rf):
                raise Unsupported("feasibility of a shape fork is unknown")
            if rt == "sat" and rf == "sat":
                v = True
                self.script.append([True, False])
            elif rt == "sat":
                v = True
                self.script.append([True, True])
            elif rf == "sat":
                v = False
                self.script.append([False, True])
            else:
                raise Unsupported("infeasible path prefix")
        self.pos += 1
        self.assume.append(c if v else z3.Not(c))
        return v

    # ---- calls

    @staticmethod
    def _memo_key(v):
        """hashable key of an immutable argument value, or None if the value is (or holds) a mutable model"""
        if is_sym(v):
            return ("z", v.get_id())
        if isinstance(v, tuple):
            ks = tuple(Interp._memo_key(x) for x in v)
            return None if any(k is None for k in ks) else ("t", ks)
        if v is None or isinstance(v, (bool, int, float, str, Fraction)):
            return (type(v).__name__, v)
        return None

    def call(self, fn, args=(), kwargs=None):
        """inline-translate python function `fn` on (possibly symbolic) arguments.  Calls whose
        arguments are immutable values and which add no side condition / definition / decision /
        store are memoised within this interpreter (pure sub-terms such as tween2(p, u, v) recur in
        every predicate of a polygon)."""
        if isinstance(fn, BoundMethod):
            return self.call(fn.fn, [fn.obj] + list(args), kwargs)
        key = None
        if self.memo is not None:
            ks = [self._memo_key(a) for a in args] + [(k, self._memo_key(v)) for k, v in sorted((kwargs or {}).items())]
            if not any(k is None or (isinstance(k, tuple) and len(k) == 2 and k[1] is None) for k in ks):
                key = (fn, tuple(ks))
                hit = self.memo.get(key)
                if hit is not None:
                    return hit[0]
        mark = (len(self.side), len(self.defs), self.nstores, self.pos, len(self.assume))
        res = self._call(fn, args, kwargs)
        if key is not None and mark == (len(self.side), len(self.defs), self.nstores, self.pos, len(self.assume)) \
                and self._memo_key(res) is not None:
            self.memo[key] = (res, list(args), kwargs)      # args kept alive: z3 ids stay valid
        return res

    def _call(self, fn, args=(), kwargs=None):
        fdef = fn_ast(fn)
        kwargs = dict(kwargs or {})
        a = fdef.args
        if a.vararg or a.kwonlyargs or getattr(a, "posonlyargs", None):
            raise Unsupported("signature of %s" % fdef.name)
        params = [x.arg for x in a.args]
        if len(args) > len(params):
            raise Unsupported("too many positional arguments for %s" % fdef.name)
        env = {}
        g = fn.__globals__
        for i, p in enumerate(params):
            if i < len(args):
                env[p] = args[i]
            elif p in kwargs:
                env[p] = kwargs.pop(p)
            else:
                k = i - (len(params) - len(a.defaults))
                if k < 0:
                    raise PyRaise(TypeError("missing argument %s of %s" % (p, fdef.name)))
                env[p] = self.eval(a.defaults[k], {}, g)
                if isinstance(env[p], (list, dict)):   # mutable default: fresh model copy
                    env[p] = type(env[p])(env[p])
        if a.kwarg:
            env[a.kwarg.arg] = kwargs
        elif kwargs:
            raise PyRaise(TypeError("unexpected keyword %s for %s" % (sorted(kwargs), fdef.name)))
        self.depth += 1
        if self.depth > 40:
            raise Unsupported("call depth")
        outer = self.cur
        st = {"env": env, "ret": None, "retc": False, "g": g, "fn": fn, "base": outer}
        try:
            self.block(fdef.body, st, True)
        finally:
            self.cur = outer
            self.depth -= 1
        return st["ret"]

    def exec_block(self, stmts, env, g, fn=None):
        """execute a statement list in a given environment (used for loop-body dissection);
        returns the state dict (env, ret, retc)"""
        st = {"env": env, "ret": None, "retc": False, "g": g, "fn": fn, "base": True}
        self.block(stmts, st, True)
        return st

    # ---- statements

    def live(self, st, pc):
        """condition under which the next statement executes: branch condition, not yet returned, and
        (inside a loop) neither broken out of the loop nor continued past the rest of this iteration"""
        c = self.land(pc, self.lnot(st["retc"]))
        c = self.land(c, self.lnot(st.get("brk", False)))
        return self.land(c, self.lnot(st.get("cont", False)))

    def block(self, stmts, st, pc):
        for s in stmts:
            live = self.live(st, pc)
            if live is False:
                return
            self.cur = self.land(st["base"], live)
            self.stmt(s, st, pc)

    def stmt(self, s, st, pc):
        env, g = st["env"], st["g"]
        if isinstance(s, ast.Expr):
            if isinstance(s.value, ast.Constant):
                return
            self.eval(s.value, env, g)
            return
        if isinstance(s, ast.Assign):
            v = self.eval(s.value, env, g)
            for t in s.targets:
                self.assign_target(t, v, st)
            return
        if isinstance(s, ast.AugAssign):
            cur = self.eval(s.target, env, g)
            if isinstance(cur, list) and isinstance(s.op, ast.Add):
                raise Unsupported("in-place list +=")
            v = self.binop(s.op, cur, self.eval(s.value, env, g), s)
            self.assign_target(s.target, v, st)
            return
        if isinstance(s, ast.If):
            c = self.truth(self.eval(s.test, env, g))
            if is_sym(c):
                k = const_of(c)
                c = c if k is None else k
            if not is_sym(c):
                self.block(s.body if c else s.orelse, st, pc)
                return
            self.stmt_if_sym(s, c, st, pc)
            return
        if isinstance(s, ast.Return):
            v = self.eval(s.value, env, g) if s.value is not None else None
            live = self.live(st, pc)
            if st["retc"] is False:
                st["ret"] = v
            else:
                st["ret"] = self.ite(live, v, st["ret"])
            st["retc"] = self.lor(st["retc"], live)
            if is_sym(st["retc"]) and const_of(st["retc"], 3) is True:
                st["retc"] = True
            return
        if isinstance(s, ast.For):
            it = self.eval(s.iter, env, g)
            if is_sym(it):
                raise Unsupported("symbolic iterable")
            if isinstance(it, SymStr):
                it = it.items()
            if s.orelse:
                raise Unsupported("for-else")
            n = 0
            outer = (st.get("brk", False), st.get("cont", False), st.get("inloop", False))
            if outer[0] is not False or outer[1] is not False:
                raise Unsupported("nested loop after a symbolic break/continue")
            st["inloop"] = True
            try:
                for x in list(it):
                    st["cont"] = False
                    live = self.live(st, pc)
                    if live is False:
                        break
                    n += 1
                    if n > 4096:
                        raise Unsupported("for loop longer than 4096")
                    self.cur = self.land(st["base"], live)
                    self.assign_target(s.target, x, st)
                    self.block(s.body, st, pc)
            finally:
                st["brk"], st["cont"], st["inloop"] = outer
            return
        if isinstance(s, (ast.Break, ast.Continue)):
            if not st.get("inloop"):
                raise Unsupported("break/continue outside a translated loop")
            k = "brk" if isinstance(s, ast.Break) else "cont"
            st[k] = self.lor(st.get(k, False), self.live(st, pc))
            return
        if isinstance(s, ast.While):
            if s.orelse:
                raise Unsupported("while-else")
            outer = (st.get("brk", False), st.get("cont", False), st.get("inloop", False))
            if outer[0] is not False or outer[1] is not False:
                raise Unsupported("nested loop after a symbolic break/continue")
            st["inloop"] = True
            try:
                for k in range(self.max_unroll + 1):
                    st["cont"] = False
                    c = self.truth(self.eval(s.test, env, g))
                    if is_sym(c) and (pc is not True or st["retc"] is not False or st["base"] is not True):
                        raise _NeedFork("while under a symbolic condition")
                    if not self.decide(c):
                        return
                    if k == self.max_unroll:
                        raise Unsupported("unwind bound %d hit" % self.max_unroll)
                    self.block(s.body, st, pc)
                    if is_sym(st.get("brk", False)) or is_sym(st.get("cont", False)):
                        raise Unsupported("symbolic break/continue in a while loop")
                    if st["retc"] is True or st.get("brk", False) is True:
                        return
            finally:
                st["brk"], st["cont"], st["inloop"] = outer
            return
        if isinstance(s, ast.Pass):
            return
        if isinstance(s, ast.Try):
            self.stmt_try(s, st, pc)
            return
        if isinstance(s, ast.Raise):
            live = self.live(st, pc)
            full = self.land(st["base"], live)
            if full is True:
                exc = self.eval(s.exc, env, g) if s.exc is not None else RuntimeError("re-raise")
                raise PyRaise(exc if isinstance(exc, BaseException) else exc())
            self.side.append(("raise at line %d of %s" % (s.lineno, getattr(st.get("fn"), "__name__", "?")),
                              z3.Not(full)))
            st["retc"] = self.lor(st["retc"], live)
            return
        if isinstance(s, (ast.Import, ast.ImportFrom, ast.Global)):
            raise Unsupported(type(s).__name__)
        raise Unsupported("statement " + type(s).__name__)

    def stmt_if_sym(self, s, c, st, pc):
        env = st["env"]
        snap = (st["ret"], st["retc"], self.nstores, len(self.side), len(self.defs), st.get("brk", False), st.get("cont", False))

        def restore(e):
            if self.nstores != snap[2]:
                raise Unsupported("branch abandoned after an attribute store (%s)" % (e,))
            st["ret"], st["retc"] = snap[0], snap[1]
            st["brk"], st["cont"] = snap[5], snap[6]
            del self.side[snap[3]:]

        try:
            try:
                sa = dict(st, env=dict(env))
                self.block(s.body, sa, self.land(pc, c))
            except _Dead:               # the body is dead code on this path: the statement is its else part
                restore("dead branch")
                self.block(s.orelse, st, pc)
                return
            try:
                sb = dict(st, env=dict(env), ret=sa["ret"], retc=sa["retc"], brk=sa.get("brk", False), cont=sa.get("cont", False))
                self.block(s.orelse, sb, self.land(pc, z3.Not(c)))
            except _Dead:
                restore("dead branch")
                self.block(s.body, st, pc)
                return
            merged = {}
            for name in list(sa["env"].keys()) + [k for k in sb["env"] if k not in sa["env"]]:
                va, vb = sa["env"].get(name, POISON), sb["env"].get(name, POISON)
                merged[name] = va if va is vb else self.ite(c, va, vb)
            st["ret"], st["retc"] = sb["ret"], sb["retc"]
            st["brk"], st["cont"] = sb.get("brk", False), sb.get("cont", False)
            env.clear()
            env.update(merged)
        except _NeedFork as e:
            if pc is not True or snap[1] is not False or st["base"] is not True:
                raise
            restore(e)
            self.cur = True
            v = self.decide(c)
            self.block(s.body if v else s.orelse, st, pc)

    def stmt_try(self, s, st, pc):
        if s.finalbody or s.orelse:
            raise Unsupported("try/finally or try/else")
        names = []
        for h in s.handlers:
            if h.name is not None or not isinstance(h.type, ast.Name):
                raise Unsupported("except clause form")
            names.append(h.type.id)
        try:
            self.block(s.body, st, pc)
        except PyRaise as e:
            for h in s.handlers:
                if type(e.exc).__name__ == h.type.id or h.type.id in [k.__name__ for k in type(e.exc).__mro__]:
                    self.block(h.body, st, pc)
                    return
            raise
        else:
            # numeric z3 sorts cannot raise TypeError/ValueError in the operations we translate;
            # concrete sub-expressions that raise were routed to the handler above
            self.notes.append("handlers %s not reachable for numeric operands" % names)

    def assign_target(self, t, v, st):
        env = st["env"]
        if isinstance(t, ast.Name):
            skip = self.lor(st.get("brk", False), st.get("cont", False))
            if is_sym(skip):     # after a conditional break/continue the old value survives on the skipped paths
                v = self.ite(z3.Not(skip), v, env.get(t.id, POISON))
            env[t.id] = v
            return
        if isinstance(t, (ast.Tuple, ast.List)):
            if is_sym(v) or isinstance(v, SymObj):
                raise Unsupported("unpacking a scalar")
            vals = v.items() if isinstance(v, SymStr) else list(v)
            if len(vals) != len(t.elts):
                raise PyRaise(ValueError("unpack %d into %d" % (len(vals), len(t.elts))))
            for tt, vv in zip(t.elts, vals):
                self.assign_target(tt, vv, st)
            return
        if isinstance(t, ast.Attribute):
            obj = self.eval(t.value, env, st["g"])
            if not isinstance(obj, SymObj):
                raise Unsupported("attribute store on %s" % type(obj).__name__)
            if self.cur is True:
                obj.set(t.attr, v)
            else:
                obj.set(t.attr, self.ite(self.cur, v, obj.get(t.attr)))
            self.nstores += 1
            return
        if isinstance(t, ast.Subscript):
            obj = self.eval(t.value, env, st["g"])
            if not isinstance(obj, list):
                raise Unsupported("subscript store on %s" % type(obj).__name__)
            if self.cur is not True:
                self.need_fork("list store under a symbolic condition")
            if isinstance(t.slice, ast.Slice):
                sl = self.eval_slice(t.slice, env, st["g"])
                if is_sym(v) or not isinstance(v, (list, tuple, bytes, bytearray)):
                    raise Unsupported("slice store of a scalar")
                obj[sl] = list(v)
            else:
                i = self.eval(t.slice, env, st["g"])
                if is_sym(i):
                    raise Unsupported("symbolic index store")
                obj[i] = v
            return
        raise Unsupported("assignment target " + type(t).__name__)

    # ---- expressions

    def arith_fp(self, t, a, b):
        if t is ast.Add:
            return z3.fpAdd(RNE, a, b)
        if t is ast.Sub:
            return z3.fpSub(RNE, a, b)
        if t is ast.Mult:
            return z3.fpMul(RNE, a, b)
        if t is ast.Div:
            self.side.append(("float division by zero", self.implies_cur(z3.Not(z3.fpIsZero(b)))))
            return z3.fpDiv(RNE, a, b)
        raise Unsupported("float operator %s" % t.__name__)

    def implies_cur(self, c):
        return c if self.cur is True else z3.Implies(self.cur, c)

    def add_side(self, label, c):
        if const_of(c) is True:
            return
        self.side.append((label, self.implies_cur(c)))

    def floor_quot(self, a, b, label):
        """fresh integer quotient q with 0 <= a-bq < b (b>0) / b < a-bq <= 0 (b<0): python floor semantics"""
        q = z3.FreshInt("q")
        if z3.is_int(a) and z3.is_int(b):
            r = a - b * q
        else:
            a = z3.ToReal(a) if z3.is_int(a) else a
            b = z3.ToReal(b) if z3.is_int(b) else b
            r = a - b * z3.ToReal(q)
        bz = const_of(b == 0)
        if bz is True:
            raise PyRaise(ZeroDivisionError(label))
        if bz is None:
            self.add_side("division by zero", b != 0)
        pos = const_of(b > 0)
        if pos is True:
            self.defs.append(z3.And(r >= 0, r < b))
        elif pos is False:
            self.defs.append(z3.And(r <= 0, r > b))
        else:
            self.defs.append(z3.If(b > 0, z3.And(r >= 0, r < b), z3.And(r <= 0, r > b)))
        return q, r

    _CONC = {ast.Add: operator.add, ast.Sub: operator.sub, ast.Mult: operator.mul, ast.BitAnd: operator.and_,
             ast.BitOr: operator.or_, ast.BitXor: operator.xor, ast.LShift: operator.lshift,
             ast.RShift: operator.rshift, ast.Mod: operator.mod, ast.FloorDiv: operator.floordiv,
             ast.Pow: operator.pow, ast.Div: operator.truediv}

    def binop(self, op, a, b, node=None):
        t = type(op)
        if a is POISON or b is POISON:
            raise Unsupported("read of a possibly unbound name")
        if self.binop_hook is not None:
            r = self.binop_hook(self, op, a, b, node)
            if r is not None:
                return r
        if isinstance(a, (SymStr, str)) and isinstance(b, (SymStr, str)) and (isinstance(a, SymStr) or isinstance(b, SymStr)):
            if t is ast.Add:
                return SymStr(SymStr.of(a).chars + SymStr.of(b).chars)
            raise Unsupported("string operator")
        if t is ast.Add and (isinstance(a, list) or isinstance(b, list)) and \
                isinstance(a, (list, bytes, bytearray)) and isinstance(b, (list, bytes, bytearray)):
            return list(a) + list(b)          # bytes / bytearray model + bytes
        if not is_sym(a) and not is_sym(b):
            if t not in self._CONC:
                raise Unsupported("operator " + t.__name__)
            try:
                return self._CONC[t](a, b)
            except Exception as e:       # concrete python raise (TypeError for str - int, ...)
                raise PyRaise(e)
        if isinstance(a, (list, tuple)) or isinstance(b, (list, tuple)):
            raise Unsupported("sequence operator with a symbolic operand")
        if t in (ast.LShift, ast.RShift) and not is_sym(b) and isinstance(b, int) and b < 0:
            if self.cur is True:
                raise PyRaise(ValueError("negative shift count"))
            self.side.append(("negative shift count (ValueError)", z3.Not(self.cur)))
            b = 0
        a, b = self.coerce2(a, b)
        if z3.is_bool(a):
            a, b = self.bool_to_num(a), self.bool_to_num(b)
        if z3.is_fp(a):
            return self.arith_fp(t, a, b)
        if z3.is_bv(a):
            if t is ast.BitAnd:
                return a & b
            if t is ast.BitOr:
                return a | b
            if t is ast.BitXor:
                return a ^ b
            if t is ast.RShift:
                self.add_side("shift count", z3.And(b >= 0, z3.ULT(b, a.size())))
                return a >> b            # arithmetic, like python on negative ints
            if t is ast.LShift:
                r = a << b
                bb = z3.simplify(b)
                if z3.is_bv_value(bb) and 0 <= bb.as_signed_long() < a.size() - 1:
                    # no overflow iff the top k+1 bits are a sign extension (cheap, mostly decided by simplify)
                    k = bb.as_signed_long()
                    top = z3.Extract(a.size() - 1, a.size() - 1 - k, a)
                    self.add_side("bit-vector width (<<)", z3.Or(top == 0, top == -1))
                else:
                    self.add_side("bit-vector width (<<)", z3.And(b >= 0, z3.ULT(b, a.size()), (r >> b) == a))
                return r
            if t is ast.Add:
                self.add_side("bit-vector width (+)", z3.And(z3.BVAddNoOverflow(a, b, True), z3.BVAddNoUnderflow(a, b)))
                return a + b
            if t is ast.Sub:
                self.add_side("bit-vector width (-)", z3.And(z3.BVSubNoOverflow(a, b), z3.BVSubNoUnderflow(a, b, True)))
                return a - b
            if t is ast.Mult:
                self.add_side("bit-vector width (*)", z3.And(z3.BVMulNoOverflow(a, b, True), z3.BVMulNoUnderflow(a, b)))
                return a * b
            if t is ast.Div and self.int_truediv_fp:
                # python's int / int is the correctly rounded exact quotient.  For operands of <= 53 bits that is
                # fpDiv of the exact conversions.  A wider dividend is admitted only over a concrete power of two:
                # the division is then an exact scaling, so round-to-nearest of the dividend gives the same result.
                self.add_side("division by zero (ZeroDivisionError)", b != 0)
                bb = z3.simplify(b)
                if a.size() > 53:
                    if not (z3.is_bv_value(bb) and bb.as_signed_long() > 0 and bb.as_signed_long() & (bb.as_signed_long() - 1) == 0):
                        raise Unsupported("true division of a %d-bit integer by a non power of two" % a.size())
                    return z3.fpDiv(RNE, z3.fpSignedToFP(RNE, a, FP64), fp_val(float(bb.as_signed_long())))
                return z3.fpDiv(RNE, self.int_to_fp(a), self.int_to_fp(b))
            if t in (ast.Mod, ast.FloorDiv):
                bb = z3.simplify(b)
                if not (z3.is_bv_value(bb) and bb.as_signed_long() > 0):
                    raise Unsupported("bit-vector %s by a symbolic or non-positive divisor" % t.__name__)
                r = z3.SRem(a, b)
                mod = z3.If(r < 0, r + b, r)          # python floor semantics for a positive divisor
                if t is ast.Mod:
                    return mod
                return (a - mod) / b                   # exact signed division
            raise Unsupported("bit-vector operator " + t.__name__)
        if t is ast.Add:
            return a + b
        if t is ast.Sub:
            return a - b
        if t is ast.Mult:
            return a * b
        if t is ast.Mod:
            return self.floor_quot(a, b, "modulo")[1]
        if t is ast.FloorDiv:
            q = self.floor_quot(a, b, "floor division")[0]
            return q if (z3.is_int(a) and z3.is_int(b)) else z3.ToReal(q)
        if t is ast.Div:
            if z3.is_int(a) and z3.is_int(b):
                self.float_ops += 1      # python computes an IEEE double here; the exact quotient is only a model
            a = z3.ToReal(a) if z3.is_int(a) else a
            b = z3.ToReal(b) if z3.is_int(b) else b
            self.add_side("division by zero", b != 0)
            return a / b
        raise Unsupported("operator %s on %s" % (t.__name__, a.sort()))

    def neg(self, v):
        if not is_sym(v):
            return -v
        if z3.is_fp(v):
            return z3.fpNeg(v)
        if z3.is_bv(v):
            self.add_side("bit-vector width (neg)", v != (1 << (v.size() - 1)))
        if z3.is_bool(v):
            v = self.bool_to_num(v)
        return -v

    def pyabs(self, v):
        if not is_sym(v):
            return abs(v)
        if z3.is_fp(v):
            return z3.fpAbs(v)
        if z3.is_bool(v):
            return self.bool_to_num(v)
        return z3.If(v >= 0, v, self.neg(v))

    def cmp(self, op, a, b):
        t = type(op)
        if a is POISON or b is POISON:
            raise Unsupported("read of a possibly unbound name")
        if t is ast.Is:
            return a is b
        if t is ast.IsNot:
            return a is not b
        if t in (ast.In, ast.NotIn):
            if isinstance(b, (str, SymStr)) and isinstance(a, (str, SymStr)):
                sa, sb = SymStr.of(a), SymStr.of(b)
                if len(sa) != 1:
                    if isinstance(a, str) and isinstance(b, str):
                        r = a in b
                    else:
                        raise Unsupported("substring test on symbolic strings")
                else:
                    r = False
                    for y in sb.chars:
                        r = self.lor(r, sym_char_eq(sa.chars[0], y))
            elif is_sym(b) or isinstance(b, SymObj):
                raise Unsupported("membership in a scalar")
            elif not has_sym(a) and not has_sym(b):
                r = a in b
            else:
                r = False
                for y in b:
                    r = self.lor(r, self.cmp(ast.Eq(), a, y))
            return r if t is ast.In else self.lnot(r)
        seqs = (tuple, list)
        if isinstance(a, seqs) and isinstance(b, seqs) and (has_sym(a) or has_sym(b)):
            if t in (ast.Eq, ast.NotEq):
                if type(a) is not type(b) or len(a) != len(b):
                    r = False
                else:
                    r = True
                    for x, y in zip(a, b):
                        r = self.land(r, self.cmp(ast.Eq(), x, y))
                return r if t is ast.Eq else self.lnot(r)
            raise Unsupported("ordering of symbolic sequences")
        if isinstance(a, (str, SymStr)) and isinstance(b, (str, SymStr)) and (isinstance(a, SymStr) or isinstance(b, SymStr)):
            if t in (ast.Eq, ast.NotEq):
                sa, sb = SymStr.of(a), SymStr.of(b)
                if len(sa) != len(sb):
                    r = False
                else:
                    r = True
                    for x, y in zip(sa.chars, sb.chars):
                        r = self.land(r, sym_char_eq(x, y))
                return r if t is ast.Eq else self.lnot(r)
            raise Unsupported("ordering of symbolic strings")
        if not is_sym(a) and not is_sym(b):
            f = {ast.Eq: operator.eq, ast.NotEq: operator.ne, ast.Lt: operator.lt, ast.LtE: operator.le,
                 ast.Gt: operator.gt, ast.GtE: operator.ge}[t]
            try:
                return f(a, b)
            except Exception as e:
                raise PyRaise(e)
        if isinstance(a, seqs + (str, SymStr, SymObj)) or isinstance(b, seqs + (str, SymStr, SymObj)) or a is None or b is None:
            if t is ast.Eq:
                return False
            if t is ast.NotEq:
                return True
            raise Unsupported("ordering of a number and a non-number")
        a, b = self.coerce2(a, b)
        if z3.is_fp(a):
            return {ast.Eq: z3.fpEQ(a, b), ast.NotEq: z3.Not(z3.fpEQ(a, b)), ast.Lt: z3.fpLT(a, b),
                    ast.LtE: z3.fpLEQ(a, b), ast.Gt: z3.fpGT(a, b), ast.GtE: z3.fpGEQ(a, b)}[t]
        if z3.is_bool(a) and t not in (ast.Eq, ast.NotEq):
            a, b = self.bool_to_num(a), self.bool_to_num(b)
        if t is ast.Eq:
            return a == b
        if t is ast.NotEq:
            return a != b
        if t is ast.Lt:
            return a < b
        if t is ast.LtE:
            return a <= b
        if t is ast.Gt:
            return a > b
        if t is ast.GtE:
            return a >= b
        raise Unsupported("comparison " + t.__name__)

    def eval_slice(self, sl, env, g):
        lo = self.eval(sl.lower, env, g) if sl.lower is not None else None
        hi = self.eval(sl.upper, env, g) if sl.upper is not None else None
        st = self.eval(sl.step, env, g) if sl.step is not None else None
        if is_sym(lo) or is_sym(hi) or is_sym(st):
            raise Unsupported("symbolic slice bound")
        return slice(lo, hi, st)

    def pyminmax(self, which, vals):
        """CPython's min/max: keep the first, replace when `item < best` / `item > best`"""
        best = vals[0]
        for x in vals[1:]:
            c = self.cmp(ast.Lt() if which == "min" else ast.Gt(), x, best)
            best = self.ite(c, x, best) if is_sym(c) else (x if c else best)
        return best

    def eval(self, e, env, g):
        if isinstance(e, ast.Constant):
            return e.value
        if isinstance(e, ast.Name):
            if e.id in env:
                v = env[e.id]
                if v is POISON:
                    raise Unsupported("read of possibly unbound name " + e.id)
                return v
            if e.id in g:
                return g[e.id]
            if hasattr(builtins, e.id):
                return getattr(builtins, e.id)
            raise PyRaise(NameError(e.id))
        if isinstance(e, ast.Tuple):
            return tuple(self.eval(x, env, g) for x in e.elts)
        if isinstance(e, ast.List):
            return [self.eval(x, env, g) for x in e.elts]
        if isinstance(e, ast.BinOp):
            return self.binop(e.op, self.eval(e.left, env, g), self.eval(e.right, env, g), e)
        if isinstance(e, ast.UnaryOp):
            v = self.eval(e.operand, env, g)
            if isinstance(e.op, ast.Not):
                return self.lnot(self.truth(v))
            if isinstance(e.op, ast.USub):
                return self.neg(v)
            if isinstance(e.op, ast.UAdd):
                return v
            if isinstance(e.op, ast.Invert):
                if not is_sym(v):
                    return ~v
                if z3.is_bv(v):
                    return ~v
            raise Unsupported("unary operator")
        if isinstance(e, ast.BoolOp):
            # value semantics with short circuit: `a and b` is b if a is truthy else a
            isand = isinstance(e.op, ast.And)
            v = self.eval(e.values[0], env, g)
            for nxt in e.values[1:]:
                tv = self.truth(v)
                if not is_sym(tv):
                    if bool(tv) != isand:
                        return v
                    v = self.eval(nxt, env, g)
                    continue
                saved = self.cur
                self.cur = self.land(saved, tv if isand else z3.Not(tv))
                try:
                    w = self.eval(nxt, env, g)
                finally:
                    self.cur = saved
                if z3.is_bool(v) and (isinstance(w, bool) or (is_sym(w) and z3.is_bool(w))):
                    v = self.land(v, w) if isand else self.lor(v, w)
                    if not is_sym(v):
                        v = bool(v)
                else:
                    v = self.ite(tv, w, v) if isand else self.ite(tv, v, w)
            return v
        if isinstance(e, ast.Compare):
            left = self.eval(e.left, env, g)
            r = True
            for op, c in zip(e.ops, e.comparators):
                if r is False:
                    break
                right = self.eval(c, env, g)
                r = self.land(r, self.cmp(op, left, right))
                left = right
            return r
        if isinstance(e, ast.IfExp):
            c = self.truth(self.eval(e.test, env, g))
            if is_sym(c):
                k = const_of(c)
                c = c if k is None else k
            if not is_sym(c):
                return self.eval(e.body if c else e.orelse, env, g)
            saved = self.cur
            dead = [False, False]
            a = b = None
            try:
                self.cur = self.land(saved, c)
                try:
                    a = self.eval(e.body, env, g)
                except _Dead:
                    dead[0] = True
                self.cur = self.land(saved, z3.Not(c))
                try:
                    b = self.eval(e.orelse, env, g)
                except _Dead:
                    dead[1] = True
            finally:
                self.cur = saved
            if dead[0] and dead[1]:
                raise _Dead()
            if dead[0]:
                return b
            if dead[1]:
                return a
            return self.ite(c, a, b)
        if isinstance(e, ast.Subscript):
            v = self.eval(e.value, env, g)
            if is_sym(v) or isinstance(v, SymObj):
                raise Unsupported("subscript of a scalar")
            if isinstance(e.slice, ast.Slice):
                sl = self.eval_slice(e.slice, env, g)
                if isinstance(v, SymStr):
                    return SymStr(v.chars[sl])
                return v[sl]
            i = self.eval(e.slice, env, g)
            if is_sym(i):
                raise Unsupported("symbolic index")
            try:
                if isinstance(v, SymStr):
                    return SymStr([v.chars[i]])
                return v[i]
            except (IndexError, KeyError, TypeError) as ex:
                raise PyRaise(ex)
        if isinstance(e, ast.Attribute):
            return self.attr_of(self.eval(e.value, env, g), e.attr)
        if isinstance(e, ast.Call):
            return self.eval_call(e, env, g)
        if isinstance(e, (ast.GeneratorExp, ast.ListComp)):
            return self.comprehension(e, 0, env, g)
        if isinstance(e, ast.JoinedStr):
            raise Unsupported("f-string")
        raise Unsupported("expression " + type(e).__name__)

    def attr_of(self, v, name):
        if isinstance(v, SymObj):
            return v.get(name)
        if isinstance(v, SuperProxy):
            mro = type.mro(v.obj.cls) if v.obj.cls is not None else []
            if v.cls not in mro:
                raise Unsupported("super() of an unrelated class")
            for k in mro[mro.index(v.cls) + 1:]:
                if name in k.__dict__ and inspect.isfunction(k.__dict__[name]):
                    return BoundMethod(k.__dict__[name], v.obj)
            raise Unsupported("super().%s" % name)
        if is_sym(v) or isinstance(v, (list, SymStr)):
            raise Unsupported("attribute %s of a modelled value" % name)
        try:
            return getattr(v, name)
        except AttributeError as ex:
            raise PyRaise(ex)

    def comprehension(self, e, k, env, g):
        gen = e.generators[k]
        if gen.is_async:
            raise Unsupported("async comprehension")
        it = self.eval(gen.iter, env, g)
        if is_sym(it):
            raise Unsupported("symbolic iterable")
        if isinstance(it, SymStr):
            it = it.items()
        out = []
        for x in it:
            sub = dict(env)
            self.assign_target(gen.target, x, {"env": sub, "g": g, "base": self.cur})
            ok = True
            for cond in gen.ifs:
                c = self.truth(self.eval(cond, sub, g))
                if is_sym(c):
                    raise Unsupported("symbolic comprehension filter")
                ok = ok and c
            if not ok:
                continue
            if k + 1 < len(e.generators):
                out.extend(self.comprehension(e, k + 1, sub, g))
            else:
                out.append(self.eval(e.elt, sub, g))
        return out

    def eval_call(self, e, env, g):
        if isinstance(e.func, ast.Attribute):
            recv = self.eval(e.func.value, env, g)
            if isinstance(recv, list):
                a = [self.eval(x, env, g) for x in e.args]
                m = e.func.attr
                if m in ("insert", "append", "reverse", "extend", "pop", "clear"):
                    if self.cur is not True:
                        self.need_fork("list mutation under a symbolic condition")
                    if any(is_sym(x) for x in a[:1]) and m in ("insert", "pop"):
                        raise Unsupported("symbolic list position")
                    if m == "extend":
                        recv.extend(list(a[0].chars) if isinstance(a[0], SymStr) else list(a[0]))
                        return None
                    try:
                        return getattr(recv, m)(*a)
                    except IndexError as ex:
                        raise PyRaise(ex)
                raise Unsupported("list method " + m)
            if isinstance(recv, (SymStr, str)):
                a = [self.eval(x, env, g) for x in e.args]
                kw = {k.arg: self.eval(k.value, env, g) for k in e.keywords}
                if isinstance(recv, SymStr) or has_sym(a) or has_sym(kw):
                    return self.str_method(recv, e.func.attr, a, kw)
                f = getattr(recv, e.func.attr)
            else:
                f = self.attr_of(recv, e.func.attr)
        else:
            f = self.eval(e.func, env, g)
        args = []
        for x in e.args:
            if isinstance(x, ast.Starred):
                v = self.eval(x.value, env, g)
                if is_sym(v):
                    raise Unsupported("star of a scalar")
                args.extend(v)
            else:
                args.append(self.eval(x, env, g))
        kw = {}
        for k in e.keywords:
            v = self.eval(k.value, env, g)
            if k.arg is None:
                if not isinstance(v, dict):
                    raise Unsupported("** of a non-dict")
                kw.update(v)
            else:
                kw[k.arg] = v
        return self.apply(f, args, kw)

    def apply(self, f, args, kw):
        try:
            h = self.intrinsics.get(f)
        except TypeError:
            h = None
        if h is not None:
            return h(self, args, kw)
        sym = has_sym(args) or has_sym(kw)
        if inspect.isfunction(f) and not sym and not (f.__module__ or "").startswith("ioflo"):
            try:
                return f(*args, **kw)    # concrete call of a non-ioflo python function
            except Exception as ex:
                raise PyRaise(ex)
        if isinstance(f, BoundMethod) or inspect.isfunction(f):
            return self.call(f, args, kw)
        if f is builtins.super:
            if len(args) == 2 and isinstance(args[1], SymObj):
                return SuperProxy(args[0], args[1])
            raise Unsupported("super() form")
        if f is bytearray or (f is bytes and args and isinstance(args[0], list) and has_sym(args[0])):
            # bytearray / bytes are modelled as python lists of byte terms; an element outside 0..255
            # would raise ValueError in the real constructor -> side condition
            if not args:
                return []
            if isinstance(args[0], int) and not isinstance(args[0], bool):
                return [0] * args[0]
            if is_sym(args[0]):
                raise Unsupported("%s(symbolic int)" % f.__name__)
            out = list(args[0])
            for x in out:
                if is_sym(x) and not z3.is_bool(x):
                    if not z3.is_bv(x) and not z3.is_int(x):
                        raise Unsupported("%s() of non-integer elements" % f.__name__)
                    self.add_side("%s() element outside 0..255 (ValueError)" % f.__name__, z3.And(x >= 0, x <= 255))
            return out
        if f in (list, tuple) and args and isinstance(args[0], (list, tuple)):
            return f(args[0])
        if f is list and not args:
            return []
        if f is len:
            if is_sym(args[0]):
                raise PyRaise(TypeError("len of a number"))
            return len(args[0])
        if not sym:
            if any(isinstance(a, list) for a in args) and f in (bytes,):
                return bytes(args[0])
            try:
                return f(*args, **kw)    # concrete evaluation by CPython
            except Exception as ex:
                raise PyRaise(ex)
        if f is abs:
            return self.pyabs(args[0])
        if f in (min, max):
            vals = list(args[0]) if len(args) == 1 else list(args)
            if kw:
                raise Unsupported("min/max keywords")
            return self.pyminmax("min" if f is min else "max", vals)
        if f is sum:
            r = args[1] if len(args) > 1 else 0
            for x in args[0]:
                r = self.binop(ast.Add(), r, x)
            return r
        if f in (zip, enumerate, reversed, range):
            if f is range:
                raise Unsupported("symbolic range")
            return list(f(*args))
        if f is any or f is all:
            r = f is all
            for x in args[0]:
                r = self.land(r, self.truth(x)) if f is all else self.lor(r, self.truth(x))
            return r
        if f is bool:
            return self.truth(args[0])
        if f is int:
            v = args[0]
            if isinstance(v, SymStr):
                return self.int_of_str(v, args[1] if len(args) > 1 else kw.get("base", 10))
            if is_sym(v):
                if z3.is_bv(v) or z3.is_int(v):
                    return v
                if z3.is_bool(v):
                    return self.bool_to_num(v)
                if z3.is_fp(v) and self.num == "bv":
                    # int(float): truncation toward zero; ValueError / OverflowError on NaN / inf; must fit the width
                    lim = fp_val(float(2 ** (self.bvw - 2)))
                    self.add_side("int(float) of NaN, infinity or a value outside the bit-vector width",
                                  z3.And(z3.Not(z3.fpIsNaN(v)), z3.Not(z3.fpIsInf(v)), z3.fpLT(z3.fpAbs(v), lim)))
                    return z3.fpToSBV(z3.RTZ(), v, z3.BitVecSort(self.bvw))
            raise Unsupported("int() of %s" % (v.sort() if is_sym(v) else type(v).__name__))
        if f is float:
            v = args[0]
            if is_sym(v):
                if z3.is_fp(v) or z3.is_real(v):
                    return v
                if z3.is_int(v):
                    self.float_ops += 1
                    return z3.ToReal(v)
                if z3.is_bv(v) and self.int_truediv_fp:
                    return self.int_to_fp(v)
            raise Unsupported("float() of a symbolic %s" % (v.sort() if is_sym(v) else type(v).__name__))
        if f is str:
            return self.str_of(args[0])
        if f is ord:
            if isinstance(args[0], list):          # one-byte slice of a bytes model
                if len(args[0]) != 1:
                    raise PyRaise(TypeError("ord of %d bytes" % len(args[0])))
                return args[0][0]
            s = SymStr.of(args[0])
            if len(s) != 1:
                raise PyRaise(TypeError("ord of a string of length %d" % len(s)))
            return self.widen8(s.code(0))
        if f is isinstance:
            raise Unsupported("isinstance of a symbolic value")
        raise Unsupported("call of %r with symbolic arguments" % (f,))

    # ---- small string model (hexify / unhexify / binize / unbinize)

    def widen8(self, c):
        return z3.ZeroExt(self.bvw - 8, c) if self.num == "bv" and self.bvw > 8 else c

    def digit_char(self, v, base, upper=False):
        """character of digit value v (a BitVec >= 8 bits known to be in [0, base))"""
        lo = z3.Extract(7, 0, v)
        if base <= 10:
            return lo + 48
        return z3.If(z3.ULT(lo, 10), lo + 48, lo + (55 if upper else 87))

    def str_of(self, v):
        if isinstance(v, (str, SymStr)):
            return v
        if not is_sym(v):
            return str(v)
        if not z3.is_bv(v):
            raise Unsupported("str() of %s" % v.sort())
        self.add_side("str(int) modelled for single decimal digits only", z3.And(v >= 0, v <= 9))
        return SymStr([self.digit_char(v, 10)])

    def hexval(self, c, label):
        """(value as 8-bit term, is-hex-digit condition) of a character code"""
        isd = z3.And(z3.UGE(c, 48), z3.ULE(c, 57))
        isl = z3.And(z3.UGE(c, 97), z3.ULE(c, 102))
        isu = z3.And(z3.UGE(c, 65), z3.ULE(c, 70))
        return z3.If(isd, c - 48, z3.If(isl, c - 87, c - 55)), z3.Or(isd, isl, isu)

    def int_of_str(self, s, base):
        if self.num != "bv":
            raise Unsupported("int(str) needs the bit-vector domain")
        if base == 16:
            r = None
            for i in range(len(s)):
                v, ok = self.hexval(s.code(i), "hex")
                self.add_side("int(s, 16) on a non-hex character (ValueError)", ok)
                v = self.widen8(v)
                r = v if r is None else self.binop(ast.Add(), self.binop(ast.LShift(), r, 4), v)
            if r is None:
                raise PyRaise(ValueError("int('') base 16"))
            return r
        if base == 10 and len(s) == 1:
            c = s.code(0)
            self.add_side("int(ch) on a non-digit (ValueError)", z3.And(z3.UGE(c, 48), z3.ULE(c, 57)))
            return self.widen8(c - 48)
        raise Unsupported("int() of a symbolic string, base %r, length %d" % (base, len(s)))

    def str_method(self, recv, m, a, kw):
        if m == "format" and isinstance(recv, str):
            import re
            mt = re.match(r"^\{0?:(0?)(\d*)([xX])\}$", recv)
            if mt and len(a) == 1 and not kw and is_sym(a[0]) and z3.is_bv(a[0]):
                # hex formatting of a byte: 1 or 2 digits (shape fork on v < 16), padded to the width
                v = a[0]
                self.add_side("'%s'.format modelled for 0..255 only" % recv, z3.And(v >= 0, v <= 255))
                lo8 = z3.Extract(7, 0, v)
                width = int(mt.group(2) or 0)
                up = mt.group(3) == "X"
                hi, lo = self.digit_char(z3.LShR(lo8, 4), 16, up), self.digit_char(lo8 & 15, 16, up)
                if width >= 2 and mt.group(1) == "0":
                    digits = [hi, lo]
                elif self.decide(z3.ULT(lo8, 16)):
                    digits = [lo]
                else:
                    digits = [hi, lo]
                pad = ["0" if mt.group(1) == "0" else " "] * max(0, width - len(digits))
                return SymStr(pad + digits)
            raise Unsupported("str.format %r with symbolic arguments" % recv)
        if m == "join" and isinstance(recv, str):
            out = []
            for i, x in enumerate(a[0]):
                if i and recv:
                    out.extend(recv)
                out.extend(SymStr.of(x).chars)
            return SymStr(out)
        if m == "replace" and len(a) == 2 and a[1] == "":
            s, c = SymStr.of(recv), SymStr.of(a[0])
            if len(c) != 1:
                raise Unsupported("replace of a longer pattern")
            out = []
            for ch in s.chars:
                # deleting a character changes the shape: fork on equality
                if not self.decide(sym_char_eq(ch, c.chars[0])):
                    out.append(ch)
            return SymStr(out) if any(not isinstance(x, str) for x in out) else "".join(out)
        raise Unsupported("str.%s on a symbolic string" % m)


# --------------------------------------------------------------------------- shape-path enumeration

class Path:
    def __init__(self, assume, result, interp):
        self.assume = assume
        self.result = result
        self.interp = interp

    @property
    def cond(self):
        return z3.And(*self.assume) if self.assume else z3.BoolVal(True)


def explore(make_interp, thunk, max_paths=4096):
    """enumerate the shape paths of thunk(interp): returns [Path].  Feasibility of every
    fork alternative is decided (by the interp's solver) when the fork is first met."""
    script = []
    out = []
    while True:
        I = make_interp()
        I.script = script
        I.pos = 0
        res = thunk(I)
        out.append(Path(list(I.assume), res, I))
        if len(out) > max_paths:
            raise Unsupported("more than %d shape paths" % max_paths)
        while script and script[-1][1]:
            script.pop()
        if not script:
            return out
        script[-1][0] = not script[-1][0]
        script[-1][1] = True


# --------------------------------------------------------------------------- session (solver, guards, result)

def model_value(m, v):
    return to_py(m.eval(v, model_completion=True))


def jsonable(v):
    """python value -> JSON-safe (Fractions as 'n/d', floats as hex strings, bools kept)"""
    if isinstance(v, bool) or v is None or isinstance(v, (int, str)):
        return v
    if isinstance(v, float):
        return "f:" + (v.hex() if v == v else "nan")
    if isinstance(v, Fraction):
        return "q:%d/%d" % (v.numerator, v.denominator)
    if isinstance(v, (list, tuple)):
        return [jsonable(x) for x in v]
    if isinstance(v, dict):
        return {str(k): jsonable(x) for k, x in v.items()}
    return repr(v)


def unjson(v):
    if isinstance(v, str) and v.startswith("f:"):
        return float("nan") if v == "f:nan" else float.fromhex(v[2:])
    if isinstance(v, str) and v.startswith("q:"):
        n, d = v[2:].split("/")
        return Fraction(int(n), int(d))
    if isinstance(v, list):
        return [unjson(x) for x in v]
    if isinstance(v, dict):
        return {k: unjson(x) for k, x in v.items()}
    return v


class Session:
    """One obligation's solver session.  Every query is timed and has a timeout; `unknown`
    makes the obligation inconclusive.  A query counts as discharged only if
      * its premises are satisfiable (vacuity guard a: the query without the negated claim is sat),
      * a deliberately wrong oracle, when supplied, is refuted (vacuity guard b: sat),
      * all side conditions of the translation (no bit-vector overflow, no raise, no
        division by zero) are valid under the premises, and
      * premises + not(claim) is unsat."""

    @staticmethod
    def make_solver(logic, timeout_ms):
        if logic and logic.startswith("tactic:"):
            names = logic.split(":", 1)[1].split(">")      # "tactic:simplify>fpa2bv>qfbv" = Then(...)
            s = (z3.Then(*names) if len(names) > 1 else z3.Tactic(names[0])).solver()
        else:
            s = z3.SolverFor(logic) if logic else z3.Solver()
        s.set("timeout", int(timeout_ms))
        return s

    def __init__(self, params, timeout_ms=20000, logic=None, alts=()):
        self.params = params
        # logic: with push/pop z3's default solver falls back to its slow incremental core; for pure
        # bit-vector work SolverFor("QF_BV") keeps an incremental SAT back end (measured: crc16 on 4
        # bytes 0.15 s instead of 4.6 s, crc64 step solved instead of timing out)
        # logic "tactic:<name>" builds the solver from a tactic (qffp for floating point: measured 1 s
        # instead of 8-21 s / unknown on the PID limit queries, but slower on others); `alts` is a
        # portfolio: [(logic, timeout_ms), ...] tried in order on a fresh solver when the kept-alive
        # primary solver answers unknown
        self.solver = self.make_solver(logic, timeout_ms)
        self.alts = list(alts)
        self.timeout_ms = int(timeout_ms)
        self.t0 = time.time()
        self.budget = float(params.get("budget", 60))
        self.seed = int(params.get("seed", 0) or 0)
        self.checks = 0
        self.stime = 0.0
        self.res = dict(paths=0, confirmed=0, rejected=0, unknown=0, failed=0, exhausted=True, fails={},
                        samples=[], validated=0, unknown_why="", stopped=None,
                        extra=dict(guards_premise_sat=0, guards_wrong_oracle_sat=0, side_checks=0,
                                   shape_paths=0, notes=[]))

    # -- low level
    def interp(self, **kw):
        kw.setdefault("solver", self.solver)
        return Interp(**kw)

    def check(self, *cons):
        t = time.time()
        self.solver.push()
        try:
            self.solver.add(*cons)
            r = str(self.solver.check())
            m = self.solver.model() if r == "sat" else None
            why = self.solver.reason_unknown() if r == "unknown" else ""
        finally:
            self.solver.pop()
        self.checks += 1
        if r == "unknown":
            for logic, tmo in self.alts:
                alt = self.make_solver(logic, tmo)
                alt.add(*cons)
                r = str(alt.check())
                self.checks += 1
                if r != "unknown":
                    m = alt.model() if r == "sat" else None
                    why = ""
                    self.res["extra"]["portfolio_hits"] = self.res["extra"].get("portfolio_hits", 0) + 1
                    break
                why = why + " / " + alt.reason_unknown()
        self.stime += time.time() - t
        return r, m, why

    XCHECK = (("z3-4.8.12", ["/usr/bin/z3", "-smt2", "-T:25"]), ("cvc5", ["/usr/bin/cvc5", "--tlimit=25000"]))

    def xcheck(self, cons, what):
        """thorough tier: dump an `unsat` query as SMT-LIB2 and let the external cvc5 / z3 4.8.12 binaries
        re-decide it (DESIGN section 2).  A `sat` from either is a disagreement -> inconclusive; errors,
        unsupported logics and timeouts are only counted."""
        import os
        import subprocess
        import tempfile
        ex = self.res["extra"]
        n = ex.get("xcheck_queries", 0)
        if not self.params.get("xcheck") or n >= int(self.params.get("xcheck_max", 4)):
            return True
        ex["xcheck_queries"] = n + 1
        tmp = z3.Solver()
        tmp.add(*cons)
        text = "(set-logic ALL)\n" + tmp.to_smt2()
        fd, path = tempfile.mkstemp(suffix=".smt2", prefix="e2x_")
        ok = True
        try:
            with os.fdopen(fd, "w") as f:
                f.write(text)
            for name, cmd in self.XCHECK:
                if not os.path.exists(cmd[0]):
                    continue
                try:
                    out = subprocess.run(cmd + [path], capture_output=True, text=True, timeout=40).stdout.strip().split("\n")[0]
                except Exception as e:
                    out = "timeout"
                k = "xcheck_%s_%s" % (name, out if out in ("unsat", "sat", "unknown", "timeout") else "error")
                ex[k] = ex.get(k, 0) + 1
                if out == "sat":
                    ok = False
                    self.inconclusive("cross-check disagreement: %s says sat on a query z3 %s proved unsat (%s)"
                                      % (name, z3.get_version_string(), what))
        finally:
            try:
                os.unlink(path)
            except OSError:
                pass
        return ok

    def over_budget(self):
        return time.time() - self.t0 > self.budget

    def note(self, text):
        if text not in self.res["extra"]["notes"] and len(self.res["extra"]["notes"]) < 20:
            self.res["extra"]["notes"].append(text)

    def inconclusive(self, why):
        self.res["unknown"] += 1
        self.res["exhausted"] = False
        if len(self.res["unknown_why"]) < 600:
            self.res["unknown_why"] += ("; " if self.res["unknown_why"] else "") + why

    def absorb(self, interp):
        """account the feasibility checks an Interp made on the shared solver"""
        self.checks += interp.solver_checks
        self.stime += interp.solver_time
        interp.solver_checks = 0
        interp.solver_time = 0.0
        for n in interp.notes:
            self.note(n)

    def fail(self, key, vals, detail):
        f = self.res["fails"].get(key)
        if f is None:
            self.res["fails"][key] = dict(vals=jsonable(vals), detail=detail, count=1)
        else:
            f["count"] += 1
        self.res["failed"] += 1

    # -- the proof step
    def prove(self, key, claim, assume=(), defs=(), side=(), wrong=None, vals=None, detail="",
              concretize=None, what="", on_unknown=None):
        """Try to prove `claim` under assume+defs.  vals(model) -> dict of replayable inputs.
        concretize(model) -> (vals, detail) or None turns an abstract candidate into concrete
        replayable inputs (None: candidate not reproducible -> inconclusive)."""
        self.res["paths"] += 1
        if self.over_budget():
            self.res["stopped"] = "budget"
            self.inconclusive("budget exhausted before %s %s" % (key, what))
            return "unknown"
        prem = list(assume) + list(defs)
        claim = claim if is_sym(claim) else z3.BoolVal(bool(claim))

        def sample(m):
            if len(self.res["samples"]) < 2 and vals is not None:
                try:
                    self.res["samples"].append(jsonable(vals(m)))
                except Exception:
                    pass

        # 1. side conditions of the translation (a model found while they are violated would be an
        #    artefact of the encoding, so they come first)
        side = [(l, c) for (l, c) in side]
        if side:
            self.res["extra"]["side_checks"] += 1
            r, m, why = self.check(*(prem + [z3.Not(z3.And(*[c for _, c in side]))]))
            if r == "unknown" and on_unknown is not None:
                got = on_unknown()
                if got is not None and got[0] == "sat":
                    self.fail(key, got[1], got[2])
                    return "sat"
                if got is not None and got[0] == "unsat":
                    self.note(got[1])
                    self.res["extra"]["decided_by_fallback"] = self.res["extra"].get("decided_by_fallback", 0) + 1
                    self.res["confirmed"] += 1
                    return "unsat"
            if r != "unsat":
                bad = ""
                if r == "sat":
                    for l, c in side:
                        if z3.is_false(m.eval(c, model_completion=True)):
                            bad = l
                            break
                self.inconclusive("translation side condition %s (%s) for %s %s" % (
                    "violated" if r == "sat" else "unknown", bad or why, key, what))
                return "unknown"
        # 2. the query
        r, m, why = self.check(*(prem + [z3.Not(claim)]))
        if r == "sat":
            if concretize is not None:
                got = concretize(m)
                if got is None:
                    self.inconclusive("abstract counterexample for %s %s did not reproduce on the real code" % (key, what))
                    return "unknown"
                v, d = got
                self.fail(key, v, d)
            else:
                v = vals(m) if vals is not None else {}
                self.fail(key, v, (detail(m, v) if callable(detail) else detail) or what)
            return "sat"
        if r != "unsat":
            # stated fallback of the harness (e.g. exhaustive concrete evaluation of a bounded box)
            got = on_unknown() if on_unknown is not None else None
            if got is not None and got[0] == "sat":
                self.fail(key, got[1], got[2])
                return "sat"
            if got is not None and got[0] == "unsat":
                self.note(got[1])
                self.res["extra"]["decided_by_fallback"] = self.res["extra"].get("decided_by_fallback", 0) + 1
                self.res["confirmed"] += 1
                return "unsat"
            self.inconclusive("solver unknown (%s) for %s %s" % (why, key, what))
            return "unknown"
        if not self.xcheck(prem + [z3.Not(claim)], "%s %s" % (key, what)):
            return "unknown"
        # 3. vacuity guards: an `unsat` only counts if the premises are satisfiable and a
        #    deliberately wrong oracle is refuted by the same premises
        if wrong is not None:
            wrong = wrong if is_sym(wrong) else z3.BoolVal(bool(wrong))
            r, m, why = self.check(*(prem + [z3.Not(wrong)]))
            if r == "sat":
                self.res["extra"]["guards_wrong_oracle_sat"] += 1
                self.res["extra"]["guards_premise_sat"] += 1
                sample(m)
                self.res["confirmed"] += 1
                return "unsat"
            self.inconclusive("vacuity guard: the deliberately wrong oracle was %s for %s %s"
                              % ("not refuted" if r == "unsat" else "unknown (%s)" % why, key, what))
            return "unknown"
        r, m, why = self.check(*prem)
        if r != "sat":
            self.inconclusive("vacuity guard: premises %s for %s %s" % (r, key, what))
            return "unknown"
        self.res["extra"]["guards_premise_sat"] += 1
        sample(m)
        self.res["confirmed"] += 1
        return "unsat"

    def prove_exhaustive(self, paths, what="", given=()):
        """the fork assumptions of the shape paths cover every input (of the domain `given`)"""
        self.res["extra"]["shape_paths"] += len(paths)
        for p in paths:
            self.absorb(p.interp)
        if len(paths) == 1 and not paths[0].assume:
            return True
        r, m, why = self.check(*(list(given) + [z3.Not(z3.Or(*[z3.And(*(p.assume + p.interp.defs)) if (p.assume or p.interp.defs)
                                                            else z3.BoolVal(True) for p in paths]))]))
        if r != "unsat":
            self.inconclusive("shape paths not shown exhaustive (%s) %s" % (r, what))
            return False
        return True

    # -- translator validation
    def evaluate(self, paths, variables, values):
        """value of the translated function on concrete inputs: substitute + simplify
        (fresh quotients, if any, are resolved by the solver from their definitions)"""
        sub = [(v, to_z3(c, v.sort())) for v, c in zip(variables, values)]
        chosen = None
        for p in paths:
            ok = True
            for a in p.assume:
                t = z3.simplify(z3.substitute(a, *sub)) if sub else z3.simplify(a)
                if z3.is_false(t):
                    ok = False
                    break
                if not z3.is_true(t):
                    r, _, _ = self.check(*([z3.substitute(x, *sub) for x in p.assume + p.interp.defs]))
                    ok = r == "sat"
                    break
            if ok:
                chosen = p
                break
        if chosen is None:
            raise TranslationMismatch("no shape path admits input %r" % (values,))

        def ev(t):
            if isinstance(t, (list, tuple)):
                return type(t)(ev(x) for x in t)
            if isinstance(t, SymStr):
                return "".join(c if isinstance(c, str) else chr(ev(c) & 0xff) for c in t.chars)
            if not is_sym(t):
                return t
            u = z3.simplify(z3.substitute(t, *sub)) if sub else z3.simplify(t)
            try:
                return to_py(u)
            except Unsupported:
                r, m, _ = self.check(*[z3.substitute(x, *sub) for x in chosen.interp.defs])
                if r != "sat":
                    raise TranslationMismatch("definitions unsatisfiable for input %r" % (values,))
                return to_py(m.eval(u, model_completion=True))
        for lab, c in chosen.interp.side:
            t = z3.simplify(z3.substitute(c, *sub)) if sub else z3.simplify(c)
            if z3.is_false(t):
                return ("side", lab)
        return ev(chosen.result)

    def validate(self, label, paths, variables, cases, real, norm=None):
        """translator validation: term evaluated on each concrete case must equal real(*case)"""
        for case in cases:
            got = self.evaluate(paths, variables, case)
            try:
                exp = real(*case)
            except Exception as e:       # the real function raises: the translation must flag the input
                exp = ("raise", type(e).__name__)
                if isinstance(got, tuple) and len(got) == 2 and got[0] == "side":
                    self.res["validated"] += 1
                    continue
            if norm is not None:
                exp = norm(exp)
            if isinstance(got, tuple) and len(got) == 2 and got[0] == "side" and str(got[1]).startswith("bit-vector width"):
                self.note("validation input outside the bit-vector width skipped: %s %r" % (label, case))
                continue
            if not same_value(got, exp):
                raise TranslationMismatch("%s: input %r: translated term gives %r, real function gives %r"
                                          % (label, case, got, exp))
            self.res["validated"] += 1

    def result(self):
        r = self.res
        r["solver_checks"] = self.checks
        r["solver_time"] = round(self.stime, 3)
        r["wall"] = round(time.time() - self.t0, 2)
        if r["unknown"]:
            r["exhausted"] = False
        return r


def run_obligation(body, logic=None, timeout_ms=20000, alts=()):
    """wrap an E2 obligation body(sess, params): Unsupported -> inconclusive (never silent),
    TranslationMismatch propagates (harness error)."""
    def fn(params):
        sess = Session(params, timeout_ms=params.get("timeout_ms", timeout_ms), logic=logic, alts=alts)
        try:
            body(sess, params)
        except Unsupported as e:
            sess.inconclusive("Unsupported by the translator: %s" % e)
            sess.res["stopped"] = "unsupported"
        except PyRaise as e:
            sess.inconclusive("translated code raises on a concrete path: %s" % e)
            sess.res["stopped"] = "raise"
        except (_NeedFork, _Dead) as e:
            sess.inconclusive("Unsupported by the translator: shape difference outside a forkable branch: %r" % e)
            sess.res["stopped"] = "unsupported"
        return sess.result()
    fn.__name__ = getattr(body, "__name__", "e2")
    return fn


def rng(params, salt=0):
    import random
    return random.Random(int(params.get("seed", 0) or 0) * 1000003 + salt)
