"""probe: merged-state symbolic interpreter for a pure-numeric Python subset -> z3 terms"""
import ast, inspect, textwrap, z3, operator

DEFAULT_BV = 32
class Unsupported(Exception): pass
class ReturnSignal(Exception): pass

def is_sym(v): return isinstance(v, z3.ExprRef)
def to_bool(v):
    if is_sym(v):
        if z3.is_bool(v): return v
        if z3.is_bv(v): return v != 0
        if z3.is_int(v) or z3.is_real(v): return v != 0
        raise Unsupported("truth of %r" % v)
    if isinstance(v, (list, tuple)): return len(v) > 0
    return bool(v)

def ite(c, a, b):
    """merge two python-level values under condition c"""
    if not is_sym(c): return a if c else b
    if a is b: return a
    if isinstance(a, (list, tuple)) and isinstance(b, (list, tuple)):
        if len(a) != len(b): raise Unsupported("merge of different lengths")
        return type(a)(ite(c, x, y) for x, y in zip(a, b))
    if not is_sym(a) and not is_sym(b):
        if type(a) == type(b) and a == b: return a
        if isinstance(a, bool) and isinstance(b, bool):
            return z3.If(c, z3.BoolVal(a), z3.BoolVal(b))
        if a is None or b is None: raise Unsupported("merge with None")
    sa, sb = coerce2(a, b)
    return z3.If(c, sa, sb)

def coerce2(a, b):
    if is_sym(a) and not is_sym(b):
        return a, lift(b, a)
    if is_sym(b) and not is_sym(a):
        return lift(a, b), b
    if not is_sym(a) and not is_sym(b):
        if isinstance(a, bool) and isinstance(b, bool): return z3.BoolVal(a), z3.BoolVal(b)
        if isinstance(a, int) and isinstance(b, int):
            return (z3.BitVecVal(a, DEFAULT_BV), z3.BitVecVal(b, DEFAULT_BV)) if DEFAULT_BV else (z3.IntVal(a), z3.IntVal(b))
        raise Unsupported("both concrete %r %r" % (a, b))
    if z3.is_bv(a) and z3.is_bv(b) and a.size() != b.size():
        n = max(a.size(), b.size())
        return (z3.SignExt(n - a.size(), a) if a.size() < n else a), (z3.SignExt(n - b.size(), b) if b.size() < n else b)
    return a, b

def lift(c, like):
    if z3.is_bv(like): return z3.BitVecVal(int(c), like.size())
    if z3.is_int(like): return z3.IntVal(int(c)) if float(c).is_integer() else z3.RealVal(str(c))
    if z3.is_real(like): return z3.RealVal(str(c))
    if z3.is_bool(like): return z3.BoolVal(bool(c))
    raise Unsupported("lift")

def pyfloor_int(a, b):
    # python floor division for Int with nonzero b: z3 div is euclidean (rounds so remainder >= 0)
    q = a / b
    return z3.If(z3.And(b < 0, a - b * q != 0), q + 1 - 1 + (0), q) if False else z3.If(b > 0, q, z3.If(a - b * q == 0, q, q - 1 + 1 - 1))

class Interp:
    def __init__(self, globs, max_unroll=64):
        self.globs = globs; self.max_unroll = max_unroll
        self.defs = []   # definitional constraints (floor quotients)
        self.trail = []  # decisions taken on this run: [cond_expr, value, flipped]
        self.replay = [] # decisions to replay
        self.assume = [] # path assumptions for this run
        self.pos = 0
        self.side = []   # unwinding / no-overflow side conditions (must hold)

    def decide(self, c):
        """fork point: returns a concrete bool for symbolic condition c (DART style)"""
        if not is_sym(c): return bool(c)
        c = z3.simplify(c)
        if z3.is_true(c): return True
        if z3.is_false(c): return False
        if self.pos < len(self.replay):
            v = self.replay[self.pos][1]
        else:
            v = True
            self.replay.append([c, v, False])
        self.pos += 1
        self.assume.append(c if v else z3.Not(c))
        return v

    def call(self, fn, args, kwargs=None):
        src = textwrap.dedent(inspect.getsource(fn))
        fdef = ast.parse(src).body[0]
        env = {}
        params = [a.arg for a in fdef.args.args]
        defaults = fdef.args.defaults
        for i, p in enumerate(params):
            if i < len(args): env[p] = args[i]
            elif kwargs and p in kwargs: env[p] = kwargs[p]
            else:
                d = defaults[i - (len(params) - len(defaults))]
                env[p] = self.eval(d, {}, fn.__globals__)
        st = {'env': env, 'ret': None, 'retc': False, 'g': fn.__globals__}
        self.block(fdef.body, st, True)
        return st['ret']

    # state: env dict, ret value (merged), retc = condition under which already returned
    def block(self, stmts, st, pc):
        for s in stmts:
            live = self.land(pc, self.lnot(st['retc']))
            if live is False: return
            self.stmt(s, st, pc)

    def land(self, a, b):
        if a is False or b is False: return False
        if a is True: return b
        if b is True: return a
        return z3.And(a, b)
    def lnot(self, a):
        if a is True: return False
        if a is False: return True
        return z3.Not(a)
    def lor(self, a, b):
        if a is True or b is True: return True
        if a is False: return b
        if b is False: return a
        return z3.Or(a, b)

    def assign(self, st, name, val, pc):
        if pc is True or name not in st['env']:
            st['env'][name] = val
        else:
            st['env'][name] = ite(pc, val, st['env'][name])

    def stmt(self, s, st, pc):
        env = st['env']
        if isinstance(s, ast.Expr):
            if isinstance(s.value, ast.Constant): return  # docstring
            self.eval(s.value, env, st['g']); return
        if isinstance(s, ast.Assign):
            v = self.eval(s.value, env, st['g'])
            for t in s.targets: self.assign_target(t, v, st, pc)
            return
        if isinstance(s, ast.AugAssign):
            cur = self.eval(s.target, env, st['g'])
            v = self.binop(s.op, cur, self.eval(s.value, env, st['g']))
            self.assign_target(s.target, v, st, pc); return
        if isinstance(s, ast.If):
            c = to_bool(self.eval(s.test, env, st['g']))
            if not is_sym(c):
                self.block(s.body if c else s.orelse, st, pc); return
            c = z3.simplify(c)
            if z3.is_true(c): self.block(s.body, st, pc); return
            if z3.is_false(c): self.block(s.orelse, st, pc); return
            self.block(s.body, st, self.land(pc, c))
            self.block(s.orelse, st, self.land(pc, z3.Not(c)))
            return
        if isinstance(s, ast.Return):
            v = self.eval(s.value, env, st['g']) if s.value is not None else None
            pc = self.land(pc, self.lnot(st['retc']))
            if st['retc'] is False and pc is True:
                st['ret'] = v
            elif st['ret'] is None and st['retc'] is False:
                st['ret'] = v
            else:
                st['ret'] = ite(pc, v, st['ret'])
            st['retc'] = self.lor(st['retc'], pc)
            return
        if isinstance(s, ast.For):
            it = self.eval(s.iter, env, st['g'])
            if is_sym(it): raise Unsupported("symbolic iterable")
            for x in list(it):
                live = self.land(pc, self.lnot(st['retc']))
                if live is False: break
                self.assign_target(s.target, x, st, pc)
                self.block(s.body, st, pc)
            return
        if isinstance(s, ast.While):
            for k in range(self.max_unroll + 1):
                c = to_bool(self.eval(s.test, env, st['g']))
                if pc is not True or st['retc'] is not False:
                    raise Unsupported("while under symbolic pc")
                if not self.decide(c): return
                if k == self.max_unroll:
                    raise Unsupported("unwind bound hit")
                self.block(s.body, st, pc)
            return
        if isinstance(s, ast.Pass): return
        raise Unsupported(ast.dump(s)[:80])

    def assign_target(self, t, v, st, pc):
        if isinstance(t, ast.Name):
            self.assign(st, t.id, v, pc)
        elif isinstance(t, (ast.Tuple, ast.List)):
            vals = list(v)
            for tt, vv in zip(t.elts, vals): self.assign_target(tt, vv, st, pc)
        else:
            raise Unsupported("target " + ast.dump(t)[:60])

    def binop(self, op, a, b):
        if not is_sym(a) and not is_sym(b):
            return {ast.Add: operator.add, ast.Sub: operator.sub, ast.Mult: operator.mul, ast.BitAnd: operator.and_,
                    ast.BitOr: operator.or_, ast.BitXor: operator.xor, ast.LShift: operator.lshift, ast.RShift: operator.rshift,
                    ast.Mod: operator.mod, ast.FloorDiv: operator.floordiv, ast.Pow: operator.pow, ast.Div: operator.truediv}[type(op)](a, b)
        a, b = coerce2(a, b)
        t = type(op)
        if t is ast.Add: return a + b
        if t is ast.Sub: return a - b
        if t is ast.Mult: return a * b
        if t is ast.Mod and (z3.is_real(a) or z3.is_int(a)):
            if z3.is_int(a): return a % b if False else a - b * pyfloor_int(a, b)
            q = z3.FreshInt("q"); r = a - b * z3.ToReal(q)
            self.defs.append(z3.If(b > 0, z3.And(r >= 0, r < b), z3.And(r <= 0, r > b)))
            return r
        if t is ast.Div and z3.is_real(a): return a / b
        if z3.is_bv(a):
            if t is ast.BitAnd: return a & b
            if t is ast.BitOr: return a | b
            if t is ast.BitXor: return a ^ b
            if t is ast.LShift: return a << b
            if t is ast.RShift: return a >> b   # arithmetic shift like python
        raise Unsupported("binop %s" % t.__name__)

    def cmp(self, op, a, b):
        if isinstance(a, (tuple, list)) and isinstance(b, (tuple, list)):
            if isinstance(op, (ast.Eq, ast.NotEq)):
                if len(a) != len(b): r = False
                else:
                    r = True
                    for x, y in zip(a, b): r = self.land(r, self.cmp(ast.Eq(), x, y))
                return r if isinstance(op, ast.Eq) else self.lnot(r)
        if isinstance(op, ast.Is): return a is b
        if isinstance(op, ast.IsNot): return a is not b
        if isinstance(op, ast.In):
            r = False
            for y in b: r = self.lor(r, self.cmp(ast.Eq(), a, y))
            return r
        if not is_sym(a) and not is_sym(b):
            return {ast.Eq: operator.eq, ast.NotEq: operator.ne, ast.Lt: operator.lt, ast.LtE: operator.le,
                    ast.Gt: operator.gt, ast.GtE: operator.ge}[type(op)](a, b)
        a, b = coerce2(a, b)
        t = type(op)
        if t is ast.Eq: return a == b
        if t is ast.NotEq: return a != b
        if t is ast.Lt: return a < b
        if t is ast.LtE: return a <= b
        if t is ast.Gt: return a > b
        if t is ast.GtE: return a >= b
        raise Unsupported("cmp")

    def eval(self, e, env, g):
        if isinstance(e, ast.Constant): return e.value
        if isinstance(e, ast.Name):
            if e.id in env: return env[e.id]
            if e.id in g: return g[e.id]
            import builtins
            return getattr(builtins, e.id)
        if isinstance(e, ast.Tuple): return tuple(self.eval(x, env, g) for x in e.elts)
        if isinstance(e, ast.List): return [self.eval(x, env, g) for x in e.elts]
        if isinstance(e, ast.BinOp): return self.binop(e.op, self.eval(e.left, env, g), self.eval(e.right, env, g))
        if isinstance(e, ast.UnaryOp):
            v = self.eval(e.operand, env, g)
            if isinstance(e.op, ast.Not):
                b = to_bool(v); return self.lnot(b) if is_sym(b) else (not b)
            if isinstance(e.op, ast.USub): return -v
        if isinstance(e, ast.BoolOp):
            vals = [to_bool(self.eval(x, env, g)) for x in e.values]
            r = True if isinstance(e.op, ast.And) else False
            for v in vals: r = self.land(r, v) if isinstance(e.op, ast.And) else self.lor(r, v)
            return r
        if isinstance(e, ast.Compare):
            left = self.eval(e.left, env, g); r = True
            for op, c in zip(e.ops, e.comparators):
                right = self.eval(c, env, g)
                r = self.land(r, self.cmp(op, left, right)); left = right
            return r
        if isinstance(e, ast.IfExp):
            c = to_bool(self.eval(e.test, env, g))
            if not is_sym(c): return self.eval(e.body if c else e.orelse, env, g)
            return ite(c, self.eval(e.body, env, g), self.eval(e.orelse, env, g))
        if isinstance(e, ast.Subscript):
            v = self.eval(e.value, env, g)
            if isinstance(e.slice, ast.Slice):
                lo = self.eval(e.slice.lower, env, g) if e.slice.lower else None
                hi = self.eval(e.slice.upper, env, g) if e.slice.upper else None
                return v[lo:hi]
            return v[self.eval(e.slice, env, g)]
        if isinstance(e, ast.Attribute):
            v = self.eval(e.value, env, g)
            if is_sym(v): raise Unsupported("attr on symbolic")
            return getattr(v, e.attr)
        if isinstance(e, ast.Call):
            if isinstance(e.func, ast.Attribute):
                recv = self.eval(e.func.value, env, g)
                if isinstance(recv, list):   # our model of list / bytearray
                    a = [self.eval(x, env, g) for x in e.args]
                    m = e.func.attr
                    if m == 'insert': recv.insert(a[0], a[1]); return None
                    if m == 'append': recv.append(a[0]); return None
                    if m == 'reverse': recv.reverse(); return None
                    if m == 'extend': recv.extend(a[0]); return None
                    if m == 'pop': return recv.pop(*a)
                    raise Unsupported("list method " + m)
            f = self.eval(e.func, env, g)
            args = [self.eval(a, env, g) for a in e.args]
            kw = {k.arg: self.eval(k.value, env, g) for k in e.keywords}
            if f is len: return len(args[0])
            if f is range: return range(*args)
            if f is bytearray: return list(args[0]) if args else []
            if not inspect.isfunction(f) and not any(is_sym(x) for a in args for x in (a if isinstance(a, (list, tuple)) else [a])) and f not in (len, range, sum, zip, tuple, list):
                return f(*args, **kw)   # concrete evaluation by CPython
            if f is abs and is_sym(args[0]):
                return z3.If(args[0] >= 0, args[0], -args[0])
            if f in (zip, enumerate, sum, tuple, list, min, max, abs) and not any(is_sym(x) for a in args for x in (a if isinstance(a, (list, tuple)) else [a])):
                return f(*args)
            if f is sum:
                r = 0
                for x in args[0]: r = self.binop(ast.Add(), r, x)
                return r
            if f in (zip, tuple, list): return f(*args)
            if inspect.isfunction(f): return self.call(f, args, kw)
            raise Unsupported("call %r" % f)
        if isinstance(e, ast.GeneratorExp) or isinstance(e, ast.ListComp):
            (gen,) = e.generators
            it = self.eval(gen.iter, env, g); out = []
            for x in it:
                sub = dict(env)
                st = {'env': sub, 'g': g, 'ret': None, 'retc': False}
                self.assign_target(gen.target, x, st, True)
                out.append(self.eval(e.elt, sub, g))
            return out
        raise Unsupported(ast.dump(e)[:80])

def run_all(make_interp, thunk, solver_timeout=10000):
    """enumerate shape-paths: yields (assumptions, result) for every feasible decision vector"""
    replay = []
    out = []
    while True:
        I = make_interp(); I.replay = [list(x) for x in replay]; I.pos = 0
        res = thunk(I)
        # feasibility of this path
        s = z3.Solver(); s.set("timeout", solver_timeout); s.add(*I.assume); s.add(*I.defs)
        r = s.check()
        if str(r) == 'sat': out.append((list(I.assume), res, I))
        elif str(r) != 'unsat': raise Unsupported("feasibility unknown")
        replay = I.replay
        while replay and replay[-1][2]: replay.pop()
        if not replay: return out
        replay[-1][1] = not replay[-1][1]; replay[-1][2] = True
