"""Shared harness-side doubles for ioflo.aio (sockets, ssl, serial, clock).

Nothing here touches ioflo's source; harnesses assign these objects into the
attributes / module globals that ioflo reads (`client.cs`, `clienting.socket`, ...).

Rules (DESIGN section 2): symbolic payloads are carried in *Python-level* attributes only.
`SymErr(e)` is a `socket.error` whose `args`/`errno` are properties returning the
(possibly symbolic) errno `e`; a plain `socket.error(e, ..)` would realise `e`.
"""
import errno
import socket as _socket
import ssl as _ssl

# ---------------------------------------------------------------------------
# errno classes used by the oracles (written from the property statements)
# ---------------------------------------------------------------------------
LOSS = (errno.ECONNRESET, errno.ENETRESET, errno.ENETUNREACH, errno.EHOSTUNREACH,
        errno.ENETDOWN, errno.EHOSTDOWN, errno.ETIMEDOUT, errno.ECONNREFUSED)
BLOCK = (errno.EAGAIN, errno.EWOULDBLOCK)


def is_in(e, members):
    """membership test that never hashes / realises a symbolic int"""
    return any(e == x for x in members)


# ---------------------------------------------------------------------------
# exceptions with symbolic payload
# ---------------------------------------------------------------------------
class SymErr(_socket.error):
    """socket.error (OSError) whose errno may be a symbolic int"""
    def __init__(self, e, msg="sym"):
        _socket.error.__init__(self)
        self._a = (e, msg)
    args = property(lambda self: self._a)
    errno = property(lambda self: self._a[0])
    strerror = property(lambda self: self._a[1])


class SymSslErr(_ssl.SSLError):
    """ssl.SSLError whose error code may be a symbolic int"""
    def __init__(self, e, msg="sym"):
        _ssl.SSLError.__init__(self)
        self._a = (e, msg)
    args = property(lambda self: self._a)
    errno = property(lambda self: self._a[0])
    strerror = property(lambda self: self._a[1])


_SSL_CLASSES = {
    _ssl.SSL_ERROR_SSL: _ssl.SSLError,
    _ssl.SSL_ERROR_WANT_READ: _ssl.SSLWantReadError,
    _ssl.SSL_ERROR_WANT_WRITE: _ssl.SSLWantWriteError,
    _ssl.SSL_ERROR_SYSCALL: _ssl.SSLSyscallError,
    _ssl.SSL_ERROR_ZERO_RETURN: _ssl.SSLZeroReturnError,
    _ssl.SSL_ERROR_EOF: _ssl.SSLEOFError,
}


def ssl_error(code):
    """the exception object CPython's ssl module raises for a concrete SSL error code"""
    cls = _SSL_CLASSES.get(code, _ssl.SSLError)
    return cls(code, "ssl double code %d" % code)


def would_block(tls=False, write=False):
    """the exception a nonblocking socket raises when it would block"""
    if tls:
        return ssl_error(_ssl.SSL_ERROR_WANT_WRITE if write else _ssl.SSL_ERROR_WANT_READ)
    return BlockingIOError(errno.EAGAIN, "Resource temporarily unavailable")


# ---------------------------------------------------------------------------
# clock
# ---------------------------------------------------------------------------
class Clock(object):
    """store/stamper double: only `.stamp` is read by StoreTimer (integer time)"""
    def __init__(self, stamp=0):
        self.stamp = stamp

    def advanceStamp(self, delta):
        self.stamp = self.stamp + delta


# ---------------------------------------------------------------------------
# socket doubles
# ---------------------------------------------------------------------------
class SockBase(object):
    """no-op socket surface shared by all doubles"""
    def __init__(self, local=("127.0.0.1", 50001), peer=("127.0.0.1", 8080)):
        self.local = local
        self.peer = peer
        self.closed = False
        self.shut = []
        self.blocking = None

    def setsockopt(self, *pa):
        pass

    def getsockopt(self, *pa):
        return 1 << 30

    def setblocking(self, flag):
        self.blocking = flag

    def settimeout(self, t):
        pass

    def fileno(self):
        return -1

    def getsockname(self):
        return self.local

    def getpeername(self):
        return self.peer

    def shutdown(self, how):
        self.shut.append(how)

    def close(self):
        self.closed = True

    def do_handshake(self):
        return None

    def bind(self, ha):
        host, port = ha
        self.local = (host or "0.0.0.0", port)

    def listen(self, backlog):
        pass


class ConnSock(SockBase):
    """connecting socket whose connect_ex result comes from a harness callback result(sock, ha)"""
    def __init__(self, result, **kwa):
        SockBase.__init__(self, **kwa)
        self.result = result
        self.connects = 0

    def connect_ex(self, ha):
        self.connects += 1
        return self.result(self, ha)


class ScriptSock(SockBase):
    """stream socket whose send/recv results come from harness callbacks.

    on_send(data) -> int accepted (or raises); on_recv(bs) -> bytes (or raises).
    Everything the socket accepted is kept in `.accepted` (bytearray) and, per call,
    in `.sent` (list of bytes); everything it delivered in `.delivered` (list of bytes).
    """
    def __init__(self, on_send=None, on_recv=None, **kwa):
        SockBase.__init__(self, **kwa)
        self.on_send = on_send
        self.on_recv = on_recv
        self.accepted = bytearray()
        self.sent = []
        self.delivered = []
        self.nsend = 0
        self.nrecv = 0

    def send(self, data):
        self.nsend += 1
        n = self.on_send(data)
        chunk = bytes(data[:n])
        self.accepted.extend(chunk)
        self.sent.append(chunk)
        return n

    def recv(self, bs):
        self.nrecv += 1
        data = self.on_recv(bs)
        self.delivered.append(data)
        return data

    # datagram surface (same callbacks; destination / source addresses recorded)
    def sendto(self, data, da):
        self.dests = getattr(self, "dests", [])
        self.dests.append(da)
        return self.send(data)

    def recvfrom(self, bs):
        data = self.recv(bs)
        return data, self.peer

    # pyserial surface
    write = send
    read = recv

    def reset_input_buffer(self):
        pass

    def reset_output_buffer(self):
        pass


class ErrSock(SockBase):
    """every operation raises the given exception object (built per call by `make`)"""
    def __init__(self, make, **kwa):
        SockBase.__init__(self, **kwa)
        self.make = make
        self.calls = 0

    def _raise(self, *pa, **kwa):
        self.calls += 1
        raise self.make()

    send = recv = sendto = recvfrom = do_handshake = accept = write = read = _raise


class TlsContext(object):
    """ssl.SSLContext double: wrap_socket returns the plain double itself (already TLS shaped)"""
    verify_mode = _ssl.CERT_NONE
    check_hostname = False

    def __init__(self):
        self.wrapped = []

    def wrap_socket(self, sock, **kwa):
        self.wrapped.append((sock, kwa))
        sock.tls = True
        return sock


# ---------------------------------------------------------------------------
# in-memory network: listening sockets, connect_ex, stream pairs
# ---------------------------------------------------------------------------
class Pipe(object):
    def __init__(self):
        self.buf = bytearray()
        self.closed = False
        self.total = bytearray()   # everything ever written (observation)


class MemSock(SockBase):
    """listener / connector / stream end of an in-memory TCP-like network (`MemNet`)."""
    def __init__(self, net, tls=False):
        SockBase.__init__(self, local=None, peer=None)
        self.net = net
        self.tls = tls
        self.listening = False
        self.pending = []
        self.rx = None
        self.tx = None
        self.connects = 0

    # --- listener ---
    def bind(self, ha):
        host, port = ha
        self.local = (host or "0.0.0.0", port)

    def listen(self, backlog):
        self.listening = True
        self.net.listeners[self.local[1]] = self

    def accept(self):
        if not self.pending:
            raise would_block()
        cs = self.pending.pop(0)
        return cs, cs.peer

    # --- connector ---
    def connect_ex(self, ha):
        self.connects += 1
        hook = self.net.connect_hook
        if hook is not None:
            r = hook(self, ha)
            if r is not None:
                return r
        return self.net.establish(self, ha)

    # --- stream ---
    def send(self, data):
        if self.tx is None or self.closed:
            raise OSError(errno.ENOTCONN, "not connected")
        if self.tx.closed:
            raise ConnectionResetError(errno.ECONNRESET, "reset")
        n = len(data)
        lim = self.net.limit(self, "send", n)
        if lim is not None:
            n = min(n, lim)
        if n == 0 and len(data):
            raise would_block(self.tls, write=True)
        chunk = bytes(data[:n])
        self.tx.buf.extend(chunk)
        self.tx.total.extend(chunk)
        return n

    def recv(self, bs):
        if self.rx is None or self.closed:
            raise OSError(errno.ENOTCONN, "not connected")
        if not self.rx.buf:
            if self.rx.closed:
                return b""
            raise would_block(self.tls)
        n = min(len(self.rx.buf), bs)
        lim = self.net.limit(self, "recv", n)
        if lim is not None:
            n = min(n, max(1, lim))
        data = bytes(self.rx.buf[:n])
        del self.rx.buf[:n]
        return data

    def close(self):
        self.closed = True
        if self.tx is not None:
            self.tx.closed = True
        if self.listening:
            self.listening = False
            if self.net.listeners.get(self.local[1]) is self:
                del self.net.listeners[self.local[1]]


class MemNet(object):
    """factory + wiring for MemSock; assign `net.module` into `<ioflo module>.socket`.

    connect_hook(sock, ha) -> errno result or None (None = let the net decide);
    limit(sock, op, n) -> max bytes for this call or None.
    """
    def __init__(self, tls=False):
        self.listeners = {}
        self.socks = []
        self.connect_hook = None
        self.limiter = None
        self.port = 50000
        self.tls = tls
        self.module = FakeSocketModule(self.socket)

    def socket(self, *pa, **kwa):
        s = MemSock(self, tls=self.tls)
        self.socks.append(s)
        return s

    def limit(self, sock, op, n):
        if self.limiter is None:
            return None
        return self.limiter(sock, op, n)

    def establish(self, sock, ha):
        if sock.peer is not None and sock.tx is not None:
            return errno.EISCONN
        lst = self.listeners.get(ha[1])
        if lst is None or not lst.listening:
            return errno.ECONNREFUSED
        self.port += 1
        a2b, b2a = Pipe(), Pipe()
        sock.local = ("127.0.0.1", self.port)
        sock.peer = ("127.0.0.1", ha[1])
        sock.tx, sock.rx = a2b, b2a
        far = MemSock(self, tls=self.tls)
        far.local = sock.peer
        far.peer = sock.local
        far.tx, far.rx = b2a, a2b
        self.socks.append(far)
        sock.far = far
        far.far = sock
        lst.pending.append(far)
        return 0


_SOCKET_NAMES = dict((k, getattr(_socket, k)) for k in dir(_socket) if k.isupper())
_SOCKET_NAMES.update(error=_socket.error, gaierror=_socket.gaierror, timeout=_socket.timeout,
                     getaddrinfo=_socket.getaddrinfo, herror=_socket.herror)


class FakeSocketModule(object):
    """stands in for the `socket` module inside one ioflo module (e.g. clienting.socket)"""
    def __init__(self, factory):
        self.__dict__.update(_SOCKET_NAMES)     # constants and exception classes of the real module
        self._factory = factory
        self.created = 0

    def socket(self, *pa, **kwa):
        self.created += 1
        return self._factory(*pa, **kwa)


# ---------------------------------------------------------------------------
# wire log helpers
# ---------------------------------------------------------------------------
def wirelog():
    """opened in-memory WireLog with separate rx / tx buffers"""
    from ioflo.aio import wiring
    wl = wiring.WireLog(buffify=True, same=False)
    wl.reopen()
    return wl


def wirelog_payload(raw, tag, addr):
    """payload bytes recorded in a WireLog buffer (entries are b'TX <addr>\\n' + data + b'\\n').
    Returns None when the buffer is not a sequence of such entries."""
    head = ("%s %s\n" % (tag, addr)).encode("ascii")
    if not raw:
        return b""
    parts = raw.split(head)
    if parts[0] != b"":
        return None
    out = bytearray()
    for p in parts[1:]:
        if not p.endswith(b"\n"):
            return None
        out.extend(p[:-1])
    return bytes(out)
