"""Independent reference interpreter of FloScript framer semantics, written from
the property statements (C05-C11) and the documented tick structure:

  tick = segue [update clocks; auxiliaries' segue top-down; preacts top-down, first
         interrupting act ends evaluation] then recur top-down.

It interprets the structural `Prog` of engine/flogen.py; it shares no code with
ioflo.  Where the statements are silent the choice made here is listed in
SILENT (and repeated in each harness's ASSUMPTIONS).
"""
import operator

STOPPED, STARTED, RUNNING, ABORTED, READIED = 0, 1, 2, 3, 4
STOP, START, RUN, ABORT, READY = 0, 1, 2, 3, 4

OPS = {">=": operator.ge, ">": operator.gt, "<=": operator.le, "<": operator.lt,
       "==": operator.eq, "!=": operator.ne}

SILENT = [
    "order between a main frame's own exit actions and the exit of its conditional auxiliary (reference: plain auxes, then exit actions, then conditional aux)",
    "in the tick a conditional auxiliary completes, the main frame's later clauses are evaluated and the resumed frames get recur but no transition evaluation",
    "a transition whose target lies strictly below the main frame of a running conditional auxiliary is assumed away",
]


class RFrame:
    def __init__(self, spec, framer):
        self.name = spec.name
        self.spec = spec
        self.framer = framer
        self.parent = None
        self.kids = []

    def head(self):
        out, f = [], self
        while f is not None:
            out.append(f)
            f = f.parent
        out.reverse()
        return out

    def outline(self):
        out = self.head()
        f = self
        while f.kids:
            f = f.kids[0]
            out.append(f)
        return out

    def __repr__(self):
        return self.name


class RFramer:
    def __init__(self, spec, world):
        self.name = spec.name
        self.spec = spec
        self.world = world
        self.kind = spec.kind
        self.frames = {}
        for fs in spec.frames:
            self.frames[fs.name] = RFrame(fs, self)
        for fs in spec.frames:
            if fs.parent:
                fr = self.frames[fs.name]
                fr.parent = self.frames[fs.parent]
                fr.parent.kids.append(fr)
        self.first = self.frames[spec.first or spec.frames[0].name]
        self.status = STOPPED
        self.desire = START if spec.kind == "active" else STOP
        self.active = None
        self.actives = []
        self.stamp0 = 0
        self.elapsed = 0
        self.recurred = 0
        self.done = True
        self.main = None        # owning frame while active as an auxiliary
        self.suspender = None   # (main RFrame, aux RFramer) while a conditional aux runs
        self.period = spec.period


class World:
    def __init__(self, prog, env):
        self.prog = prog
        self.env = env          # share name -> value (possibly symbolic int)
        self.now = 0
        self.log = []
        self.framers = {}
        for fs in prog.framers:
            self.framers[fs.name] = RFramer(fs, self)
        self.assumed_away = False
        self.events = []        # ('refused', framer, near, far) / ('refused-start', framer)

    # -- conditions ---------------------------------------------------------
    def cond(self, cond, framer=None):
        for (s, op, g) in cond:
            if s == "@done":
                auxes = self.plain_auxes(framer.frames[g])
                if op == "any":
                    r = any(a.done for a in auxes)
                elif op == "all":
                    r = bool(auxes) and all(a.done for a in auxes)
                else:
                    r = any(a.name == op and a.done for a in auxes)
                if not r:
                    return False
                continue
            v = self.value(s, framer)
            gv = self.value(g, framer) if isinstance(g, str) else g
            if not OPS[op](v, gv):
                return False
        return True

    def value(self, s, framer):
        if s == "elapsed":
            return framer.elapsed
        if s == "recurred":
            return framer.recurred
        return self.env[s]

    # -- entry checks -------------------------------------------------------
    def plain_auxes(self, frame):
        return [self.framers[it[1]] for it in frame.spec.items if it[0] == "aux"]

    def cond_auxes(self, frame):
        return [self.framers[it[1]] for it in frame.spec.items if it[0] == "caux"]

    def check_start(self, framer):
        return self.check_enter(framer, framer.first.outline(), [])

    def check_enter(self, framer, enters, exits):
        if not enters:
            return False
        for frame in enters:
            if frame.spec.guard and not self.cond(frame.spec.guard, framer):
                return False
            for aux in self.plain_auxes(frame):
                if aux.main is not None and aux.main is not frame and aux.main not in exits:
                    return False
                if not self.check_start(aux):
                    return False
        return True

    # -- enter / exit -------------------------------------------------------
    def enter_all(self, framer):
        framer.done = False
        framer.active = framer.first
        framer.actives = framer.first.outline()
        framer.suspender = None
        self.enter(framer, framer.actives)

    def enter(self, framer, enters):
        if enters:
            framer.stamp0 = self.now
            framer.elapsed = 0
            framer.recurred = 0
        for frame in enters:
            self.frame_acts(frame, "enter")
            for aux in self.plain_auxes(frame):
                aux.main = frame
                self.enter_all(aux)

    def frame_acts(self, frame, ctx):
        """run the frame's actions of context ctx in script order"""
        if frame.spec.rec and ctx in ("enter", "exit", "renter", "rexit", "recur"):
            self.log.append((frame.framer.name, frame.name, ctx))
        for it in frame.spec.items:
            k = it[0]
            if k == "rec" and it[1] == ctx and ctx != "precur":
                self.log.append((frame.framer.name, frame.name, ctx))
            elif ctx == "enter" and k == "done":
                frame.framer.done = True
            elif ctx == "enter" and k == "bid":
                self.bid(frame.framer, it[1], it[2])
            elif k in ("put", "inc", "copy") and (it[3] if len(it) > 3 else "enter") == ctx:
                if k == "put":
                    self.env[it[1]] = it[2]
                elif k == "inc":
                    self.env[it[1]] = self.env[it[1]] + it[2]
                else:
                    self.env[it[2]] = self.env[it[1]]

    def bid(self, framer, control, target):
        t = framer if target == "me" else self.framers[target]
        t.desire = {"stop": STOP, "start": START, "run": RUN, "abort": ABORT, "ready": READY}[control]

    def exit_frames(self, framer, exits):
        for frame in reversed(exits):
            for aux in self.plain_auxes(frame):
                self.exit_all(aux)
                aux.main = None
            self.frame_acts(frame, "exit")
            for aux in self.cond_auxes(frame):
                if not aux.done and aux.main is frame:     # only the frame it runs under takes it down
                    self.exit_all(aux)
                    aux.main = None
            if framer.suspender and framer.suspender[0] is frame:
                framer.suspender = None

    def full_outline(self, framer):
        """every frame of the framer that is entered and not exited (suspended ones included)"""
        return framer.active.outline() if framer.active is not None else []

    def exit_all(self, framer, abort=False):
        self.exit_frames(framer, self.full_outline(framer))
        framer.actives = []
        framer.active = None
        framer.suspender = None
        if not abort:
            framer.done = True

    # -- tick ---------------------------------------------------------------
    def recur(self, framer):
        for frame in list(framer.actives):
            self.frame_acts(frame, "recur")
            for aux in self.plain_auxes(frame):
                self.recur(aux)

    def segue(self, framer):
        framer.elapsed = self.now - framer.stamp0
        framer.recurred = framer.recurred + 1
        for frame in list(framer.actives):
            for aux in self.plain_auxes(frame):
                self.segue(aux)
        for frame in list(framer.actives):
            if self.precur(framer, frame):
                return True
        return False

    @staticmethod
    def exen(nears, far):
        fars = far.outline()
        for i in range(min(len(nears), len(fars))):
            if nears[i] is far or nears[i] is not fars[i]:
                return nears[i:], fars[i:], nears[:i]
        return [], [], nears[:]

    def precur(self, framer, frame):
        for it in frame.spec.items:
            k = it[0]
            if k == "rec" and it[1] == "precur":
                self.log.append((framer.name, frame.name, "precur"))
            elif k in ("go", "timeout", "repeat"):
                if k == "timeout":
                    it = ("go", "next", [("elapsed", ">=", it[1])])
                elif k == "repeat":
                    it = ("go", "next", [("recurred", ">=", it[1])])
                if it[2] and not self.cond(it[2], framer):
                    continue
                far = framer.frames[it[1]] if it[1] != "next" else self.next_frame(framer, frame)
                nears = self.full_outline(framer)
                if framer.suspender is not None:
                    main = framer.suspender[0]
                    if main in far.head()[:-1]:    # target strictly below the main frame
                        self.assumed_away = True
                        return True
                exits, enters, common = self.exen(nears, far)
                if not self.check_enter(framer, enters, exits):
                    self.events.append(("refused", framer.name, frame.name, far.name))
                    continue
                self.log.append((framer.name, frame.name, "transit"))
                self.exit_frames(framer, exits)
                for f in reversed(common):
                    self.frame_acts(f, "rexit")
                for f in common:
                    self.frame_acts(f, "renter")
                self.enter(framer, enters)
                framer.active = far
                framer.actives = far.outline()
                framer.suspender = None
                return True
            elif k == "caux":
                aux = self.framers[it[1]]
                if aux.done:
                    if not self.cond(it[2], framer):
                        continue
                    if aux.main is not None and aux.main is not frame:
                        continue
                    if not self.check_start(aux):
                        continue
                    self.log.append((framer.name, frame.name, "transit"))
                    aux.main = frame
                    self.enter_all(aux)
                    self.recur(aux)
                    if aux.done:
                        self.exit_all(aux)
                        aux.main = None
                        continue
                    framer.actives = frame.head()
                    framer.suspender = (frame, aux)
                    return True
                else:
                    self.segue(aux)
                    self.recur(aux)
                    if aux.done:
                        self.exit_all(aux)
                        aux.main = None
                        framer.actives = framer.active.outline()
                        framer.suspender = None
                        continue
                    return True
        return False

    def next_frame(self, framer, frame):
        names = [f.name for f in framer.spec.frames]
        return framer.frames[names[names.index(frame.name) + 1]]

    def send(self, framer, control):
        """what the framer does when it receives control; returns status"""
        st = framer.status
        if control == RUN:
            if st in (RUNNING, STARTED):
                self.segue(framer)
                self.recur(framer)
                framer.status = RUNNING
            elif st in (STOPPED, READIED):
                framer.desire = START
            else:
                framer.desire = ABORT
                framer.status = ABORTED
        elif control == READY:
            if st in (STOPPED, READIED):
                if self.check_start(framer):
                    framer.status = READIED
                else:
                    framer.desire = STOP
                    framer.status = STOPPED
            elif st == ABORTED:
                framer.desire = ABORT
        elif control == START:
            if st in (STOPPED, READIED):
                if self.check_start(framer):
                    framer.desire = RUN
                    self.enter_all(framer)
                    self.recur(framer)
                    framer.status = STARTED
                else:
                    self.events.append(("refused-start", framer.name))
                    framer.desire = STOP
                    framer.status = STOPPED
            elif st in (RUNNING, STARTED):
                framer.desire = RUN
            else:
                framer.desire = ABORT
        elif control == STOP:
            if st in (RUNNING, STARTED):
                framer.desire = STOP
                self.exit_all(framer, abort=True)
                framer.status = STOPPED
            elif st == ABORTED:
                framer.desire = ABORT
        else:
            if st in (RUNNING, STARTED):
                self.exit_all(framer)
            framer.desire = ABORT
            framer.status = ABORTED
        return framer.status
