"""E1 -- path-wise symbolic execution of the real ioflo objects.

A driver over CrossHair's engine (tracer, StateSpace, RootNode search tree,
symbolic int/bool proxies, z3 back end).  A harness is a function h(sym, **params)
that builds ioflo objects, drives the real code and checks an oracle.  It gets its
inputs from `sym`:

    sym.int(name, lo, hi)    genuinely symbolic integer (solver-partitioned)
    sym.bool(name)           genuinely symbolic boolean
    sym.choice(name, n)      selector: symbolic int in [0,n) realised at once
    sym.assume(c)            prune this path (counted as rejected)
    sym.cover(label)         vacuity guard: label reached on this path
    sym.fail(key, detail)    oracle violated; key = counterexample class
    sym.check(c, key, det)   fail(key, det) unless c

The same harness runs unchanged with a `Conc` factory (plain CPython, no
CrossHair) = the replay of a solver-found assignment against the real code.

The search continues after a failing path (the leaf is closed), so one
exploration yields every distinct failure class in the bounded space and an
honest "exhausted" bit.
"""
import os, sys, time, signal, random, traceback

import z3
import crosshair.core_and_libs  # noqa: F401  registers patches / contracts
from crosshair.core import Patched, deep_realize, realize
from crosshair.tracers import NoTracing, ResumedTracing, COMPOSITE_TRACER
from crosshair import statespace as _ss
from crosshair.statespace import (StateSpace, StateSpaceContext, RootNode, CallAnalysis,
                                  VerificationStatus, context_statespace)
from crosshair.util import UnexploredPath, IgnoreAttempt, NotDeterministic, CrossHairInternal
from crosshair.libimpl.builtinslib import SymbolicInt, SymbolicBool


class Reject(Exception):
    """assumption not met on this path"""


class Fail(Exception):
    """oracle violated"""
    def __init__(self, key, detail=""):
        Exception.__init__(self, key, detail)
        self.key = key
        self.detail = detail


class Missing(Exception):
    """concrete replay went beyond the recorded inputs (= it did not fail where the symbolic path did)"""


class Hang(BaseException):
    """wall-clock backstop fired inside one path"""


class _Base:
    symbolic = False

    def assume(self, c):
        if not c:
            raise Reject()

    def cover(self, label):
        self.covers.add(label)

    def fail(self, key, detail=""):
        """detail may be a callable: it is evaluated only under concrete replay (formatting
        symbolic values would realise them), so counterexample details come from the replay."""
        if callable(detail):
            detail = "" if self.symbolic else detail()
        raise Fail(key, detail)

    def check(self, c, key, detail=""):
        if not c:
            self.fail(key, detail)

    def note(self, k, v):
        self.notes[k] = v


class Sym(_Base):
    symbolic = True

    def __init__(self):
        self.vals = {}
        self.covers = set()
        self.notes = {}

    def int(self, name, lo, hi):
        with NoTracing():
            space = context_statespace()
            v = SymbolicInt(name + space.uniq())
            space.add(z3.And(v.var >= lo, v.var <= hi))
        self.vals[name] = v
        return v

    def bool(self, name):
        with NoTracing():
            v = SymbolicBool(name + context_statespace().uniq())
        self.vals[name] = v
        return v

    def choice(self, name, n):
        v = self.int(name, 0, n - 1)
        c = realize(v)
        self.vals[name] = c
        return c

    def flag(self, name):
        return bool(self.choice(name, 2))

    def realize(self, v):
        return deep_realize(v)


class Conc(_Base):
    def __init__(self, vals):
        self.vals = dict(vals)
        self.covers = set()
        self.notes = {}

    def _get(self, name):
        if name not in self.vals:
            raise Missing(name)
        return self.vals[name]

    def int(self, name, lo, hi):
        v = self._get(name)
        if not (lo <= v <= hi):
            raise Reject()
        return v

    def bool(self, name):
        return bool(self._get(name))

    def choice(self, name, n):
        v = self._get(name)
        if not (0 <= v < n):
            raise Reject()
        return v

    def flag(self, name):
        return bool(self.choice(name, 2))

    def realize(self, v):
        return v


# ---- solver accounting ------------------------------------------------------
_STATS = {"checks": 0, "time": 0.0}
_orig_is_sat = _ss.solver_is_sat


def _counting_is_sat(solver, *exprs):
    t = time.perf_counter()
    try:
        return _orig_is_sat(solver, *exprs)
    finally:
        _STATS["checks"] += 1
        _STATS["time"] += time.perf_counter() - t


_ss.solver_is_sat = _counting_is_sat


def _model_vals(space, vals):
    """Concrete values for the symbolic inputs of the current path, read from a solver model
    WITHOUT realising them in the search tree (realisation would add decision nodes below a
    leaf that is being closed and make the engine revisit the same program path)."""
    out = {}
    solver = space.solver
    if str(solver.check()) != "sat":
        raise UnexploredPath("no model for finished path")
    m = solver.model()
    for k, v in vals.items():
        var = getattr(v, "var", None)
        if var is None or not isinstance(var, z3.ExprRef):
            out[k] = v
            continue
        e = m.eval(var, model_completion=True)
        if z3.is_int_value(e):
            out[k] = e.as_long()
        elif z3.is_true(e):
            out[k] = True
        elif z3.is_false(e):
            out[k] = False
        else:
            raise UnexploredPath("unexpected model value %r" % e)
    return out


def _alarm(signum, frame):
    raise Hang()


def _jsonable(v):
    if isinstance(v, (bool, int, str)) or v is None:
        return v
    if isinstance(v, float):
        return v
    if isinstance(v, (list, tuple)):
        return [_jsonable(x) for x in v]
    if isinstance(v, dict):
        return {str(k): _jsonable(x) for k, x in v.items()}
    return repr(v)


def explore(harness, params=None, budget_s=60.0, per_path=20.0, seed=0,
            max_fail_keys=6, n_samples=3, hang_s=None):
    """Explore every path of harness(sym, **params). Returns a result dict."""
    params = params or {}
    root = RootNode()
    root._random = random.Random(seed)
    t0 = time.time()
    c0, s0 = _STATS["checks"], _STATS["time"]
    n = confirmed = rejected = unknown = failed = 0
    fails = {}      # key -> dict(vals, detail, count)
    covers = {}
    samples = []
    exhausted = False
    stopped = None
    unknown_why = {}
    old = signal.signal(signal.SIGALRM, _alarm)
    hang_s = hang_s or max(per_path * 3, 30)
    try:
        with Patched():
            while True:
                if time.time() - t0 >= budget_s:
                    stopped = "budget"
                    break
                n += 1
                start = time.process_time()
                space = StateSpace(execution_deadline=start + per_path,
                                   model_check_timeout=per_path / 2, search_root=root)
                ca = None
                signal.setitimer(signal.ITIMER_REAL, hang_s, 5.0)   # re-fires every 5 s in case a handler swallows it
                try:
                    with StateSpaceContext(space), COMPOSITE_TRACER, NoTracing():
                        sym = Sym()
                        try:
                            try:
                                with ResumedTracing():
                                    ok = harness(sym, **params)
                                    if ok is not None and not ok:
                                        raise Fail("returned-false")
                                confirmed += 1
                                for lab in sym.covers:
                                    covers[lab] = covers.get(lab, 0) + 1
                                if len(samples) < n_samples:
                                    samples.append(_model_vals(space, sym.vals))
                                ca = CallAnalysis(VerificationStatus.CONFIRMED)
                            except Reject:
                                rejected += 1
                                ca = CallAnalysis()
                            except (UnexploredPath, IgnoreAttempt, NotDeterministic, CrossHairInternal, Hang):
                                raise
                            except Exception as e:  # Fail or an unexpected exception from the code
                                if isinstance(e, Fail):
                                    key, detail = e.key, e.detail
                                else:
                                    key = "exception:" + type(e).__name__
                                    detail = "".join(traceback.format_exception_only(type(e), e)).strip()[:300]
                                vals = _model_vals(space, sym.vals)
                                if not isinstance(key, str) or not isinstance(detail, str):
                                    with ResumedTracing():
                                        key = deep_realize(key)
                                        detail = str(deep_realize(detail))
                                failed += 1
                                rec = fails.get(key)
                                if rec is None:
                                    fails[key] = dict(vals=vals, detail=str(detail), count=1)
                                else:
                                    rec["count"] += 1
                                ca = CallAnalysis(VerificationStatus.CONFIRMED)  # close the leaf, keep searching
                        finally:
                            signal.setitimer(signal.ITIMER_REAL, 0)
                except Hang:
                    unknown += 1
                    unknown_why["hang"] = unknown_why.get("hang", 0) + 1
                    try:
                        vals = {k: (v if isinstance(v, (int, bool)) else None) for k, v in sym.vals.items()}
                    except Exception:
                        vals = {}
                    fails.setdefault("hang", dict(vals=vals, detail="path exceeded %ss wall" % hang_s, count=0))["count"] += 1
                    ca = CallAnalysis(VerificationStatus.UNKNOWN)
                except UnexploredPath as e:
                    unknown += 1
                    k = type(e).__name__
                    unknown_why[k] = unknown_why.get(k, 0) + 1
                    ca = CallAnalysis(VerificationStatus.UNKNOWN)
                except IgnoreAttempt:
                    rejected += 1
                    ca = CallAnalysis()
                except NotDeterministic as e:
                    unknown += 1
                    unknown_why["NotDeterministic"] = unknown_why.get("NotDeterministic", 0) + 1
                    ca = CallAnalysis(VerificationStatus.UNKNOWN)
                top, exhausted = space.bubble_status(ca)
                if exhausted:
                    break
                if len(fails) >= max_fail_keys:
                    stopped = "max_fail_keys"
                    break
    finally:
        signal.setitimer(signal.ITIMER_REAL, 0)
        signal.signal(signal.SIGALRM, old)
    return dict(paths=n, confirmed=confirmed, rejected=rejected, unknown=unknown, failed=failed,
                exhausted=bool(exhausted) and unknown == 0, stopped=stopped,
                fails={k: dict(vals=_jsonable(v["vals"]), detail=v["detail"], count=v["count"])
                       for k, v in fails.items()},
                covers=covers, samples=[_jsonable(s) for s in samples], unknown_why=unknown_why,
                solver_checks=_STATS["checks"] - c0, solver_time=round(_STATS["time"] - s0, 3),
                wall=round(time.time() - t0, 2))


def replay(harness, vals, params=None, hang_s=60):
    """Run the harness concretely (no CrossHair). Returns (outcome, key, detail);
    outcome in {'pass','fail','reject','hang'}."""
    params = params or {}
    c = Conc(vals)
    old = signal.signal(signal.SIGALRM, _alarm)
    signal.setitimer(signal.ITIMER_REAL, hang_s, 5.0)
    try:
        try:
            ok = harness(c, **params)
            if ok is not None and not ok:
                return ("fail", "returned-false", "")
            return ("pass", None, "")
        except Reject:
            return ("reject", None, "")
        except Missing as e:
            return ("pass", None, "replay ran past the recorded inputs (needed %s)" % e)
        except Fail as e:
            return ("fail", e.key, str(e.detail))
        except Hang:
            return ("hang", "hang", "replay exceeded %ss wall" % hang_s)
        except Exception as e:
            return ("fail", "exception:" + type(e).__name__,
                    "".join(traceback.format_exception_only(type(e), e)).strip()[:300])
    finally:
        signal.setitimer(signal.ITIMER_REAL, 0)
        signal.signal(signal.SIGALRM, old)
