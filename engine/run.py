"""Runner: loads harness/<Cxx>.py, runs its obligations on all cores, replays
counterexamples against the real code, matches known findings, writes evidence.

Exit codes: 0 no unlisted violation; 1 replayed violation not in known_findings.json;
3 harness error (a counterexample that does not replay, an engine crash).
"""
import collections.abc  # noqa: F401  (ioflo.aid.osetting needs it imported first, see DESIGN C01 note)
import os, sys, json, time, argparse, importlib, traceback, multiprocessing as mp

VERIF = os.path.dirname(os.path.dirname(os.path.abspath(__file__)))
sys.path.insert(0, VERIF)
sys.setrecursionlimit(10000)


from engine import Ob  # noqa: E402


_OBS = []
_SEED = 0
_SCALE = 1.0


def _quiet():
    try:
        from ioflo.aid import consoling
        consoling.getConsole().reinit(verbosity=0)
    except Exception:
        pass


def _task(arg):
    kind, i, extra = arg
    ob = _OBS[i]
    _quiet()
    t0 = time.time()
    import tempfile, shutil
    scratch = tempfile.mkdtemp(prefix="verif_task_")   # every temp file of this task lives here and is removed with it
    tempfile.tempdir = scratch
    try:
        if kind == "run":
            if ob.kind == "e1":
                from engine import symx
                r = symx.explore(ob.fn, ob.params, budget_s=ob.budget * _SCALE, per_path=ob.per_path,
                                 seed=_SEED, max_fail_keys=ob.max_fail_keys, hang_s=ob.hang_s)
            else:
                r = ob.fn(dict(ob.params, seed=_SEED, budget=ob.budget * _SCALE))
                r.setdefault("wall", round(time.time() - t0, 2))
            return (kind, i, extra, r, None)
        else:  # replay
            if ob.kind == "e1":
                from engine import symx
                out = symx.replay(ob.fn, extra["vals"], ob.params, hang_s=ob.hang_s or 60)
            else:
                out = ob.replay(extra["vals"], ob.params) if ob.replay else ("fail", extra.get("key"), "no replay fn (abstract query)")
            return (kind, i, extra, out, None)
    except BaseException as e:  # engine crash
        return (kind, i, extra, None, "".join(traceback.format_exception(type(e), e, e.__traceback__))[-2000:])
    finally:
        tempfile.tempdir = None
        shutil.rmtree(scratch, True)


def load_known():
    p = os.path.join(VERIF, "known_findings.json")
    if not os.path.exists(p):
        return []
    return json.load(open(p))["findings"]


def main(argv=None):
    global _OBS, _SEED, _SCALE
    ap = argparse.ArgumentParser()
    ap.add_argument("prop")
    ap.add_argument("--tier", default=os.environ.get("VERIF_TIER", "quick"))
    ap.add_argument("--replay")
    ap.add_argument("--only", help="substring filter on obligation names")
    ap.add_argument("--jobs", type=int, default=int(os.environ.get("VERIF_JOBS", "16")))
    ap.add_argument("--scale", type=float, default=float(os.environ.get("VERIF_SCALE", "1")))
    ap.add_argument("--no-evidence", action="store_true")
    a = ap.parse_args(argv)
    tier = a.tier if a.tier in ("quick", "thorough") else "quick"
    _SEED = int(os.environ.get("VERIF_SEED", "0") or 0)
    _SCALE = a.scale
    t0 = time.time()
    _quiet()
    import ioflo
    assert os.path.realpath(ioflo.__file__).startswith(os.path.realpath(os.environ.get("VERIF_REPO", "/repo")) + os.sep), ioflo.__file__
    mod = importlib.import_module("harness." + a.prop)
    prop = mod.PROPERTY
    obs = mod.obligations(tier)
    if a.only:
        obs = [o for o in obs if a.only in o.name]
    _OBS = obs
    ctx = mp.get_context("fork")

    if a.replay:
        rec = json.load(open(a.replay))
        idx = [i for i, o in enumerate(obs) if o.name == rec["obligation"]]
        if not idx:
            # obligation may belong to the other tier
            other = "thorough" if tier == "quick" else "quick"
            obs = mod.obligations(other)
            _OBS = obs
            idx = [i for i, o in enumerate(obs) if o.name == rec["obligation"]]
        if not idx:
            print("unknown obligation", rec["obligation"]); return 3
        with ctx.Pool(2, maxtasksperchild=1) as pool:
            (_, _, _, out, err) = pool.map(_task, [("replay", idx[0], {"vals": rec["vals"], "key": rec.get("key")})], chunksize=1)[0]
        if err:
            print(err); return 3
        print("replay outcome:", out)
        if out[0] == "fail":
            print("VIOLATION property=%s replay=%s" % (prop, a.replay))
            return 1
        return 0

    results = [None] * len(obs)
    errors = []
    with ctx.Pool(max(2, min(a.jobs, len(obs))), maxtasksperchild=1) as pool:
        for kind, i, extra, r, err in pool.imap_unordered(_task, [("run", i, None) for i in range(len(obs))]):
            if err:
                errors.append((obs[i].name, err))
                r = dict(paths=0, confirmed=0, rejected=0, unknown=1, failed=0, exhausted=False, fails={},
                         covers={}, samples=[], solver_checks=0, solver_time=0.0, wall=0, crashed=True)
            results[i] = r
        # replays: every distinct failing class + one confirmed sample per obligation
        rtasks = []
        for i, r in enumerate(results):
            for key, f in r.get("fails", {}).items():
                rtasks.append(("replay", i, {"vals": f["vals"], "key": key, "what": "cex"}))
            if r.get("samples") and obs[i].kind == "e1":
                rtasks.append(("replay", i, {"vals": r["samples"][0], "key": None, "what": "sample"}))
        routs = pool.map(_task, rtasks, chunksize=1) if rtasks else []

    known = load_known()
    known_keys = {k["key"]: k for k in known if k.get("status") == "known" and k.get("property") == prop}
    violations = []
    known_hits = {}
    nonrepro = []
    validated = 0
    os.makedirs(os.path.join(VERIF, "replays"), exist_ok=True)
    for kind, i, extra, out, err in routs:
        ob = obs[i]
        if err:
            errors.append((ob.name + ":replay", err)); continue
        outcome, rkey, rdetail = out
        validated += 1
        if extra["what"] == "sample":
            if outcome == "fail":
                # the concrete run is ground truth: a confirmed symbolic path whose concrete twin fails
                results[i].setdefault("fails", {})[rkey] = dict(vals=extra["vals"], detail=rdetail, count=1)
                key = rkey
            else:
                continue
        else:
            key = extra["key"]
            if outcome != "fail":
                if outcome == "hang" and key == "hang":
                    pass
                else:
                    nonrepro.append((ob.name, key + " :: " + str(results[i]["fails"].get(key, {}).get("detail", ""))[:600], extra["vals"], outcome)); continue
            else:
                key = rkey if rkey is not None else key
        if key in known_keys:
            known_hits.setdefault(key, (ob.name, rdetail))
            continue
        path = os.path.join(VERIF, "replays", "%s_%s_%d.json" % (prop, ob.name.replace("/", "_").replace(" ", "_"), len(violations)))
        json.dump(dict(property=prop, obligation=ob.name, key=key, vals=extra["vals"], detail=rdetail,
                       tier=tier), open(path, "w"), indent=1)
        violations.append((ob.name, key, rdetail, path))

    # verdict bookkeeping
    inconclusive = []
    for ob, r in zip(obs, results):
        why = []
        if not r.get("exhausted"):
            why.append("not exhausted (%s; unknown=%s %s)" % (r.get("stopped"), r.get("unknown"), r.get("unknown_why", "")))
        if r.get("confirmed", 0) == 0 and not r.get("fails"):
            why.append("vacuous: no path reached the assertion")
        for lab in ob.covers:
            if not r.get("covers", {}).get(lab):
                why.append("cover label never reached: " + lab)
        if why:
            inconclusive.append(dict(obligation=ob.name, why=why))

    for key, (obname, det) in sorted(known_hits.items()):
        print("KNOWN-FINDING: property=%s %s [%s] %s" % (prop, key, obname, known_keys[key].get("what", "")))
    for obname, key, det, path in violations:
        print("violation class=%s obligation=%s detail=%s" % (key, obname, det))
        print("VIOLATION property=%s replay=%s" % (prop, path))
    for x in inconclusive:
        print("INCONCLUSIVE obligation=%s %s" % (x["obligation"], "; ".join(x["why"])))
    for obname, key, vals, outcome in nonrepro:
        print("HARNESS-ERROR counterexample did not replay: obligation=%s class=%s outcome=%s vals=%s" % (obname, key, outcome, vals))
    for name, err in errors:
        print("HARNESS-ERROR obligation=%s\n%s" % (name, err))

    wall = round(time.time() - t0, 2)
    tot = lambda k: sum(int(r.get(k, 0) or 0) for r in results)
    samples = []
    for ob, r in zip(obs, results):
        for s in r.get("samples", [])[:1]:
            samples.append(dict(obligation=ob.name, inputs=s))
    samples = samples[:12] or [dict(note="no confirmed path")]
    ev = dict(
        property_id=prop, tier=tier, seed=_SEED, level="model_checking",
        coverage=dict(
            states=max(1, tot("paths")), transitions=max(1, tot("solver_checks")),
            traces_validated_against_impl=validated + tot("validated"),
            samples=samples,
            exhaustive=not inconclusive and not errors,
            obligations=len(obs), discharged=len(obs) - len(inconclusive),
            paths_confirmed=tot("confirmed"), paths_rejected_by_assume=tot("rejected"),
            paths_unknown=tot("unknown"), paths_failed=tot("failed"),
            queries=tot("solver_checks"), solver_time_s=round(sum(float(r.get("solver_time", 0) or 0) for r in results), 2),
            functions_encoded=getattr(mod, "FUNCTIONS", []),
            bounds={ob.name: ob.bounds for ob in obs} if len(obs) <= 40 else
                   dict(list({ob.name: ob.bounds for ob in obs}.items())[:40], _more=len(obs) - 40),
            per_obligation=[dict(name=ob.name, engine=ob.kind, paths=r.get("paths"), confirmed=r.get("confirmed"),
                                 rejected=r.get("rejected"), unknown=r.get("unknown"), failed=r.get("failed", 0),
                                 exhausted=r.get("exhausted"), queries=r.get("solver_checks"),
                                 solver_time_s=r.get("solver_time"), wall_s=r.get("wall"),
                                 covers=r.get("covers", {}), extra=r.get("extra"))
                            for ob, r in zip(obs, results)],
            inconclusive=inconclusive,
            known_findings_seen=sorted(known_hits),
            violation_classes=[v[1] for v in violations],
            explanation=getattr(mod, "EXPLANATION", ""),
        ),
        assumptions=list(getattr(mod, "ASSUMPTIONS", [])),
        wall_s=wall, violations=len(violations),
    )
    scratch = os.path.realpath(os.environ.get("VERIF_REPO", "/repo")) != "/repo"
    if not a.no_evidence and not a.only and not scratch:
        json.dump(ev, open(os.path.join(VERIF, "evidence", prop + ".json"), "w"), indent=1, default=repr)
    print("%s tier=%s obligations=%d discharged=%d paths=%d (confirmed %d, rejected %d, unknown %d, failed %d) queries=%d solver=%.1fs wall=%.1fs"
          % (prop, tier, len(obs), len(obs) - len(inconclusive), tot("paths"), tot("confirmed"), tot("rejected"),
             tot("unknown"), tot("failed"), tot("solver_checks"), ev["coverage"]["solver_time_s"], wall))
    if violations:
        return 1
    if nonrepro or errors:
        return 3
    return 0


if __name__ == "__main__":
    sys.exit(main())
