"""In-memory socket doubles for the HTTP harnesses (C29, C32, C33).

No ioflo source is touched: the doubles are assigned to the public attributes the
real classes use (`Server.ss`, `Client.cs`), exactly where a real socket would sit.

    Pipe            one direction of a byte stream (buffer + closed flag)
    SockDouble      one end of a stream pair (send/recv/close/... like a non blocking socket)
    ListenDouble    listening socket double: accept() pops queued (SockDouble, ca) pairs
    Peer            the far end as seen by the harness: write raw bytes, read what was sent
    make_valet      real ioflo Valet on a ListenDouble
    connect         attach one more client connection to a Valet -> Peer
    make_patron     real ioflo Patron whose connector talks to a Peer
    untraced(sym)   NoTracing() under the symbolic engine, no-op in concrete replay
    quiet_stderr()  context manager: sys.stderr -> sink (Valet writes parse errors to stderr)
"""
import sys
import errno
import socket
import contextlib


def untraced(sym):
    """Run a block of concrete-only code outside CrossHair's tracer (all inputs already realised)."""
    if getattr(sym, "symbolic", False):
        from crosshair.tracers import NoTracing
        return NoTracing()
    return contextlib.nullcontext()


def pick(sym, name, lo, hi, atleast=None):
    """Symbolic int in [lo, hi] (optionally >= atleast) that is needed as a concrete Python int
    (to slice / format bytes).  Instead of CrossHair's realize() -- a linear chain of
    `x == v?` nodes, O(range) solver assertions per path -- the value is pinned by bisection on
    the symbolic int: a balanced tree of `x <= mid` decisions, each discharged by the solver.
    Returns a plain int; the path condition implies x == that int."""
    v = sym.int(name, lo, hi)
    if atleast is not None:
        sym.assume(v >= atleast)
    if not getattr(sym, "symbolic", False):
        return v
    if atleast is not None and atleast > lo:
        lo = atleast
    while lo < hi:
        mid = (lo + hi) // 2
        if v <= mid:
            hi = mid
        else:
            lo = mid + 1
    return lo


class _Sink:
    def write(self, s):
        return len(s)

    def flush(self):
        pass


@contextlib.contextmanager
def quiet_stderr():
    old = sys.stderr
    sys.stderr = _Sink()
    try:
        yield
    finally:
        sys.stderr = old


class Pipe:
    """one direction of an in-memory byte stream"""
    def __init__(self):
        self.buf = bytearray()
        self.closed = False     # writer closed: reader sees EOF once buf is drained
        self.total = 0          # bytes ever written


class SockDouble:
    """One end of an in-memory stream pair, with the subset of the socket API ioflo.aio.tcp uses.

    recv on an empty open pipe raises EAGAIN (non blocking socket); on an empty pipe whose
    writer closed it returns b'' (orderly shutdown).  send never blocks and never fails unless
    `sendlimit` (a callable -> int) says so.
    """
    def __init__(self, rx, tx, me, peer, sendlimit=None, recvlimit=None):
        self.rx, self.tx, self.me, self.peer = rx, tx, me, peer
        self.sendlimit = sendlimit
        self.recvlimit = recvlimit
        self.closed = False
        self.shut = False

    def setblocking(self, flag):
        pass

    def getsockname(self):
        return self.me

    def getpeername(self):
        return self.peer

    def getsockopt(self, *pa):
        return 1 << 20

    def setsockopt(self, *pa):
        pass

    def shutdown(self, how):
        self.shut = True

    def close(self):
        self.closed = True
        self.tx.closed = True

    def send(self, data):
        if self.closed:
            raise socket.error(errno.EBADF, "bad file descriptor")
        n = len(data)
        if self.sendlimit is not None:
            n = min(n, self.sendlimit())
            if n == 0 and len(data):
                raise socket.error(errno.EAGAIN, "again")
        self.tx.buf.extend(data[:n])
        self.tx.total += n
        return n

    def recv(self, bufsize):
        if self.closed:
            raise socket.error(errno.EBADF, "bad file descriptor")
        if not self.rx.buf:
            if self.rx.closed:
                return b""
            raise socket.error(errno.EAGAIN, "again")
        n = min(len(self.rx.buf), bufsize)
        if self.recvlimit is not None:
            n = min(n, max(1, self.recvlimit()))
        data = bytes(self.rx.buf[:n])
        del self.rx.buf[:n]
        return data


class ListenDouble:
    def __init__(self):
        self.pending = []
        self.closed = False

    def accept(self):
        if not self.pending:
            raise socket.error(errno.EAGAIN, "again")
        return self.pending.pop(0)

    def shutdown(self, how):
        pass

    def close(self):
        self.closed = True

    def getsockopt(self, *pa):
        return 1 << 20


class Peer:
    """the harness' view of the far end of one connection"""
    def __init__(self, ca, ha):
        self.ca, self.ha = ca, ha
        self.out = Pipe()       # bytes this peer sends (the ioflo side receives them)
        self.inn = Pipe()       # bytes the ioflo side sent to this peer
        self.near = SockDouble(rx=self.out, tx=self.inn, me=ha, peer=ca)   # handed to ioflo

    def send(self, data):
        self.out.buf.extend(data)
        self.out.total += len(data)

    def shut(self):
        """peer closes its sending direction (ioflo side will read EOF)"""
        self.out.closed = True

    def received(self):
        return bytes(self.inn.buf)

    @property
    def closed_by_far(self):
        """True once the ioflo side closed its socket for this connection"""
        return self.near.closed


SERVER_HA = ("127.0.0.1", 8080)


def make_valet(app, store=None, timeout=0.0, reqs=None, reps=None):
    """A real Valet whose listening socket is a ListenDouble (already 'opened')."""
    from ioflo.base import storing
    from ioflo.aio.http import serving
    store = store if store is not None else storing.Store(stamp=0.0)
    valet = serving.Valet(store=store, app=app, ha=SERVER_HA, timeout=timeout, reqs=reqs, reps=reps)
    valet.servant.ss = ListenDouble()
    valet.servant.opened = True
    return valet


def connect(valet, ca):
    """Queue a new client connection from address `ca` on the Valet's listen double."""
    peer = Peer(ca=ca, ha=valet.servant.ha)
    valet.servant.ss.pending.append((peer.near, ca))
    return peer


def make_patron(store=None, **kwa):
    """A real Patron whose connector socket is a SockDouble; returns (patron, peer) where
    peer.send() feeds response bytes and peer.received() shows the request bytes."""
    from ioflo.base import storing
    from ioflo.aio.http import clienting
    store = store if store is not None else storing.Store(stamp=0.0)
    patron = clienting.Patron(store=store, hostname=SERVER_HA[0], port=SERVER_HA[1],
                              reconnectable=False, **kwa)
    ca = ("127.0.0.1", 50000)
    peer = Peer(ca=SERVER_HA, ha=ca)     # from the client's view the far side is the server
    patron.connector.cs = peer.near
    patron.connector._accepted = True
    patron.connector.opened = True
    patron.connector.ca = ca
    return patron, peer


_EXC_FAMILIES = (ValueError, TypeError, KeyError, IndexError, AttributeError, RuntimeError,
                 AssertionError, OSError)


def raise_site(ex):
    """Stable label for an exception that escaped ioflo code: '<Family>-in-<function>', where
    function is the innermost frame of ioflo's http package in the traceback (else the innermost
    ioflo frame); line numbers and messages are not used.  A RuntimeError that wraps a
    StopIteration (PEP 479) is attributed to the generator that leaked the StopIteration."""
    fam = type(ex).__name__
    for f in _EXC_FAMILIES:
        if isinstance(ex, f):
            fam = f.__name__
            break
    src = ex
    if isinstance(ex, RuntimeError) and isinstance(ex.__cause__, StopIteration) and ex.__cause__.__traceback__:
        src = ex.__cause__
    http = anyio = None
    tb = src.__traceback__
    while tb is not None:
        code = tb.tb_frame.f_code
        parts = code.co_filename.replace("\\", "/").split("/")
        if "ioflo" in parts:
            anyio = code.co_name
            if "http" in parts:
                http = code.co_name
        tb = tb.tb_next
    return "%s-in-%s" % (fam, http or anyio or "unknown")


def exc_text(ex):
    return ("%s: %s" % (type(ex).__name__, ex))[:200]
