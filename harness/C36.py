"""C36 -- TCP server / client stacks deliver every queued packet to the peer intact (E1).

`socket` inside ioflo.aio.tcp.serving and ioflo.aio.tcp.clienting is replaced by the
in-memory network of engine/doubles_aio.py (listening sockets, connect_ex, stream
pairs with per-call transfer limits).  Three families of obligations, so that the
stacks are also exercised one at a time:

  client/tx, client/rx   real TcpClientStack; the harness is the far end of the pair
  server/tx, server/rx   real TcpServerStack; the harness is the connecting peer
  pair/*                 real TcpClientStack <-> real TcpServerStack, both directions

Symbolic: packet sizes, the number of bytes each send / recv may move in each
service step (0 = would-block), the sizes of the chunks in which the harness peer
delivers its byte stream, the interleaving of client and server service calls.
After the schedule both sides are serviced a fixed number of times without limits.

Oracle: the bytes that arrived at the far end == the concatenation of the queued
packets' `.packed` in queue order; the packets appended to `.rxPkts` carry, in
order and exactly once, the bytes that were sent to the stack (with the framed
packet double: rx packets == tx packets).
"""
from collections import deque

from engine import Ob
from engine import doubles_aio as D
from ioflo.aio.tcp import clienting, serving
from ioflo.aio.proto import stacking, packeting, devicing

PROPERTY = "C36"
ENGINE = "E1"
LEVEL_TEXT = "bounded model checking of packet transfer over an in-memory socket pair with symbolic partial transfers"
TECHNIQUE = "E1 symx: symbolic transfer limits / split offsets / interleavings; real stacks over socket-pair doubles"
FUNCTIONS = [
    "ioflo.aio.proto.stacking.TcpServerStack.serviceAll", "TcpServerStack.serviceConnects",
    "TcpServerStack._serviceOneTxPkt", "TcpServerStack._serviceOneReceived", "TcpServerStack.serviceReceives",
    "ioflo.aio.proto.stacking.TcpClientStack.serviceAll", "TcpClientStack.serviceConnect",
    "TcpClientStack._serviceOneTxPkt", "TcpClientStack.serviceTxPkts", "TcpClientStack._serviceOneReceived",
    "TcpClientStack.serviceReceives", "ClientStreamStack.parserize", "Stack.parserize", "Stack.transmit",
    "RemoteStack.transmit", "Stack.serviceTxPkts", "RemoteStack._serviceOneRxPkt",
    "ioflo.aio.tcp.serving.Server.serviceConnects", "Server.transmitIx", "Server.serviceReceivesAllIx",
    "Server.serviceTxesAllIx", "Incomer.serviceTxes", "Incomer.serviceReceives",
    "ioflo.aio.tcp.clienting.Client.serviceConnect", "Client.send", "Client.receive",
]
ASSUMPTIONS = [
    "serving.socket and clienting.socket are replaced by engine/doubles_aio.py MemNet (in-memory listening sockets, "
    "connect_ex that succeeds at once, stream pairs); real loopback sockets are outside",
    "per service step one symbolic limit in [0,3] (3 = unlimited) bounds the bytes moved by each send and recv of "
    "the stack's own sockets; 0 on send = would-block; recv always yields >= 1 byte when data is pending",
    "packet payloads are pairwise distinct ASCII bytes; 'raw' mode uses ioflo's base Packet (parse consumes the whole "
    "buffer: only the concatenation of rx packets is compared); 'framed' mode makes stacking's parserize build a "
    "fixed-size (4 byte) subclass whose parse raises ValueError on a short buffer, the convention "
    "TcpServerStack._serviceOneReceived documents ('not enough for packet')",
    "server/* obligations pre-register the peer's IpRemoteDevice (its address is known to the harness); pair/* "
    "lets TcpServerStack.serviceConnects create it",
    "packets are queued once the connection is established; after the symbolic schedule each side is serviced "
    "DRAIN more times without limits; the peer never closes",
    "time does not advance (connection timers never expire)",
]

SHA = ("127.0.0.1", 9000)
DRAIN = 3
_BasePacket = packeting.Packet


class Framed(_BasePacket):
    """fixed-size packet double (4 bytes)"""
    Size = 4

    def parse(self, raw):
        if len(raw) < self.Size:
            raise ValueError("Not enough raw data for packet. Need {0} bytes, got {1} bytes.".format(self.Size, len(raw)))
        self.packed = bytearray(raw[:self.Size])
        return self.size


class RecDeque(deque):
    """deque that remembers everything ever appended (observation of .rxPkts)"""
    def __init__(self, *pa):
        deque.__init__(self, *pa)
        self.seen = []

    def append(self, x):
        self.seen.append(x)
        deque.append(self, x)

    def appendleft(self, x):
        self.seen.insert(0, x)
        deque.appendleft(self, x)


class PacketingShim(object):
    """stands in for the `packeting` module inside stacking: same names, Packet replaced by the framed double
    (assigning packeting.Packet itself would break the super(Packet, self) calls inside packeting)"""
    Packet = Framed

    def __getattr__(self, name):
        return getattr(packeting, name)


def setup(mode):
    stacking.packeting = PacketingShim() if mode == "framed" else packeting
    net = D.MemNet()
    serving.socket = net.module
    clienting.socket = net.module
    cur = dict(lim=None)
    net.limiter = lambda sock, op, n: cur["lim"] if getattr(sock, "limited", False) else None
    return net, cur


def make_packets(sym, stack, mode, tag, maxn, base, maxlen=3):
    """<= maxn packets with distinct ASCII payloads; raw: symbolic sizes 1..3, framed: 4 bytes"""
    n = sym.int("n" + tag, 1, maxn)
    out = []
    for i in range(maxn):
        if i >= n:
            break
        body = bytes(range(base + 4 * i, base + 4 * i + 4))
        if mode == "raw":
            body = body[:sym.int("len%s%d" % (tag, i), 1, maxlen)]
        out.append((Framed if mode == "framed" else packeting.Packet)(stack=stack, packed=body))
    return out


def set_limit(sym, cur, k, lims):
    # realised at once: the limit ends up as a slice bound in the socket double anyway
    cur["lim"] = lims[sym.realize(sym.int("lim%d" % k, 0, len(lims) - 1))]


def payloads(seen):
    return [bytes(x[0].packed if isinstance(x, tuple) else x.packed) for x in seen]


def check_rx(sym, key, mode, seen, sent, what):
    got = payloads(seen)
    want = [bytes(p) for p in sent]
    if mode == "framed":
        sym.check(got == want, key + "received-packets-differ-from-sent",
                  "%s sent=%r rx packets=%r" % (what, want, got))
    else:
        sym.check(b"".join(got) == b"".join(want), key + "received-bytes-not-in-exactly-one-packet-in-order",
                  "%s sent=%r rx packets=%r" % (what, want, got))


def new_client(net, clock):
    st = stacking.TcpClientStack(ha=SHA, stamper=clock, bufsize=64, rxPkts=RecDeque())
    return st


def new_server(clock):
    return stacking.TcpServerStack(ha=SHA, stamper=clock, bufsize=64, rxPkts=RecDeque())


def h_client(sym, mode, op, P, K, lims, maxlen):
    key = "C36/client/%s/" % op
    net, cur = setup(mode)
    lst = net.socket()
    lst.bind(SHA)
    lst.listen(5)
    st = new_client(net, D.Clock(0))
    st.serviceAll()
    sym.check(st.handler.connected and lst.pending, key + "not-connected")
    far = lst.accept()[0]
    st.handler.cs.limited = True
    if op == "tx":
        pkts = make_packets(sym, st, mode, "c", P, 0x41, maxlen)
        for p in pkts:
            st.transmit(p)
        for k in range(K):
            set_limit(sym, cur, k, lims)
            st.serviceAll()
        cur["lim"] = None
        for k in range(DRAIN):
            st.serviceAll()
        want = b"".join(bytes(p.packed) for p in pkts)
        sym.check(bytes(far.rx.total) == want, key + "peer-did-not-get-queued-bytes",
                  "queued=%r arrived=%r txbs=%r txPkts=%d" % (want, bytes(far.rx.total), bytes(st.txbs), len(st.txPkts)))
        if len(pkts) >= 2:
            sym.cover("multi-packet")
        return True
    # rx: the harness peer writes the packet stream in chunks of symbolic size
    pkts = make_packets(sym, st, mode, "s", P, 0x61, maxlen)
    stream = b"".join(bytes(p.packed) for p in pkts)
    pos = 0
    for k in range(K):
        left = len(stream) - pos
        n = sym.realize(sym.int("chunk%d" % k, 0, left)) if k < K - 1 else left
        if n:
            far.send(stream[pos:pos + n])
            pos += n
        set_limit(sym, cur, k, lims)
        st.serviceAll()
    cur["lim"] = None
    for k in range(DRAIN):
        st.serviceAll()
    check_rx(sym, key, mode, st.rxPkts.seen, [p.packed for p in pkts], "to client")
    if len(pkts) >= 2:
        sym.cover("multi-packet")
    return True


def h_server(sym, mode, op, P, K, lims, maxlen):
    key = "C36/server/%s/" % op
    net, cur = setup(mode)
    st = new_server(D.Clock(0))
    peer = net.socket()
    sym.check(peer.connect_ex(SHA) == 0, "C36/harness/peer-connect-failed")
    ca = peer.local
    st.addRemote(devicing.IpRemoteDevice(stack=st, ha=ca))
    st.serviceAll()
    sym.check(ca in st.handler.ixes, key + "connection-not-accepted")
    st.handler.ixes[ca].cs.limited = True
    if op == "tx":
        pkts = make_packets(sym, st, mode, "s", P, 0x61, maxlen)
        for p in pkts:
            st.transmit(p, ha=ca)
        for k in range(K):
            set_limit(sym, cur, k, lims)
            st.serviceAll()
        cur["lim"] = None
        for k in range(DRAIN):
            st.serviceAll()
        want = b"".join(bytes(p.packed) for p in pkts)
        sym.check(bytes(peer.rx.total) == want, key + "peer-did-not-get-queued-bytes",
                  "queued=%r arrived=%r" % (want, bytes(peer.rx.total)))
        if len(pkts) >= 2:
            sym.cover("multi-packet")
        return True
    pkts = make_packets(sym, st, mode, "c", P, 0x41, maxlen)
    stream = b"".join(bytes(p.packed) for p in pkts)
    pos = 0
    for k in range(K):
        left = len(stream) - pos
        n = sym.realize(sym.int("chunk%d" % k, 0, left)) if k < K - 1 else left
        if n:
            peer.send(stream[pos:pos + n])
            pos += n
        set_limit(sym, cur, k, lims)
        st.serviceAll()
    cur["lim"] = None
    for k in range(DRAIN):
        st.serviceAll()
    seen = st.rxPkts.seen
    check_rx(sym, key, mode, seen, [p.packed for p in pkts], "to server")
    if len(pkts) >= 2:
        sym.cover("multi-packet")
    return True


def h_pair(sym, mode, P, K, lims, maxlen):
    key = "C36/pair/"
    net, cur = setup(mode)
    clock = D.Clock(0)
    srv = new_server(clock)
    cli = new_client(net, clock)
    for j in range(3):
        cli.serviceAll()
        srv.serviceAll()
    sym.check(cli.handler.connected, key + "client-not-connected")
    ca = cli.handler.ca
    sym.check(ca in srv.handler.ixes, key + "connection-not-accepted")
    cli.handler.cs.limited = True
    srv.handler.ixes[ca].cs.limited = True
    cp = make_packets(sym, cli, mode, "c", P, 0x41, maxlen)
    sp = make_packets(sym, srv, mode, "s", P, 0x61, maxlen)
    for p in cp:
        cli.transmit(p)
    for p in sp:
        srv.transmit(p, ha=ca)
    for k in range(K):
        set_limit(sym, cur, k, lims)
        if sym.flag("who%d" % k):
            srv.serviceAll()
        else:
            cli.serviceAll()
    cur["lim"] = None
    for k in range(DRAIN):
        cli.serviceAll()
        srv.serviceAll()
    ix = srv.handler.ixes[ca]
    sym.check(bytes(ix.cs.rx.total) == b"".join(bytes(p.packed) for p in cp), key + "server-did-not-get-queued-bytes")
    sym.check(bytes(cli.handler.cs.rx.total) == b"".join(bytes(p.packed) for p in sp),
              key + "client-did-not-get-queued-bytes")
    check_rx(sym, key + "to-server/", mode, srv.rxPkts.seen, [p.packed for p in cp], "to server")
    check_rx(sym, key + "to-client/", mode, cli.rxPkts.seen, [p.packed for p in sp], "to client")
    if len(cp) >= 2 and len(sp) >= 2:
        sym.cover("multi-packet")
    return True


def obligations(tier):
    quick = tier == "quick"
    P = 2
    K = 3
    lims = [0, 1, None] if quick else [0, 1, 2, None]
    maxlen = 2 if quick else 3
    out = []
    for mode in ("raw", "framed"):
        b = dict(packets_per_direction="1..%d (symbolic)" % P, schedule_steps=K, drain_calls=DRAIN,
                 transfer_limit="%s bytes per send/recv, one symbolic choice per step (None = unlimited)" % (lims,),
                 packet_size="1..%d (symbolic)" % maxlen if mode == "raw" else "4 (framed double)")
        kw = dict(mode=mode, P=P, K=K, lims=lims, maxlen=maxlen)
        for op in ("tx", "rx"):
            b2 = dict(b, peer_chunks="symbolic split of the stream into %d chunks" % K) if op == "rx" else b
            out.append(Ob("client/%s/%s" % (op, mode), h_client, dict(kw, op=op),
                          budget=400 if quick else 3600, covers=["multi-packet"], bounds=b2))
            # no cover label on shards in which every path fails on the unchanged tree (a label only counts on
            # confirmed paths); packet counts 1..P are symbolic, so multi-packet paths exist by construction
            out.append(Ob("server/%s/%s" % (op, mode), h_server, dict(kw, op=op),
                          budget=400 if quick else 3600, covers=["multi-packet"] if op == "rx" else [], bounds=b2))
        pk = 2 if quick else 3
        plims = [0, 1, None]
        out.append(Ob("pair/%s" % mode, h_pair, dict(mode=mode, P=P, K=pk, lims=plims, maxlen=2),
                      budget=600 if quick else 3600,
                      bounds=dict(b, schedule_steps=pk, packet_size="1..2 (symbolic)" if mode == "raw" else "4 (framed double)",
                                  transfer_limit="%s per step" % (plims,),
                                  interleaving="client | server service call per step (selector)")))
    return out
