"""C44 -- point-in-polygon predicates agree with exact geometry (engine E2, source -> SMT).

`wind / inside / insideOnly / outside / outsideOnly / sideOnly` (with tween2, sub, dot, mag2,
trip, cw/ccw inlined) of `ioflo.aid.vectoring` are translated from source on every run.  The
polygon is CONCRETE -- every simple polygon (every vertex order, start and orientation; straight
180-degree vertices allowed) with 3 and 4 vertices on the 3x3 integer grid (quick), plus 5
vertices on 3x3 and 3 / 4 vertices on the 4x4 grid (thorough) -- and the query point is an
UNBOUNDED SYMBOLIC INTEGER PAIR (thorough also: a symbolic real pair on the 3x3 polygons).

Oracle (independent of ray casting / winding): the polygon is triangulated concretely by ear
clipping; the closed region is the union of the closed triangles, the boundary the union of
the closed edge segments, the strict interior their difference.  One query per polygon:
   wind == 0            <=> not strictly inside
   inside(side=True)    <=> closed region         inside(side=False), insideOnly <=> strict interior
   outside(side=True)   <=> not strictly inside   outside(side=False), outsideOnly <=> not in closed region
   sideOnly             <=> on the boundary
The triangulation oracle itself is cross-checked on every polygon against an exact
crossing-number computation with rational arithmetic on a grid of points (harness error on
disagreement).  Both polygon and point symbolic is declined (DESIGN: unknown after 90 s).

Float arithmetic in the predicates (big/fp obligations): the exact model is blind to IEEE rounding
(a collinearity test through a float scale factor is exact over Real and wrong in doubles from
coordinates of about 11..15 on).  26 scaled-up concrete polygons (edges 15..40) are therefore
checked with integers as bit-vectors and every `/`, float product and float() in FP(11,53), the
point bounded to the bounding box +-2; if z3 gives up the real predicates are run on every integer
point of the box.  Grid obligations whose translation contains float operations are INCONCLUSIVE.
"""
import itertools
from fractions import Fraction

import z3

from engine import Ob
from engine import astsmt as A
from ioflo.aid import vectoring as V

PROPERTY = "C44"
ENGINE = "E2"
TECHNIQUE = "source->SMT translation (linear integer / real arithmetic), polygons enumerated, point symbolic"
LEVEL_TEXT = "source->SMT, linear arithmetic: every simple polygon (all vertex orders) with 3-4 vertices on the 3x3 grid (quick), plus 5 vertices on 3x3 and 3-4 vertices on 4x4 (thorough: 29 400 polygons), query point an unbounded symbolic integer (thorough also real) pair; eight predicates per polygon against an ear-clipping oracle; every query unsat"
LEVEL_NOTE = "polygons concrete, point symbolic (both symbolic is nonlinear and was measured unknown); the oracle is cross-checked per polygon against an exact crossing-number computation; trusted: astsmt translator (validated each run incl. the repo test polygons), z3 5.1"
FUNCTIONS = ["ioflo.aid.vectoring." + n for n in ("wind", "inside", "insideOnly", "outside", "outsideOnly", "sideOnly",
                                                    "tween2", "sub", "dot", "mag2", "trip", "cw", "ccw")]
ASSUMPTIONS = [
    "polygons are concrete: all simple polygons (every vertex order / start / orientation, 180-degree vertices allowed) "
    "with 3, 4 vertices on the 3x3 grid (quick); plus 5 vertices on 3x3 and 3, 4 vertices on the 4x4 grid (thorough)",
    "the query point is an unbounded symbolic pair of integers (thorough: also of reals on the 3x3 polygons)",
    "grid obligations: exact Int/Real arithmetic (the code as it stands uses only + - * and comparisons on the integer "
    "coordinates, which is exact in python); if a translated predicate contains int / int or float() the exact model is "
    "not faithful and the obligation is reported INCONCLUSIVE",
    "big/fp obligations: 26 concrete polygons with edges of length 15..40, the integer point bounded to the bounding box "
    "+-2, integers as 16-bit bit-vectors, `/`, float products and float() with IEEE double semantics (FP(11,53)); when "
    "the solver answers unknown the real predicates are run on every integer point of the box (stated fallback)",
    "a translator-validation disagreement at a point where the real predicates contradict exact geometry is reported as "
    "a violation (replayed), not as a harness error",
    "the sign of a non-zero winding number (orientation) is not part of the statement and not checked",
    "polygon and point both symbolic, and the quantifier's 'random larger polygons', are declined (nonlinear; measured unknown)",
]

KEY = "C44/%s/disagrees-with-exact-geometry"


# ----------------------------------------------------------------------------- concrete exact geometry

def orient(a, b, c):
    return (b[0] - a[0]) * (c[1] - a[1]) - (b[1] - a[1]) * (c[0] - a[0])


def onseg(p, a, b):
    return orient(a, b, p) == 0 and min(a[0], b[0]) <= p[0] <= max(a[0], b[0]) and min(a[1], b[1]) <= p[1] <= max(a[1], b[1])


def sgn(x):
    return (x > 0) - (x < 0)


def segs_touch(a, b, c, d):
    o1, o2, o3, o4 = sgn(orient(a, b, c)), sgn(orient(a, b, d)), sgn(orient(c, d, a)), sgn(orient(c, d, b))
    if o1 != o2 and o3 != o4:
        return True
    return onseg(c, a, b) or onseg(d, a, b) or onseg(a, c, d) or onseg(b, c, d)


def simple(vs):
    n = len(vs)
    if len(set(vs)) != n:
        return False
    for i in range(n):
        a, b, c = vs[i - 1], vs[i], vs[(i + 1) % n]
        if onseg(c, a, b) or onseg(a, b, c):          # adjacent edges overlap (fold back)
            return False
    for i in range(n):
        for j in range(i + 1, n):
            if j == i + 1 or (i == 0 and j == n - 1):
                continue
            if segs_touch(vs[i], vs[(i + 1) % n], vs[j], vs[(j + 1) % n]):
                return False
    return sum(vs[i][0] * vs[(i + 1) % n][1] - vs[(i + 1) % n][0] * vs[i][1] for i in range(n)) != 0


def triangulate(vs):
    """ear clipping of a simple polygon; returns counter-clockwise triangles covering its closed region"""
    n = len(vs)
    area2 = sum(vs[i][0] * vs[(i + 1) % n][1] - vs[(i + 1) % n][0] * vs[i][1] for i in range(n))
    P = list(vs) if area2 > 0 else list(reversed(vs))
    P = [P[i] for i in range(len(P)) if orient(P[i - 1], P[i], P[(i + 1) % len(P)]) != 0]   # drop straight vertices
    tris = []
    while len(P) > 3:
        m = len(P)
        for i in range(m):
            a, b, c = P[i - 1], P[i], P[(i + 1) % m]
            if orient(a, b, c) <= 0:
                continue
            if any(q not in (a, b, c) and orient(a, b, q) >= 0 and orient(b, c, q) >= 0 and orient(c, a, q) >= 0 for q in P):
                continue
            tris.append((a, b, c))
            del P[i]
            P = [P[j] for j in range(len(P)) if orient(P[j - 1], P[j], P[(j + 1) % len(P)]) != 0]
            break
        else:
            raise AssertionError("no ear found in %r" % (vs,))
    if len(P) == 3:
        tris.append(tuple(P))
    return tris


def classify(p, vs, tris=None):
    """exact position of p: 'in' (strictly inside), 'on' (boundary), 'out'"""
    n = len(vs)
    if any(onseg(p, vs[i], vs[(i + 1) % n]) for i in range(n)):
        return "on"
    tris = tris if tris is not None else triangulate(vs)
    if any(orient(a, b, p) >= 0 and orient(b, c, p) >= 0 and orient(c, a, p) >= 0 for a, b, c in tris):
        return "in"
    return "out"


def classify_crossing(p, vs):
    """independent exact check (rational crossing number with a ray in direction (+1, 0) perturbed upward)"""
    n = len(vs)
    if any(onseg(p, vs[i], vs[(i + 1) % n]) for i in range(n)):
        return "on"
    cnt = 0
    for i in range(n):
        (x1, y1), (x2, y2) = vs[i], vs[(i + 1) % n]
        if (y1 > p[1]) != (y2 > p[1]):
            x = Fraction(x1) + Fraction((p[1] - y1) * (x2 - x1), (y2 - y1))
            if x > p[0]:
                cnt += 1
    return "in" if cnt % 2 else "out"


def expected(p, vs):
    """the eight predicates according to exact geometry"""
    c = classify(p, vs)
    strict, closed, on = c == "in", c != "out", c == "on"
    return dict(wind_zero=not strict, inside_T=closed, inside_F=strict, insideOnly=strict,
                outside_T=not strict, outside_F=not closed, outsideOnly=not closed, sideOnly=on)


def actual(p, vs):
    return dict(wind_zero=V.wind(p, vs) == 0, inside_T=V.inside(p, vs, True), inside_F=V.inside(p, vs, False),
                insideOnly=V.insideOnly(p, vs), outside_T=V.outside(p, vs, True), outside_F=V.outside(p, vs, False),
                outsideOnly=V.outsideOnly(p, vs), sideOnly=V.sideOnly(p, vs))


FN_OF = dict(wind_zero="wind", inside_T="inside", inside_F="inside", insideOnly="insideOnly", outside_T="outside",
             outside_F="outside", outsideOnly="outsideOnly", sideOnly="sideOnly")


def replay(vals, params):
    v = A.unjson(vals)
    vs = tuple(tuple(q) for q in v["vs"])
    p = tuple(v["p"])
    try:
        got = actual(p, vs)
    except Exception as e:
        return ("fail", "C44/raises", "point %r polygon %r: %r" % (p, vs, e))
    exp = expected(p, vs)
    for k in exp:
        if bool(got[k]) != exp[k]:
            return ("fail", KEY % FN_OF[k], "polygon %r point %r is %s: %s gives %r, exact geometry %r (all: %r)"
                    % (vs, p, {"in": "strictly inside", "on": "on the boundary", "out": "outside"}[classify(p, vs)],
                       k, got[k], exp[k], {x: bool(y) for x, y in got.items()}))
    return ("pass", None, "")


# ----------------------------------------------------------------------------- symbolic side

def polygons(grid, n):
    pts = [(x, y) for x in range(grid) for y in range(grid)]
    return [vs for vs in itertools.permutations(pts, n) if simple(vs)]


def z_orient(a, b, p):
    return (b[0] - a[0]) * (p[1] - a[1]) - (b[1] - a[1]) * (p[0] - a[0])


def z_onseg(p, a, b):
    return z3.And(z_orient(a, b, p) == 0, p[0] >= min(a[0], b[0]), p[0] <= max(a[0], b[0]),
                  p[1] >= min(a[1], b[1]), p[1] <= max(a[1], b[1]))


def as_bool(v):
    return v if A.is_sym(v) else z3.BoolVal(bool(v))


def check_polygon(sess, vs, p, num, selfcheck, box=None):
    """box = (xlo, xhi, ylo, yhi): the 'big' obligations -- bit-vector integers, `/` and float products in
    FP(11,53), the point bounded to the box; else the exact Int/Real model with an unbounded point"""
    n = len(vs)
    tris = triangulate(vs)
    if selfcheck:
        g = max(max(q) for q in vs) + 1
        for q in itertools.product(range(-1, g + 1), repeat=2) if box is None else \
                itertools.product(range(box[0], box[1] + 1, 3), range(box[2], box[3] + 1, 3)):
            if classify(q, vs, tris) != classify_crossing(q, vs):
                raise A.TranslationMismatch("harness oracle self-check: polygon %r point %r: triangulation says %s, "
                                            "crossing number says %s" % (vs, q, classify(q, vs, tris), classify_crossing(q, vs)))
        sess.res["validated"] += 1
    tvs = tuple(tuple(q) for q in vs)
    # one interpreter per polygon: pure sub-calls are memoised across the predicates
    one = sess.interp(num=num) if box is None else sess.interp(num="bv", bvw=BVW, int_truediv_fp=True)

    def tr(fn, *args, **kw):
        res = one.call(fn, [p, tvs] + list(args), kw)
        return res, one

    res = {}
    interps = []
    for name, fn, args in (("wind", V.wind, ()), ("inside_T", V.inside, (True,)), ("inside_F", V.inside, (False,)),
                           ("insideOnly", V.insideOnly, ()), ("outside_T", V.outside, (True,)),
                           ("outside_F", V.outside, (False,)), ("outsideOnly", V.outsideOnly, ()),
                           ("sideOnly", V.sideOnly, ())):
        res[name], I = tr(fn, *args)
        interps.append(I)
    w = res["wind"]
    wz = (w == 0) if A.is_sym(w) else z3.BoolVal(w == 0)
    on = z3.Or([z_onseg(p, vs[i], vs[(i + 1) % n]) for i in range(n)])
    closed = z3.Or([z3.And(z_orient(a, b, p) >= 0, z_orient(b, c, p) >= 0, z_orient(c, a, p) >= 0) for a, b, c in tris])
    strict = z3.And(closed, z3.Not(on))
    claim = z3.And(wz == z3.Not(strict),
                   as_bool(res["inside_T"]) == closed, as_bool(res["inside_F"]) == strict,
                   as_bool(res["insideOnly"]) == strict,
                   as_bool(res["outside_T"]) == z3.Not(strict), as_bool(res["outside_F"]) == z3.Not(closed),
                   as_bool(res["outsideOnly"]) == z3.Not(closed), as_bool(res["sideOnly"]) == on)
    wrong = as_bool(res["inside_T"]) == strict        # boundary flag ignored: refuted by any boundary point
    side, defs = [], []
    for I in interps[:1]:
        side += I.side
        defs += I.defs
        sess.absorb(I)

    def vals(m):
        return dict(vs=[list(q) for q in vs], p=[A.model_value(m, p[0]), A.model_value(m, p[1])])

    def detail(m, v):
        r = replay(v, None)
        return r[2]

    if box is None:
        if one.float_ops:
            # int / int or float() in the predicates: python computes IEEE doubles there, the exact model is
            # not faithful (a collinearity test by a float scale factor is exact in Real arithmetic and wrong
            # in doubles) -> this obligation cannot vouch for the real code; the 'big' obligations decide
            sess.res["paths"] += 1
            sess.inconclusive("the predicates use float arithmetic (%d int/int divisions or float() calls): the exact "
                              "Int/Real model is not faithful for polygon %r; see the big/fp obligations" % (one.float_ops, vs))
            return res, interps
        sess.prove(KEY % "polygon", claim, defs=defs, side=side, wrong=wrong, vals=vals, detail=detail, what="polygon %r" % (vs,))
        return res, interps
    assume = [p[0] >= box[0], p[0] <= box[1], p[1] >= box[2], p[1] <= box[3]]

    def exhaustive():
        """stated fallback when the solver gives up on the FP query: run the REAL predicates on every
        integer point of the box (decisive for this bounded box)"""
        for q in itertools.product(range(box[0], box[1] + 1), range(box[2], box[3] + 1)):
            v = dict(vs=[list(x) for x in vs], p=list(q))
            r = replay(v, None)
            if r[0] == "fail":
                return ("sat", v, r[2])
        return ("unsat", "solver unknown on polygon %r: decided by running the real predicates on all %d integer points of the box"
                % (vs, (box[1] - box[0] + 1) * (box[3] - box[2] + 1)))

    sess.prove(KEY % "polygon", claim, assume=assume, defs=defs, side=side, wrong=wrong, vals=vals, detail=detail,
               what="polygon %r, point in box %r" % (vs, box), on_unknown=exhaustive)
    return res, interps


# the repo's own vectors (ioflo/aid/test/test_vectoring.py: testPointInPolygon)
REPO_POLYS = [((0, 0), (2, 0), (2, 2), (0, 2)), ((0, 0), (0, 2), (2, 2), (2, 0)),
              ((0, 0), (1, 1), (2, 0), (2, 2), (0, 2)), ((0, 0), (0, 2), (2, 2), (2, 0), (1, 1))]
REPO_POINTS = [(1, 1), (-1, -1), (2, 0), (1, 0), (0, 1), (1, 2), (3, 1)]


def validate(sess, num, polys, p):
    """translator validation: every translated predicate evaluated at concrete points vs the real function"""
    r = A.rng(sess.params, 44)
    sample = list(REPO_POLYS) + [polys[r.randrange(len(polys))] for _ in range(min(4, len(polys)))]
    for vs in sample:
        n = len(vs)
        pts = REPO_POINTS + [(r.randrange(-1, 4), r.randrange(-1, 4)) for _ in range(10)]
        if num == "real":
            pts = [(Fraction(x) + Fraction(r.randrange(0, 4), 4), Fraction(y) + Fraction(r.randrange(0, 3), 3)) for x, y in pts]
        for name, fn, args in (("wind", V.wind, ()), ("inside", V.inside, (True,)), ("inside", V.inside, (False,)),
                               ("outside", V.outside, (True,)), ("outside", V.outside, (False,)),
                               ("insideOnly", V.insideOnly, ()), ("outsideOnly", V.outsideOnly, ()), ("sideOnly", V.sideOnly, ())):
            I = sess.interp(num=num)
            res = I.call(fn, [p, list(vs)] + list(args))
            sess.absorb(I)
            validate_points(sess, "%s%r on %r" % (name, args, vs), res, I, p, pts, fn, vs, args)


def validate_points(sess, label, res, I, p, pts, fn, vs, args):
    """translator validation point by point.  If the translated term and the real function disagree at a
    point where the REAL predicates contradict exact geometry, it is the real code that is wrong there
    (e.g. float arithmetic the exact model does not see): reported as a violation candidate and replayed;
    only a disagreement with a geometrically correct real result is a harness error."""
    for pt in pts:
        try:
            sess.validate(label, [A.Path([], res, I)], list(p), [pt], lambda x, y: fn((x, y), vs, *args))
        except A.TranslationMismatch:
            v = dict(vs=[list(q) for q in vs], p=list(pt))
            r = replay(A.jsonable(v), None)
            if r[0] != "fail":
                raise
            sess.res["paths"] += 1
            sess.fail(r[1], v, r[2] + " (found by translator validation)")


BVW = 16      # coordinates <= 84, dot and cross products <= 2 * 86 * 80 < 2^15: no overflow (checked side conditions)


def big_polygons():
    """concrete polygons with edges of length 15..40 (squares, triangles, diamonds, one concave), both orientations"""
    out = []
    for L in (15, 17, 23, 31, 40):
        out.append(((0, 0), (L, 0), (L, L), (0, L)))
    for a, b in (((15, 0), (7, 19)), ((30, 0), (11, 25)), ((21, 0), (21, 35)), ((33, 9), (4, 27))):
        out.append(((0, 0), a, b))
    for L in (15, 20, 33):
        out.append(((L, 0), (2 * L, L), (L, 2 * L), (0, L)))
    out.append(((0, 0), (30, 0), (30, 30), (15, 11), (0, 30)))
    out += [tuple(reversed(vs)) for vs in out]
    assert all(simple(vs) for vs in out)
    return out


def ob_big(sess, params):
    """scaled-up polygons, bounded symbolic integer point, IEEE semantics for `/`, float products and float()"""
    polys = big_polygons()
    k, K = params["shard"], params["shards"]
    mine = [vs for i, vs in enumerate(polys) if i % K == k]
    p = (z3.BitVec("px", BVW), z3.BitVec("py", BVW))
    r = A.rng(sess.params, 441)
    done = 0
    for vs in mine:
        if sess.over_budget():
            sess.res["stopped"] = "budget"
            sess.inconclusive("budget exhausted after %d of %d polygons" % (done, len(mine)))
            return
        xs, ys = [q[0] for q in vs], [q[1] for q in vs]
        box = (min(xs) - 2, max(xs) + 2, min(ys) - 2, max(ys) + 2)
        res, interps = check_polygon(sess, vs, p, "bv", selfcheck=True, box=box)
        # translator validation of the bit-vector / FP terms on box points (edge points included)
        n = len(vs)
        pts = [vs[0], ((vs[0][0] + vs[1][0]) // 2, (vs[0][1] + vs[1][1]) // 2)] + \
              [(r.randrange(box[0], box[1] + 1), r.randrange(box[2], box[3] + 1)) for _ in range(6)] + \
              [(vs[i][0] + (vs[(i + 1) % n][0] - vs[i][0]) * t // 5, vs[i][1] + (vs[(i + 1) % n][1] - vs[i][1]) * t // 5)
               for i in range(n) for t in (1, 2, 4)]
        for name, fn, args in (("wind", V.wind, ()), ("inside_T", V.inside, (True,)), ("sideOnly", V.sideOnly, ()),
                               ("outside_F", V.outside, (False,))):
            validate_points(sess, "%s on %r (bv/fp)" % (name, vs), res[name], interps[0], p, pts, fn, vs, args)
        done += 1
    sess.res["extra"]["polygons"] = done


def ob_polys(sess, params):
    num = params["num"]
    p = (z3.Int("px"), z3.Int("py")) if num == "int" else (z3.Real("px"), z3.Real("py"))
    polys = polygons(params["grid"], params["n"])
    k, K = params["shard"], params["shards"]
    mine = [vs for i, vs in enumerate(polys) if i % K == k]
    validate(sess, num, polys, p)
    done = 0
    for vs in mine:
        if sess.over_budget():
            sess.res["stopped"] = "budget"
            sess.inconclusive("budget exhausted after %d of %d polygons" % (done, len(mine)))
            return
        check_polygon(sess, vs, p, num, selfcheck=True)
        done += 1
    sess.res["extra"]["polygons"] = done
    sess.res["extra"]["polygons_total_in_class"] = len(polys)


def obligations(tier):
    run = A.run_obligation(ob_polys, None, 30000)
    plan = [("g3/n3/int", 3, 3, "int", 4), ("g3/n4/int", 3, 4, "int", 12)]
    if tier == "thorough":
        plan = [("g3/n3/int", 3, 3, "int", 2), ("g3/n4/int", 3, 4, "int", 4), ("g3/n5/int", 3, 5, "int", 8),
                ("g4/n3/int", 4, 3, "int", 10), ("g4/n4/int", 4, 4, "int", 56),
                ("g3/n3/real", 3, 3, "real", 2), ("g3/n4/real", 3, 4, "real", 4), ("g3/n5/real", 3, 5, "real", 8)]
    obs = []
    KB = 8 if tier == "quick" else 12
    for k in range(KB):
        obs.append(Ob("big/fp/s%02dof%02d" % (k, KB), A.run_obligation(ob_big, "tactic:simplify>fpa2bv>qfbv", 25000), kind="e2",
                      params=dict(shard=k, shards=KB, xcheck=(tier == "thorough"), xcheck_max=2), replay=replay, budget=3000,
                      bounds=dict(polygons="26 concrete polygons with edges of length 15..40 (squares, triangles, diamonds, one concave; both orientations)",
                                  point="symbolic %d-bit integer pair bounded to the bounding box +-2" % BVW,
                                  arithmetic="ints as bit-vectors; int / int, float products and float() in FP(11,53)",
                                  fallback="solver unknown -> real predicates run on every integer point of the box")))
    for name, grid, n, num, K in plan:
        for k in range(K):
            obs.append(Ob("%s/s%02dof%02d" % (name, k, K), run, params=dict(grid=grid, n=n, num=num, shard=k, shards=K, xcheck=(tier == "thorough"), xcheck_max=2),
                          kind="e2", replay=replay, budget=3000,
                          bounds=dict(grid="%dx%d" % (grid, grid), vertices=n, polygons="all simple, every vertex order",
                                      point="unbounded symbolic %s pair" % ("integer" if num == "int" else "real"))))
    return obs
