"""C35 -- datagram stacks send each destination's packets once, in queue order (E1).

Real `GramStack` (constructed through its real __init__) over a handler double whose
`send` fails transiently under solver control.  Packets are queued with the stack's own
`transmit`; `serviceTxPkts` is called for P passes with symbolic failures, then for clean
passes until the queue is empty.

Failure models
* per-call : every call of handler.send has its own symbolic bool (a destination may fail
             after an earlier packet to it went out in the same pass)
* per-dest : one symbolic bool per (pass, destination): the destination refuses during
             that whole pass

Oracle (from the statement)
* at-most-once   no packet is handed to the socket double successfully twice;
* exactly-once   after the failing passes, clean passes drain the queue and every packet
                 has been sent exactly once;
* order          per destination, the successful sends occur in queue order;
* no-blocking    in every pass, each destination none of whose sends failed in that pass
                 gets all of its queued packets sent in that pass, whatever the other
                 destinations do.
"""
import errno
import socket

from engine import Ob
from engine import symx  # noqa: F401
from ioflo.aio.proto import stacking

PROPERTY = "C35"
ENGINE = "E1"
FUNCTIONS = ["ioflo.aio.proto.stacking.GramStack.serviceTxPkts", "GramStack._serviceOneTxPkt",
             "GramStack.transmit", "Stack.__init__"]
TECHNIQUE = "E1: symbolic execution of the real GramStack.serviceTxPkts over a handler double with solver-controlled transient send failures"
LEVEL_TEXT = "bounded model checking: 3-4 packets / 2 failing passes (quick), 4-6 packets / 2-3 failing passes (thorough), 3 destinations, per-call and per-destination failure models"
LEVEL_NOTE = "destinations selector-symbolic up to renaming (all labellings for 3 packets); failure decisions and initial queue length symbolic"
ASSUMPTIONS = [
    "handler is a double (opened, reopen, ha, send); a transient failure is socket.error(ECONNREFUSED) (errno classes are C25's subject)",
    "packets are doubles with pack() and a one-byte .packed; destinations are small integers used as opaque addresses",
    "destinations are selector-symbolic (the log line of _serviceOneTxPkt formats the address, which realises it); "
    "failure decisions and the number of packets queued before the first pass are genuinely symbolic",
    "canonical destination labelling in the 'canon' shards: packet 0 goes to destination 0 and packet i to a destination <= 1 + max of the "
    "earlier ones (every partition of the packets over <= 3 destinations up to renaming); the 'full' shards enumerate all labellings for 3 packets",
    "packets not queued before the first pass are queued (in order) after it",
    "no-blocking is asserted per pass for destinations with no failed send in that pass",
    "exactly-once: the queue must be empty after as many clean passes as there are packets",
]


class TransientError(socket.error):
    pass


class Pkt:
    def __init__(self, i):
        self.i = i
        self.packed = bytes([65 + i])

    def pack(self):
        return self.packed


class Handler:
    opened = True
    ha = ("127.0.0.1", 9)

    def __init__(self):
        self.sent = []        # (packet index, destination) of successful sends, in order
        self.decide = None    # callable(dest) -> True if this send fails
        self.failed = []      # destinations with a failed send in the current pass

    def reopen(self):
        return True

    def send(self, data, ha):
        if self.decide is not None and self.decide(ha):
            self.failed.append(ha)
            raise TransientError(errno.ECONNREFUSED, "refused")
        self.sent.append((data[0] - 65, ha))
        return len(data)


def h(sym, NP, P, model, labelling, prefix):
    hd = Handler()
    st = stacking.GramStack(name="s", handler=hd, ha=("127.0.0.1", 9))
    # destinations (selectors)
    dests = []
    for i in range(NP):
        if i < len(prefix):
            d = prefix[i]
        elif labelling == "canon":
            d = sym.choice("d%d" % i, min(max(dests) + 2, 3) if dests else 1)
        else:
            d = sym.choice("d%d" % i, 3)
        dests.append(d)
    pkts = [Pkt(i) for i in range(NP)]
    n_init = sym.int("n_init", 1, NP)
    queued = 0
    while queued < NP and queued < n_init:
        st.transmit(pkts[queued], dests[queued])
        queued += 1
    sym.check(len(st.txPkts) == queued, "C35/transmit/not-queued")

    def run_pass(p, failing):
        calls = [0]
        perdest = {}

        def decide(ha):
            if not failing:
                return False
            if model == "call":
                k = calls[0]
                calls[0] += 1
                return sym.bool("f%d_%d" % (p, k))
            if ha not in perdest:
                perdest[ha] = sym.bool("f%d_d%d" % (p, ha))
            return perdest[ha]
        hd.decide = decide
        hd.failed = []
        sent_before = set(i for i, d in hd.sent)
        pending = [i for i in range(queued) if i not in sent_before]
        n0 = len(hd.sent)
        st.serviceTxPkts()
        now_sent = [i for i, d in hd.sent[n0:]]
        for i in pending:
            if dests[i] not in hd.failed and i not in now_sent:
                sym.fail("C35/blocked-by-other-destination",
                         "pass %d: packet %d to %d not sent although %d did not fail (failed: %r, dests %r)"
                         % (p, i, dests[i], dests[i], sorted(set(hd.failed)), dests))
        if hd.failed:
            sym.cover("some-destination-failed")
        if hd.failed and len(now_sent) > 0:
            sym.cover("failure-and-success-in-one-pass")

    def check_safety(where):
        ids = [i for i, d in hd.sent]
        sym.check(len(set(ids)) == len(ids), "C35/sent-twice", "%s: %r" % (where, hd.sent))
        for i, d in hd.sent:
            sym.check(d == dests[i], "C35/sent-to-wrong-destination", where)
        for d in (0, 1, 2):
            seq = [i for i, dd in hd.sent if dd == d]
            sym.check(seq == sorted(seq), "C35/same-destination-reordered",
                      "%s: destination %d got packets in order %r (dests %r)" % (where, d, seq, dests))
        rest = [pk.i for pk, d in st.txPkts]
        sym.check(sorted(ids + rest) == list(range(queued)), "C35/packet-lost-or-duplicated-in-queue",
                  "%s: sent %r queue %r" % (where, ids, rest))

    for p in range(P):
        run_pass(p, True)
        check_safety("after failing pass %d" % p)
        if p == 0:
            while queued < NP:
                st.transmit(pkts[queued], dests[queued])
                queued += 1
    for c in range(NP):
        if not st.txPkts:
            break
        run_pass(P + c, False)
        check_safety("after clean pass %d" % c)
    sym.check(not st.txPkts, "C35/not-drained-after-clean-passes", "queue %r" % [pk.i for pk, d in st.txPkts])
    sym.check(sorted(i for i, d in hd.sent) == list(range(NP)), "C35/not-exactly-once", repr(hd.sent))
    sym.cover("done")
    return True


def canon_prefixes(k):
    out = [[0]]
    for _ in range(k - 1):
        out = [p + [d] for p in out for d in range(min(max(p) + 2, 3))]
    return out


def obligations(tier):
    quick = tier == "quick"
    out = []
    covers = ["done", "some-destination-failed", "failure-and-success-in-one-pass"]

    def add(name, NP, P, model, labelling, prefix, budget):
        out.append(Ob(name, h, dict(NP=NP, P=P, model=model, labelling=labelling, prefix=prefix), hang_s=240, budget=budget,
                      covers=covers,
                      bounds=dict(packets=NP, destinations=3, failing_passes=P, failure_model=model,
                                  labelling=labelling, fixed_prefix=prefix, clean_passes="<= packets")))

    # all labellings, 3 packets, per-call failures
    for d0 in range(3):
        add("full/np3/p2/call/d%d" % d0, 3, 2, "call", "full", [d0], 200 if quick else 600)
    if quick:
        for pre in canon_prefixes(3):
            tag = "".join(str(x) for x in pre)
            add("canon/np4/p2/call/%s" % tag, 4, 2, "call", "canon", pre, 300)
            add("canon/np4/p2/dest/%s" % tag, 4, 2, "dest", "canon", pre, 300)
    else:
        for pre in canon_prefixes(3):
            tag = "".join(str(x) for x in pre)
            add("canon/np4/p3/call/%s" % tag, 4, 3, "call", "canon", pre, 900)
        for pre in canon_prefixes(4):
            tag = "".join(str(x) for x in pre)
            add("canon/np5/p2/call/%s" % tag, 5, 2, "call", "canon", pre, 900)
            add("canon/np6/p3/dest/%s" % tag, 6, 3, "dest", "canon", pre, 900)
    return out
