"""C43 -- angle wrapping stays in range and preserves the angle (engine E2, exact arithmetic).

`ioflo.aid.navigating.wrap1 / wrap2 / delta` are translated from source over `Real`; python's
floor modulo `a % b` becomes `a - b*q` with a fresh integer quotient q and the defining
inequalities (0 <= a-bq < b for b > 0, b < a-bq <= 0 for b < 0).  The wrap value is concrete
(one obligation per value of the grid), the angle -- and both headings for `delta` -- are
symbolic reals.

per wrap w != 0:   wrap1 in [0, w) resp. (w, 0]            angle unbounded
                   wrap2 in [-|w|, |w|]                    angle unbounded
                   delta(d, a, w) == wrap2(d - a, w)       d, a unbounded
                   wrap1(angle) - angle is a whole multiple of w       |angle| <= BOUND
                   wrap2(angle) - angle is a whole multiple of 2w      |angle| <= BOUND
w == 0:            wrap1, wrap2 return the angle, delta returns d - a  (unbounded)

The whole-turn clause needs integrality of a quotient; with an unbounded angle z3 does not
answer (DESIGN C43; re-measured: unknown at 60 s), so it is claimed for a bounded angle:
|angle| <= 1000 full turns (quick) / 5000 full turns (thorough) of |2w|, proved in chunks of 100 turns.
IEEE rounding of float `%` is outside the claim: the model is exact arithmetic.  A
counterexample is turned into a dyadic rational (10 fractional bits, |x| < 2^30) on which
float arithmetic is exact, and replayed on the real functions with floats.
"""
from fractions import Fraction

import z3

from engine import Ob
from engine import astsmt as A
from ioflo.aid import navigating as Nv

PROPERTY = "C43"
ENGINE = "E2"
TECHNIQUE = "source->SMT translation over Real, floor modulo by fresh integer quotients"
LEVEL_TEXT = "source->SMT over Real with fresh-quotient floor modulo: wrap concrete (17 grid values), angle symbolic; range / delta / wrap-0 clauses for unbounded angles, whole-turn clause for |angle| <= 1000 (quick) / 5000 (thorough) full turns"
LEVEL_NOTE = "exact-arithmetic model: IEEE rounding of float % is outside the claim; trusted: astsmt translator (validated on float-exact inputs every run), z3 5.1"
FUNCTIONS = ["ioflo.aid.navigating.wrap1", "ioflo.aid.navigating.wrap2", "ioflo.aid.navigating.delta"]
ASSUMPTIONS = [
    "exact (rational) arithmetic model: the float rounding of `%`, `-`, `*` is outside the claim",
    "wrap is concrete, from the grid {0, +-0.5, +-1, +-2, +-2.5, +-3, +-90, +-180, +-360}; a symbolic wrap is nonlinear and not attempted",
    "range, delta and wrap-0 obligations: angle(s) unbounded reals",
    "whole-turn obligations: |angle| <= 1000 * |2*wrap| (quick) / 5000 * |2*wrap| (thorough), in chunks of 100 full turns",
    "counterexamples are searched again as dyadic rationals (k/1024, |x| < 2^30) so that the float replay is exact; "
    "a counterexample that exists only at non-dyadic rationals would be reported inconclusive",
]

GRID = [0, 1, -1, 2, -2, 3, -3, 90, -90, 180, -180, 360, -360, 0.5, -0.5, 2.5, -2.5]

KEY_R1 = "C43/wrap1/out-of-range"
KEY_R2 = "C43/wrap2/out-of-range"
KEY_T1 = "C43/wrap1/not-whole-turns"
KEY_T2 = "C43/wrap2/not-whole-turns"
KEY_D = "C43/delta/not-wrap2-of-difference"
KEY_Z = "C43/wrap-zero/not-identity"


def fr(x):
    return Fraction(x)


# ----------------------------------------------------------------------------- concrete oracle (replay)

def check_concrete(kind, w, angle, other=None):
    """run the real functions on exactly representable inputs; returns None if the property holds,
    else a description"""
    W = fr(w)
    a = float(angle)
    assert fr(a) == fr(angle)
    if kind == "range1":
        r = fr(Nv.wrap1(a, w))
        ok = (0 <= r < W) if W > 0 else (W < r <= 0)
        return None if ok else "wrap1(%r, %r) -> %s not in %s" % (a, w, r, "[0, %s)" % W if W > 0 else "(%s, 0]" % W)
    if kind == "range2":
        r = fr(Nv.wrap2(a, w))
        return None if -abs(W) <= r <= abs(W) else "wrap2(%r, %r) -> %s not in [%s, %s]" % (a, w, r, -abs(W), abs(W))
    if kind == "turns1":
        r = fr(Nv.wrap1(a, w))
        return None if ((r - fr(a)) / W).denominator == 1 else \
            "wrap1(%r, %r) -> %s differs from the angle by %s turns of %s" % (a, w, r, (r - fr(a)) / W, W)
    if kind == "turns2":
        r = fr(Nv.wrap2(a, w))
        return None if ((r - fr(a)) / (2 * W)).denominator == 1 else \
            "wrap2(%r, %r) -> %s differs from the angle by %s full turns of %s" % (a, w, r, (r - fr(a)) / (2 * W), 2 * W)
    if kind == "delta":
        d = float(other)
        assert fr(d) == fr(other) and fr(d - a) == fr(other) - fr(angle)
        x, y = Nv.delta(d, a, w), Nv.wrap2(d - a, w)
        return None if fr(x) == fr(y) else "delta(%r, %r, %r) -> %r, wrap2(%r, %r) -> %r" % (d, a, w, x, d - a, w, y)
    if kind == "zero":
        d = float(other)
        bad = []
        if fr(Nv.wrap1(a, w)) != fr(a):
            bad.append("wrap1(%r, 0) -> %r" % (a, Nv.wrap1(a, w)))
        if fr(Nv.wrap2(a, w)) != fr(a):
            bad.append("wrap2(%r, 0) -> %r" % (a, Nv.wrap2(a, w)))
        if fr(Nv.delta(d, a, w)) != fr(d) - fr(a):
            bad.append("delta(%r, %r, 0) -> %r" % (d, a, Nv.delta(d, a, w)))
        return "; ".join(bad) or None
    raise ValueError(kind)


KEYS = dict(range1=KEY_R1, range2=KEY_R2, turns1=KEY_T1, turns2=KEY_T2, delta=KEY_D, zero=KEY_Z)


def replay(vals, params):
    v = A.unjson(vals)
    kind = v["kind"]
    w = v["wrap"]
    for x in (v["angle"], v.get("other")):
        if x is not None and fr(float(x)) != fr(x):
            return ("pass", KEYS[kind], "input %r is not exactly a float: outside the float replay" % (x,))
    try:
        bad = check_concrete(kind, w, v["angle"], v.get("other"))
    except Exception as e:
        return ("fail", "C43/%s/raises" % kind, "%r on %r" % (e, v))
    if bad:
        return ("fail", KEYS[kind], bad)
    return ("pass", KEYS[kind], "")


# ----------------------------------------------------------------------------- the obligation

def dyadic(x):
    x = Fraction(x)
    return (1024 % x.denominator == 0) and abs(x) < 2 ** 30


def ob_wrap(sess, params):
    w = params["wrap"]
    a, d = z3.Real("a"), z3.Real("d")
    W = Fraction(w)
    r = A.rng(sess.params, 43)

    def tr(fn, args):
        I = sess.interp(num="real")
        res = I.call(fn, args)
        sess.absorb(I)
        return res, I

    def concretizer(kind, prem, claim, two):
        """find a float-exact counterexample and confirm it on the real functions"""
        def conc(m):
            cands = []
            va = A.model_value(m, a)
            vd = A.model_value(m, d) if two else None
            if dyadic(va) and (not two or dyadic(vd)):
                cands.append((va, vd))
            na, nd = z3.Int("na!"), z3.Int("nd!")
            extra = [a * 1024 == z3.ToReal(na), a < 2 ** 30, a > -2 ** 30]
            if two:
                extra += [d * 1024 == z3.ToReal(nd), d < 2 ** 30, d > -2 ** 30]
            rr, mm, _ = sess.check(*(prem + extra + [z3.Not(claim)]))
            if rr == "sat":
                cands.append((A.model_value(mm, a), A.model_value(mm, d) if two else None))
            for va, vd in cands:
                bad = check_concrete(kind, w, va, vd)
                if bad:
                    return dict(kind=kind, wrap=w, angle=va, other=vd), bad
            return None
        return conc

    def prove(kind, claim, defs, wrong, assume=(), two=False):
        prem = list(assume) + list(defs)
        sess.prove(KEYS[kind], claim, assume=assume, defs=defs, wrong=wrong,
                   vals=lambda m: dict(kind=kind, wrap=w, angle=A.model_value(m, a), other=A.model_value(m, d) if two else None),
                   concretize=concretizer(kind, prem, claim, two), what="%s wrap=%r" % (kind, w))

    r1, I1 = tr(Nv.wrap1, [a, w])
    r2, I2 = tr(Nv.wrap2, [a, w])
    dl, I3 = tr(Nv.delta, [d, a, w])
    r2d, I4 = tr(Nv.wrap2, [d - a, w])

    # translator validation on float-exact inputs (integers and dyadic rationals)
    aw = abs(W) if W else Fraction(1)
    pts = [Fraction(0), aw, -aw, 2 * aw, -2 * aw, aw / 2, -aw / 2, 3 * aw / 2, -3 * aw / 2, 5 * aw, -7 * aw] + \
          [Fraction(r.randrange(-2 ** 20, 2 ** 20), 2 ** r.randrange(0, 6)) for _ in range(12)]
    sess.validate("wrap1(angle, %r)" % w, [A.Path([], r1, I1)], [a], [(x,) for x in pts], lambda x: fr(Nv.wrap1(float(x), w)))
    sess.validate("wrap2(angle, %r)" % w, [A.Path([], r2, I2)], [a], [(x,) for x in pts], lambda x: fr(Nv.wrap2(float(x), w)))
    sess.validate("delta(d, a, %r)" % w, [A.Path([], dl, I3)], [d, a], [(x, y) for x, y in zip(pts, reversed(pts))],
                  lambda x, y: fr(Nv.delta(float(x), float(y), w)))

    if W == 0:
        prove("zero", z3.And(r1 == a, r2 == a, dl == d - a), I1.defs + I2.defs + I3.defs, z3.And(r1 == a + 1), two=True)
        return

    # range obligations, unbounded angle
    lo, hi = z3.RealVal(str(W)), z3.RealVal(str(abs(W)))
    if W > 0:
        prove("range1", z3.And(r1 >= 0, r1 < lo), I1.defs, z3.And(r1 >= 0, r1 < lo / 2))
    else:
        prove("range1", z3.And(r1 > lo, r1 <= 0), I1.defs, z3.And(r1 > lo / 2, r1 <= 0))
    prove("range2", z3.And(r2 >= -hi, r2 <= hi), I2.defs, z3.And(r2 >= -hi / 2, r2 <= hi / 2))
    prove("delta", dl == r2d, I3.defs + I4.defs, dl == r2d + 1, two=True)

    # whole number of full turns: bounded angle, proved chunk by chunk (the solver enumerates the
    # quotient, so its time grows faster than linearly with the number of turns in one query)
    sess.solver.set("arith.solver", 2)   # measured: 3-5x faster than the default on the bounded whole-turn
    #                                      queries (and slower on the unbounded ones above, which keep the default)
    full = abs(2 * W)
    N, C = params["turns"], params["chunk"]
    sess.res["extra"]["bound"] = "|angle| <= %s (= %d full turns of %s)" % (N * full, N, full)
    for kind, res, I, T in (("turns1", r1, I1, W), ("turns2", r2, I2, 2 * W)):
        k = z3.FreshInt("k")
        aT = z3.RealVal(str(abs(T)))
        rem = (res - a) - z3.RealVal(str(T)) * z3.ToReal(k)
        kdef = z3.And(rem >= 0, rem < aT)          # k := floor((res - a) / T): always exists
        # deliberately wrong oracle: "... by a whole multiple of TWO full turns" (own floor quotient k2)
        k2 = z3.FreshInt("k")
        rem2 = (res - a) - z3.RealVal(str(2 * T)) * z3.ToReal(k2)
        k2def = z3.And(rem2 >= 0, rem2 < 2 * aT)
        for c in range(-N, N, C):
            lo, hi = c * full, min(c + C, N) * full
            box = [a >= z3.RealVal(str(lo)), a <= z3.RealVal(str(hi))]
            prove(kind, rem == 0, I.defs + [kdef, k2def], rem2 == 0, assume=box)


def obligations(tier):
    turns, chunk = (1000, 100) if tier == "quick" else (5000, 100)
    obs = []
    for w in GRID:
        obs.append(Ob("wrap/%s" % (repr(w).replace(".", "_")), A.run_obligation(ob_wrap, None, 60000, alts=[(None, 180000)]), params=dict(wrap=w, turns=turns, chunk=chunk, xcheck=(tier == "thorough"), xcheck_max=6),
                      kind="e2", replay=replay, budget=600 if tier == "quick" else 3000,
                      bounds=dict(wrap=w, angle="unbounded real (range, delta, wrap 0)",
                                  whole_turns="|angle| <= %d full turns (%d * |2*wrap|), in chunks of %d turns" % (turns, turns, chunk))))
    return obs
