"""C32 -- malformed HTTP input only affects its own connection (E1, selector-symbolic).

Server side: a real `Valet` (WSGI echo app) over in-memory socket doubles with TWO accepted
connections.  Connection A sends a *mutated* request: one byte-level edit of a valid request
(replace / insert / delete / truncate / none; position = symbolic int pinned by solver
bisection; replacement byte from a class alphabet).  Connection B sends a valid request, and a
second one afterwards.  `Valet.serviceAll()` is run for several passes.

  * no pass may raise;
  * A ends in one of the states of the statement: a request was yielded (a response came
    back), it still waits for bytes, or it was closed with the request marked failed;
  * B's received bytes are identical to a run of the same Valet without A, B stays open.

Client side: a real `Patron` over a socket double receives a mutated response (same mutation
model), then the server closes; `Patron.serviceAll()` must not raise and a parse error must
end up in the recorded response (`errored`).
"""
from engine import Ob
from engine.doubles_http import (untraced, pick, raise_site, exc_text, quiet_stderr, make_valet, connect,
                                 make_patron)
from ioflo.aid.odicting import odict
from ioflo.aio.http import httping, serving, clienting

PROPERTY = "C32"
ENGINE = "E1"
FUNCTIONS = ["ioflo.aio.http.serving.Valet.serviceAll", "ioflo.aio.http.serving.Valet.serviceConnects",
             "ioflo.aio.http.serving.Valet.serviceReqs", "ioflo.aio.http.serving.Valet.serviceReps",
             "ioflo.aio.http.serving.Valet.closeConnection", "ioflo.aio.http.serving.Requestant.parseHead",
             "ioflo.aio.http.serving.Requestant.parseBody", "ioflo.aio.http.serving.Responder.service",
             "ioflo.aio.http.httping.Parsent.parseMessage", "ioflo.aio.http.httping.parseLine",
             "ioflo.aio.http.httping.parseLeader", "ioflo.aio.http.httping.parseChunk",
             "ioflo.aio.http.httping.parseRequestLine", "ioflo.aio.http.httping.parseStatusLine",
             "ioflo.aio.http.clienting.Patron.serviceAll", "ioflo.aio.http.clienting.Patron.serviceResponse",
             "ioflo.aio.http.clienting.Respondent.parseHead", "ioflo.aio.http.clienting.Respondent.parseBody",
             "ioflo.aio.tcp.serving.Server.serviceConnects", "ioflo.aio.tcp.serving.Incomer.serviceReceives",
             "ioflo.aio.tcp.serving.Incomer.serviceTxes", "ioflo.aio.tcp.clienting.Client.serviceReceives"]
ASSUMPTIONS = [
    "sockets are in-memory doubles (engine/doubles_http.py) placed at Server.ss / Client.cs: recv returns everything queued, send never blocks, no socket errors",
    "inputs are single byte-level edits (replace / insert / delete / truncate-at / none) of the listed valid base messages; replacement bytes come from the class alphabet in bounds; fully symbolic byte strings were declined (DESIGN section 2)",
    "the WSGI application is a total echo double that sets its own Date / Server / Content-Length headers (responses are then deterministic)",
    "store time does not advance: no idle time-outs fire (Valet timeout=0.0)",
    "Valet.reqs is an odict subclass that remembers removed Requestants so that `errored` can be read after the Valet dropped the connection",
    "sys.stderr is redirected to a sink while the Valet runs (it writes parse errors there)",
    "a connection that was closed is accepted when its request was marked errored, or when it had been answered and was not persistent (HTTP/1.0 / Connection: close)",
    "client status-line family: `HTTP/1.1 c0c1c2 OK`, each status character independently from the listed classes (kept digit, 0xB2 0xB3 0xB9 0xBD, + - space x, nothing, 0 9); a status token containing a non ASCII-digit character (or no token) counts as malformed and must be recorded as an errored response",
    "client: one request outstanding, the mutated response arrives in one receive (thorough: also in two), then the peer closes; the Patron is not reconnectable",
]
LEVEL_NOTE = "selector-symbolic: solver proves the bounded mutation space (kind x position x byte class) was exhausted; each path is a concrete run of the real Valet / Patron over socket doubles"
TECHNIQUE = "bounded exhaustive structured mutation driven by the CrossHair/z3 search tree; differential (healthy connection vs. run without the bad peer)"

DATE = "Thu, 01 Jan 2015 00:00:00 GMT"

ALPHA_Q = [b"\r", b"\n", b":", b" ", b";", b"=", b"a", b"x", b"-", b"\x00", b"\x80", b"0", b"3", b"9"]
ALPHA_T = ALPHA_Q + [b"\t", b"/", b"?", b"%", b"[", b"\"", b",", b"H", b"\xff", b"g"]
ALPHA_S = [b"\r", b"\n", b":", b" ", b";", b"x"]      # structural subset used together with a split delivery
KINDS = ["replace", "insert", "delete", "truncate", "none"]

REQ_BASES = {
    "get": b"GET /a/b?x=1 HTTP/1.1\r\nHost: x\r\n\r\n",
    "fixed": b"POST /p HTTP/1.1\r\nHost: x\r\nContent-Length: 3\r\n\r\nabc",
    "chunked": b"POST /p HTTP/1.1\r\nHost: x\r\nTransfer-Encoding: chunked\r\n\r\n3\r\nabc\r\n0\r\nT: v\r\n\r\n",
    "chunkext": b"POST /p HTTP/1.1\r\nHost: x\r\nTransfer-Encoding: chunked\r\n\r\n3;e=1\r\nabc\r\n0\r\n\r\n",
    "absuri": b"GET http://h:8/p HTTP/1.1\r\nHost: h\r\n\r\n",
    "http10": b"GET /old HTTP/1.0\r\nHost: x\r\n\r\n",
}
RSP_BASES = {
    "fixed": b"HTTP/1.1 200 OK\r\nServer: s\r\nContent-Length: 3\r\n\r\nabc",
    "chunked": b"HTTP/1.1 200 OK\r\nServer: s\r\nTransfer-Encoding: chunked\r\n\r\n3\r\nabc\r\n0\r\nT: v\r\n\r\n",
    "close": b"HTTP/1.0 200 OK\r\nServer: s\r\n\r\nabc",
    "json": b"HTTP/1.1 200 OK\r\nContent-Type: application/json\r\nContent-Length: 7\r\n\r\n{\"a\":1}",
    "sse": b"HTTP/1.1 200 OK\r\nContent-Type: text/event-stream\r\n\r\nid: 1\ndata: a\n\n",
}
GOOD1 = b"GET /good HTTP/1.1\r\nHost: b\r\n\r\n"
GOOD2 = b"POST /again HTTP/1.1\r\nHost: b\r\nContent-Length: 2\r\n\r\nhi"
CA_A = ("127.0.0.1", 50001)
CA_B = ("127.0.0.1", 50002)
PASSES = 3


def app(environ, start_response):
    """total WSGI echo application"""
    body = (b"echo " + environ["REQUEST_METHOD"].encode("latin-1", "replace") + b" "
            + environ["PATH_INFO"].encode("latin-1", "replace") + b" " + environ["wsgi.input"].read())
    start_response("200 OK", [("Content-Type", "text/plain"), ("Content-Length", str(len(body))),
                              ("Date", DATE), ("Server", "t")])
    return [body]


class RecReqs(odict):
    """odict that remembers the values removed from it (the Valet deletes a Requestant when it
    closes a connection; the harness still has to read its .errored)"""
    def __delitem__(self, key):
        self.__dict__.setdefault("gone", {})[key] = dict.__getitem__(self, key)
        odict.__delitem__(self, key)


def mutate(base, kind, pos, byte):
    if kind == "replace":
        return base[:pos] + byte + base[pos + 1:]
    if kind == "insert":
        return base[:pos] + byte + base[pos:]
    if kind == "delete":
        return base[:pos] + base[pos + 1:]
    if kind == "truncate":
        return base[:pos]
    return base


def choose_mutation(sym, base, kinds, alpha, prefix=b""):
    """-> (mutated bytes, description).  Selector = kind and byte class; position = symbolic int."""
    kind = kinds[sym.choice("mut_kind", len(kinds))]
    n = len(base)
    pos = 0
    byte = b""
    if kind in ("replace", "insert"):
        byte = alpha[sym.choice("mut_byte", len(alpha))]
    if kind == "insert":
        pos = pick(sym, "mut_pos", 0, n)
    elif kind != "none":
        pos = pick(sym, "mut_pos", 0, n - 1)
    with untraced(sym):
        data = prefix + mutate(base, kind, pos, byte)
    return data, "%s pos=%d byte=%r" % (kind, pos, byte)


# ---------------------------------------------------------------- server side
_BASELINE = {}


def _run_valet(bad, order, cut):
    """Drive a Valet with the healthy connection B and (if bad is not None) the bad connection A.
    Returns dict(exc=..., b1=..., b2=..., a=..., state of A and B)."""
    reqs = RecReqs()
    valet = make_valet(app, reqs=reqs)
    peers = {}
    for who in order:
        if who == "A" and bad is None:
            continue
        peers[who] = connect(valet, CA_A if who == "A" else CA_B)
    A, B = peers.get("A"), peers["B"]
    out = dict(exc=None, stage=None)
    try:
        with quiet_stderr():
            out["stage"] = "first"
            if A is not None:
                A.send(bad[:cut])
            B.send(GOOD1)
            for k in range(PASSES):
                valet.serviceAll()
                if k == 0 and A is not None and cut < len(bad):
                    A.send(bad[cut:])
            out["b1"] = B.received()
            out["stage"] = "second"
            B.send(GOOD2)
            for k in range(PASSES):
                valet.serviceAll()
            out["b2"] = B.received()
    except Exception as ex:     # noqa: BLE001  the property: nothing may escape the service loop
        out["exc"] = (raise_site(ex), exc_text(ex))
        return out
    out["b_open"] = (CA_B in valet.reqs and CA_B in valet.servant.ixes and not B.closed_by_far)
    if A is not None:
        out["a_rx"] = A.received()
        out["a_in_reqs"] = CA_A in valet.reqs
        out["a_in_ixes"] = CA_A in valet.servant.ixes
        out["a_sock_closed"] = A.closed_by_far
        r = valet.reqs.get(CA_A) or reqs.__dict__.get("gone", {}).get(CA_A)
        out["a_req"] = None if r is None else dict(errored=bool(r.errored), ended=bool(r.ended),
                                                    parsing=r.parser is not None, persisted=r.persisted,
                                                    error=r.error)
    return out


def h_server(sym, base, kinds, alpha, orders, split, prefix=b""):
    order = orders[sym.choice("accept_order", len(orders))]
    bad, what = choose_mutation(sym, REQ_BASES[base], kinds, alpha, prefix=prefix)
    cut = len(bad)
    if split:
        cut = pick(sym, "delivery_cut", 0, len(bad))
    with untraced(sym):
        key = (order,)
        if key not in _BASELINE:
            _BASELINE[key] = _run_valet(None, order, 0)
        ref = _BASELINE[key]
        sym.check(ref["exc"] is None and ref["b1"] and ref["b2"] != ref["b1"] and ref["b_open"],
                  "C32/harness/baseline-run-broken", repr(ref)[:300])
        got = _run_valet(bad, order, cut)
        where = "base=%s %s bytes=%r order=%s cut=%d" % (base, what, bad, order, cut)
        if got["exc"] is not None:
            sym.fail("C32/server/serviceAll-raises/" + got["exc"][0],
                     "%s (%s request of B) | %s" % (got["exc"][1], got["stage"], where))
        # the healthy connection
        sym.check(got["b1"] == ref["b1"] and got["b2"] == ref["b2"], "C32/server/healthy-connection-response-differs",
                  "got %r / %r expected %r / %r | %s" % (got["b1"], got["b2"], ref["b1"], ref["b2"], where))
        sym.check(got["b_open"], "C32/server/healthy-connection-closed", where)
        # the bad connection: yields a request, waits, or is failed and closed
        r = got["a_req"]
        sym.check(r is not None, "C32/harness/requestant-of-bad-connection-not-found", where)
        responded = bool(got["a_rx"])
        if got["a_in_reqs"]:
            sym.check(got["a_in_ixes"] and not got["a_sock_closed"], "C32/server/bad-connection/kept-but-socket-gone", where)
            sym.check(not (r["ended"] and r["errored"]), "C32/server/bad-connection/errored-but-not-closed",
                      "%r | %s" % (r, where))
            if responded:
                sym.cover("request-yielded")
            else:
                sym.cover("waits")
        else:
            sym.check(got["a_sock_closed"] and not got["a_in_ixes"], "C32/server/bad-connection/dropped-but-socket-open", where)
            sym.check(r["errored"] or (responded and not r["persisted"]),
                      "C32/server/bad-connection/closed-without-marking-request-failed", "%r | %s" % (r, where))
            if r["errored"]:
                sym.cover("failed-and-closed")
    return True


# ---------------------------------------------------------------- client side
def _run_patron(bad, cut):
    patron, peer = make_patron()
    out = dict(exc=None, stage="setup")
    try:
        patron.request(method="GET", path="/x")
        patron.serviceAll()
        out["sent"] = peer.received()
        out["stage"] = "response"
        peer.send(bad[:cut])
        patron.serviceAll()
        if cut < len(bad):
            peer.send(bad[cut:])
        patron.serviceAll()
        out["stage"] = "after-close"
        peer.shut()
        patron.serviceAll()
        patron.serviceAll()
    except Exception as ex:     # noqa: BLE001
        out["exc"] = (raise_site(ex), exc_text(ex))
        return out
    out["responses"] = [dict(errored=r["errored"], error=r["error"], status=r["status"]) for r in patron.responses]
    out["waited"] = patron.waited
    out["rsp_errored"] = bool(patron.respondent.errored)
    out["evented"] = bool(patron.respondent.evented)
    return out


def h_client(sym, base, kinds, alpha, split):
    bad, what = choose_mutation(sym, RSP_BASES[base], kinds, alpha)
    cut = len(bad)
    if split:
        cut = pick(sym, "delivery_cut", 0, len(bad))
    with untraced(sym):
        got = _run_patron(bad, cut)
        where = "base=%s %s bytes=%r cut=%d" % (base, what, bad, cut)
        if got["exc"] is not None:
            sym.check(got["stage"] != "setup", "C32/harness/client-setup-raised", got["exc"][1])
            sym.fail("C32/client/serviceAll-raises/" + got["exc"][0], "%s (%s) | %s" % (got["exc"][1], got["stage"], where))
        sym.check(got["sent"].startswith(b"GET /x HTTP/1.1\r\n"), "C32/harness/client-request-not-sent", repr(got["sent"]))
        if got["rsp_errored"] and not got["evented"]:
            sym.check(got["responses"] and got["responses"][-1]["errored"] and got["responses"][-1]["error"] is not None,
                      "C32/client/parse-error-not-recorded-in-response", "%r | %s" % (got["responses"], where))
            sym.cover("error-recorded")
        elif got["responses"]:
            sym.cover("response-recorded")
        else:
            sym.cover("waits")
    return True


# malformed status line family: each of the three status-code characters is drawn independently
STATUS_Q = [None, b"\xb2", b"\xb3", b"\xb9", b"\xbd", b"+", b"-", b" ", b"x", b"", b"0", b"9"]   # None = keep
STATUS_T = STATUS_Q + [b"\xbc", b"\xbe", b"\t", b".", b"e"]
STATUS_BASE = (b"2", b"0", b"0")


def h_status(sym, alpha):
    """Client: `HTTP/1.1 c0c1c2 OK` + valid headers/body, every status character from the class
    alphabet (digit-like non-ASCII bytes, signs, space, letter, nothing, digits).  Same oracle as
    the other malformed responses; in addition a status token with a character that is not an
    ASCII digit (or no status token at all) must end up as a recorded errored response."""
    chars = []
    for i in range(3):
        c = alpha[sym.choice("status_char%d" % i, len(alpha))]
        chars.append(STATUS_BASE[i] if c is None else c)
    with untraced(sym):
        line = b"HTTP/1.1 " + b"".join(chars) + b" OK"
        bad = line + b"\r\nServer: s\r\nContent-Length: 3\r\n\r\nabc"
        got = _run_patron(bad, len(bad))
        where = "status-line=%r" % line
        if got["exc"] is not None:
            sym.check(got["stage"] != "setup", "C32/harness/client-setup-raised", got["exc"][1])
            sym.fail("C32/client/serviceAll-raises/" + got["exc"][0], "%s (%s) | %s" % (got["exc"][1], got["stage"], where))
        sym.check(got["sent"].startswith(b"GET /x HTTP/1.1\r\n"), "C32/harness/client-request-not-sent", repr(got["sent"]))
        tokens = line.split()
        token = tokens[1] if len(tokens) > 1 else b""
        malformed = not token or any(ch not in b"0123456789" for ch in token)
        recorded = bool(got["responses"]) and bool(got["responses"][-1]["errored"]) and got["responses"][-1]["error"] is not None
        if got["rsp_errored"]:
            sym.check(recorded, "C32/client/parse-error-not-recorded-in-response", "%r | %s" % (got["responses"], where))
        if malformed:
            sym.check(recorded, "C32/client/malformed-status-not-recorded-as-error",
                      "token=%r responses=%r waited=%r | %s" % (token, got["responses"], got["waited"], where))
            sym.cover("malformed-status-recorded")
        if recorded:
            sym.cover("error-recorded")
        elif got["responses"]:
            sym.cover("response-recorded")
    return True


# ---------------------------------------------------------------- obligations
def obligations(tier):
    quick = tier == "quick"
    out = []
    alpha = ALPHA_Q if quick else ALPHA_T
    names = lambda a: [x.decode("latin-1").encode("unicode_escape").decode() for x in a]

    def srv(name, base, kinds=KINDS, alpha=alpha, orders=("AB",), split=False, prefix=b"", covers=()):
        bounds = dict(side="server", base_request=REQ_BASES[base].decode("latin-1"), mutation_kinds=list(kinds),
                      byte_classes=names(alpha), accept_orders=list(orders), delivery="two receives, cut symbolic" if split else "one receive",
                      pipelined_after=prefix.decode("latin-1") or None, passes=PASSES,
                      healthy_requests=[GOOD1.decode(), GOOD2.decode()])
        out.append(Ob(name, h_server, dict(base=base, kinds=list(kinds), alpha=list(alpha), orders=list(orders),
                                           split=split, prefix=prefix),
                      budget=900 if quick else 6000, covers=list(covers), bounds=bounds))

    def cli(name, base, kinds=KINDS, alpha=alpha, split=False, covers=()):
        bounds = dict(side="client", base_response=RSP_BASES[base].decode("latin-1"), mutation_kinds=list(kinds),
                      byte_classes=names(alpha), delivery="two receives, cut symbolic" if split else "one receive",
                      then="peer closes")
        out.append(Ob(name, h_client, dict(base=base, kinds=list(kinds), alpha=list(alpha), split=split),
                      budget=900 if quick else 6000, covers=list(covers), bounds=bounds))

    full = ("request-yielded", "waits", "failed-and-closed")
    orders = ("AB",) if quick else ("AB", "BA")
    for base in ("get", "fixed", "chunked", "absuri"):
        srv("server/%s" % base, base, orders=orders, covers=full)
    srv("server/http10", "http10", kinds=["replace", "truncate", "none"], orders=orders, covers=full)
    # every path of this shard runs into the chunk-extension defect: no vacuity labels
    srv("server/chunkext", "chunkext", kinds=["replace", "none"], alpha=ALPHA_S, orders=("AB",))
    for base in ("fixed", "chunked", "close"):
        cli("client/%s" % base, base, covers=("response-recorded", "error-recorded", "waits"))
    st = STATUS_Q if quick else STATUS_T
    out.append(Ob("client/status-line", h_status, dict(alpha=list(st)), budget=900 if quick else 6000,
                  covers=["malformed-status-recorded", "error-recorded", "response-recorded"],
                  bounds=dict(side="client", response="HTTP/1.1 c0c1c2 OK + Server/Content-Length headers + 3 byte body",
                              status_char_classes=["keep" if x is None else x.decode("latin-1").encode("unicode_escape").decode() for x in st],
                              positions="all three status characters independently", then="peer closes")))
    # event stream: no response record is made for an evented response, only "never raises" applies
    cli("client/sse", "sse", kinds=["replace", "truncate", "none"] if quick else KINDS)
    if not quick:
        cli("client/json", "json", covers=("response-recorded", "error-recorded"))
        for base in ("get", "chunked"):
            srv("server/%s/split-delivery" % base, base, kinds=["replace"], alpha=ALPHA_S, orders=("AB",),
                split=True, covers=full)
            srv("server/%s/pipelined" % base, base, orders=("AB",), prefix=GOOD1, covers=("failed-and-closed",))
        for base in ("fixed", "chunked"):
            cli("client/%s/split-delivery" % base, base, kinds=["replace"], alpha=ALPHA_S, split=True,
                covers=("response-recorded", "error-recorded"))
    return out
