"""C30 -- HTTP requests and WSGI responses survive the round trip (E1, no sockets).

Request direction : Requester(...).build() -> bytes -> Requestant.parse() -> Valet.buildEnviron()
Response direction: WSGI app double -> Responder.service() -> bytes -> Respondent.parse()

Message *shapes* (method, path spelling, header set, body kind, response framing, status)
are selectors (`sym.choice`); *sizes* (body length, the two cut points that split a
response body into the pieces the app yields) are symbolic integers constrained by
`c1 <= c2`; the solver enumerates the feasible assignments and proves the bounded space
exhausted.  Sizes are realised explicitly before the round trip (the code formats them with
`str(len(body))` and slices with them; CrossHair would otherwise build z3 string terms for
`str(n)`: measured 78 ms/query, no exhaustion), and the round trip itself then runs as a
concrete execution of the real code (`run_concrete`, untraced).

Oracles (exactly the statement): server sees the same method / path / query arguments /
headers (case-insensitive names) / body, and the WSGI environ is consistent with them;
the client sees the same status / reason / headers / body the application produced
(including HTTPError raised by the application).
"""
import json
from urllib.parse import parse_qsl

from engine import Ob
from engine.doubles_httprt import IncomerStub, run_concrete
from ioflo.aid.odicting import odict
from ioflo.base import storing
from ioflo.aio.http import clienting, serving, httping

PROPERTY = "C30"
ENGINE = "E1"
LEVEL_NOTE = ("selector-symbolic message shapes; body lengths / piece sizes symbolic and enumerated by the "
              "engine at the code's own str()/slice points; space exhausted")
TECHNIQUE = "path-wise symbolic execution (CrossHair engine + z3) of the real Requester/Requestant/Valet.buildEnviron/Responder/Respondent"
FUNCTIONS = ["ioflo.aio.http.clienting.Requester.build", "ioflo.aio.http.httping.updateQargsQuery",
             "ioflo.aio.http.httping.packHeader", "ioflo.aio.http.httping.packChunk",
             "ioflo.aio.http.serving.Requestant.parseHead", "ioflo.aio.http.serving.Requestant.parseBody",
             "ioflo.aio.http.serving.Valet.buildEnviron", "ioflo.aio.http.serving.Responder.service",
             "ioflo.aio.http.serving.Responder.start", "ioflo.aio.http.serving.Responder.write",
             "ioflo.aio.http.serving.Responder.build", "ioflo.aio.http.clienting.Respondent.parseHead",
             "ioflo.aio.http.clienting.Respondent.parseBody", "ioflo.aio.http.httping.parseLeader",
             "ioflo.aio.http.httping.parseChunk", "ioflo.aio.http.httping.HTTPError.render"]
ASSUMPTIONS = [
    "no sockets: the request bytes are handed whole to a Requestant whose incomer is a stub; the response bytes "
    "collected from a stub incomer are handed whole to a Respondent (split invariance is C29's subject)",
    "a response without Content-Length on a non-chunkable (HTTP/1.0-style) responder is ended by closing the Respondent, as Patron does on cutoff",
    "query names and header names are URL / header tokens; header values are latin-1 without leading/trailing blanks; "
    "values come from an adversarial alphabet (& = ; + % # space quotes non-ASCII empty)",
    "query arguments are compared after standard decoding of the QUERY_STRING the WSGI app sees (urllib.parse.parse_qsl, keep_blank_values); "
    "form bodies likewise (application/x-www-form-urlencoded -> parse_qsl; multipart/form-data -> RFC 2046 delimiter split)",
    "a GET request's body / data / fargs are by design not sent by Requester.build: for GET both an empty and an equal server-side body are accepted",
    "PATH_INFO may be the unicode path or its PEP-3333 latin-1 transcoding",
    "responses: duplicate header names, non-latin-1 HTTPError texts, errors raised after the head was sent, and write(b'') calls of the legacy write callable are outside the generated set",
    "Date / Server / Transfer-Encoding headers added by the Responder are allowed in addition to the application's headers",
]

HOST, PORT = "127.0.0.1", 8080

METHODS = ["GET", "HEAD", "PUT", "PATCH", "POST", "DELETE", "OPTIONS", "TRACE", "CONNECT", "post"]

# (input path, expected path seen by server, expected query pairs contributed by the path)
PATHS = [
    ("/", "/", []),
    ("/a/b.c", "/a/b.c", []),
    ("/a b/c", "/a b/c", []),
    ("/café/中文", "/café/中文", []),
    ("/a%20b", "/a%20b", []),
    ("/p;x=1/q,r", "/p;x=1/q,r", []),
    ("/echo?name=fame&z=%26%3D+1", "/echo", [("name", "fame"), ("z", "&= 1")]),
    ("/echo?name=fa%20me", "/echo", [("name", "fa me")]),
]
PATHS_Q = [0, 2, 3, 4, 6]

ADV = ["a&b=c", "x;y", "p+q r", "100%", "#frag?x", "café中", "", "a/b:c@d", "'\"<>", "%26", "=", "&"]
ADV_Q = [0, 1, 2, 3, 5, 6]

HEADERS = [
    None,
    [("Accept", "application/json")],
    [("X-MiXed-Case", "Va: lue; x=1"), ("x_under-score", ""), ("Accept", "*/*")],
    [("X-Latin", "café"), ("Connection", "Keep-Alive"), ("Keep-Alive", "timeout=60, max=100")],
    [("Content-Type", "text/plain; charset=utf-8")],
]

BIN = bytes([0x00, 0x0d, 0x0a, 0xff, 0x80, 0x3a, 0x20, 0x0d, 0x0a, 0x0d, 0x0a, 0x41])
TXT = "héllo wörld"


def multipart_split(body, ctype):
    """RFC 2046 reference split of a multipart/form-data body -> [(name, value-bytes)] or None."""
    marker = "boundary="
    i = ctype.find(marker)
    if i < 0:
        return None
    boundary = ctype[i + len(marker):].strip().strip('"').encode("ascii")
    delim = b"\r\n--" + boundary
    data = b"\r\n" + body if body.startswith(b"--" + boundary) else body
    pieces = data.split(delim)
    if len(pieces) < 2 or not pieces[-1].startswith(b"--"):
        return None
    out = []
    for part in pieces[1:-1]:
        if not part.startswith(b"\r\n"):
            return None
        head, sep, value = part[2:].partition(b"\r\n\r\n")
        if not sep:
            return None
        name = None
        for ln in head.split(b"\r\n"):
            low = ln.lower()
            if low.startswith(b"content-disposition:"):
                j = ln.find(b'name="')
                if j >= 0:
                    name = ln[j + 6:ln.find(b'"', j + 6)].decode("utf-8")
        if name is None:
            return None
        out.append((name, value))
    return out


def server_side(wire):
    inc = IncomerStub()
    req = serving.Requestant(msg=bytearray(wire), incomer=inc)
    for _ in range(6):
        req.parse()
        if req.parser is None:
            break
    return req


# --------------------------------------------------------------------------- request direction
def h_req(sym, family, kind, methods, paths, advs, maxlen):
    method = methods[sym.choice("method", len(methods))]
    if family == "line":
        pin, pexp, pq = PATHS[paths[sym.choice("path", len(paths))]]
        qsel = sym.choice("qargs", 2 + len(advs))
        hdrs = HEADERS[1]
    else:
        pin, pexp, pq = PATHS[paths[0]]
        qsel = 1
        hdrs = HEADERS[sym.choice("headers", len(HEADERS))]
    if qsel == 0:
        qargs = None
    elif qsel == 1:
        qargs = odict([("a", "1"), ("b_c", "two")])
    else:
        v = ADV[advs[qsel - 2]]
        qargs = odict([("name", v), ("k-2.x", "z" + v), ("last", "1")])
    exp_q = {}
    if qargs:
        exp_q.update(qargs)
    exp_q.update(pq)

    body = None
    data = None
    fargs = None
    if kind == "bytes":
        n = sym.realize(sym.int("blen", 0, maxlen))
        body = BIN[:n]
    elif kind == "text":
        n = sym.realize(sym.int("blen", 0, min(maxlen, len(TXT))))
        body = TXT[:n]
    elif kind == "json":
        dsel = sym.choice("data", 2 + len(advs))
        if dsel == 0:
            data = odict()
        elif dsel == 1:
            data = odict([("n", 5), ("f", 1.5), ("t", True), ("z", None), ("l", [1, "two", {"k": "v"}])])
        else:
            data = odict([("s", ADV[advs[dsel - 2]]), ("nested", {"k": [ADV[advs[dsel - 2]]]})])
    elif kind in ("form", "multipart"):
        fsel = sym.choice("fargs", 1 + len(advs))
        if fsel == 0:
            fargs = odict([("text", "plain"), ("n", "1")])
        else:
            v = ADV[advs[fsel - 1]]
            fargs = odict([("text", v), ("html", "<b>" + v + "</b>"), ("end", "1")])
        if kind == "multipart":
            hdrs = list(hdrs or []) + [("Content-Type", "multipart/form-data")]
            hdrs = [h for i, h in enumerate(hdrs) if h[0].lower() != "content-type" or i == len(hdrs) - 1]
    return run_concrete(sym, _req_concrete, method, pin, pexp, exp_q, qargs, hdrs, kind, body, data, fargs)


def _req_concrete(sym, method, pin, pexp, exp_q, qargs, hdrs, kind, body, data, fargs):
    given_body = body.encode("iso-8859-1") if isinstance(body, str) else (body or b"")

    requester = clienting.Requester(hostname=HOST, port=PORT, method=method, path=pin,
                                    qargs=odict(qargs) if qargs is not None else None,
                                    headers=odict(hdrs) if hdrs else None,
                                    body=body if body is not None else b"", data=data, fargs=fargs)
    wire = requester.build()
    sym.check(isinstance(wire, (bytes, bytearray)), "C30/request/build-not-bytes")

    req = server_side(wire)
    sym.check(req.ended and not req.errored and req.parser is None, "C30/request/server-does-not-parse",
              "ended=%r errored=%r error=%r wire=%r" % (req.ended, req.errored, req.error, bytes(wire[:200])))
    sym.check(len(req.msg) == 0, "C30/request/bytes-left-after-request", repr(bytes(req.msg[:80])))

    valet = VALET[0]
    env = valet.buildEnviron(req)
    sbody = bytes(req.body)
    is_get = method.upper() == "GET"

    # --- start line
    sym.check(req.method == method.upper(), "C30/request/method-differs", "%r -> %r" % (method, req.method))
    sym.check(req.path == pexp, "C30/request/path-differs", "%r -> %r" % (pin, req.path))
    got_q = dict(parse_qsl(req.query, keep_blank_values=True))
    sym.check(got_q == exp_q, "C30/request/query-args-differ", "sent %r got %r (query %r)" % (exp_q, got_q, req.query))

    # --- headers
    hexp = dict((k.lower(), v) for k, v in (hdrs or []))
    if kind == "multipart" and not is_get:
        hexp.pop("content-type", None)
    if kind == "json" and not is_get:
        hexp.pop("content-type", None)
    if kind == "form" and not is_get:
        hexp.pop("content-type", None)
    got_h = dict((k.lower(), v) for k, v in req.headers.items())
    for k, v in hexp.items():
        sym.check(k in got_h, "C30/request/header-lost", k)
        sym.check(got_h[k] == v, "C30/request/header-value-differs", "%s: %r -> %r" % (k, v, got_h.get(k)))
    if "host" not in hexp:
        sym.check(got_h.get("host") == "%s:%d" % (HOST, PORT), "C30/request/host-header", repr(got_h.get("host")))

    # --- body
    if is_get and sbody == b"":
        # by design Requester.build sends no body with GET: accepted (and nothing else to compare)
        if given_body or data is not None or fargs is not None:
            sym.cover("get-body-dropped")
    elif kind in ("none", "bytes", "text"):
        sym.check(sbody == given_body, "C30/request/body-differs", "%r -> %r" % (given_body, sbody))
        if given_body:
            sym.cover("binary-body")
    elif kind == "json":
        sym.check(got_h.get("content-type", "").lower().startswith("application/json"),
                  "C30/request/json-content-type", repr(got_h.get("content-type")))
        try:
            back = json.loads(sbody.decode("utf-8"))
        except ValueError:
            back = ValueError
        sym.check(back == json.loads(json.dumps(data)), "C30/request/json-data-differs", "%r -> %r" % (data, sbody))
        sym.cover("json-body")
    elif kind == "form":
        sym.check(got_h.get("content-type", "").lower().startswith("application/x-www-form-urlencoded"),
                  "C30/request/form-content-type", repr(got_h.get("content-type")))
        back = parse_qsl(sbody.decode("utf-8"), keep_blank_values=True)
        sym.check(back == list(fargs.items()), "C30/request/form-args-differ",
                  "sent %r, server body %r decodes to %r" % (list(fargs.items()), sbody, back))
        sym.cover("form-body")
    elif kind == "multipart":
        ctype = got_h.get("content-type", "")
        sym.check(ctype.lower().startswith("multipart/form-data"), "C30/request/multipart-content-type", repr(ctype))
        back = multipart_split(sbody, ctype)
        exp = [(k, v.encode("utf-8")) for k, v in fargs.items()]
        sym.check(back == exp, "C30/request/multipart-args-differ", "sent %r got %r body %r" % (exp, back, sbody))
        sym.cover("multipart-body")
    if sbody:
        sym.check(got_h.get("content-length") == str(len(sbody)), "C30/request/content-length-header",
                  "%r for %d bytes" % (got_h.get("content-length"), len(sbody)))

    # --- WSGI environ consistency
    sym.check(env.get("REQUEST_METHOD") == method.upper(), "C30/environ/REQUEST_METHOD", repr(env.get("REQUEST_METHOD")))
    pi = env.get("PATH_INFO")
    sym.check(pi == pexp or pi == pexp.encode("utf-8").decode("iso-8859-1"), "C30/environ/PATH_INFO", repr(pi))
    sym.check(env.get("SCRIPT_NAME", "") == "", "C30/environ/SCRIPT_NAME", repr(env.get("SCRIPT_NAME")))
    qs = env.get("QUERY_STRING")
    sym.check(isinstance(qs, str) and dict(parse_qsl(qs, keep_blank_values=True)) == exp_q,
              "C30/environ/QUERY_STRING", repr(qs))
    winput = env.get("wsgi.input")
    sym.check(winput is not None and winput.read() == sbody, "C30/environ/wsgi.input", "")
    cl = env.get("CONTENT_LENGTH")
    if "content-length" in got_h:
        sym.check(cl is not None and cl != "", "C30/environ/CONTENT_LENGTH-missing", repr(cl))
    if cl:
        sym.check(isinstance(cl, str) and cl.isdigit() and int(cl) == len(sbody), "C30/environ/CONTENT_LENGTH",
                  "%r for %d body bytes" % (cl, len(sbody)))
    sym.check(env.get("CONTENT_TYPE", "") == got_h.get("content-type", ""), "C30/environ/CONTENT_TYPE",
              "%r vs %r" % (env.get("CONTENT_TYPE"), got_h.get("content-type")))
    for k, v in got_h.items():
        if k in ("content-type", "content-length"):
            continue   # CGI: these are CONTENT_TYPE / CONTENT_LENGTH; an additional HTTP_ copy is allowed
        key = "HTTP_" + k.upper().replace("-", "_")
        sym.check(env.get(key) == v, "C30/environ/HTTP_-header", "%s=%r expected %r" % (key, env.get(key), v))
    sym.check(env.get("SERVER_PROTOCOL") == "HTTP/1.1", "C30/environ/SERVER_PROTOCOL", repr(env.get("SERVER_PROTOCOL")))
    sym.check(env.get("wsgi.url_scheme") == "http", "C30/environ/url_scheme", repr(env.get("wsgi.url_scheme")))
    sym.check(env.get("wsgi.version") == (1, 0), "C30/environ/wsgi.version", repr(env.get("wsgi.version")))
    sym.check(isinstance(env.get("SERVER_NAME"), str) and env.get("SERVER_PORT") == "8080", "C30/environ/SERVER_NAME_PORT",
              "%r %r" % (env.get("SERVER_NAME"), env.get("SERVER_PORT")))
    sym.cover("request-round-trip")
    return True


class _Lazy(object):
    """one Valet (never opened: no socket) per process, built on first use"""
    def __init__(self):
        self.v = None

    def __getitem__(self, i):
        if self.v is None:
            self.v = serving.Valet(store=storing.Store(stamp=0.0), app=None, host="", port=PORT, name="verif")
        return self.v


VALET = _Lazy()


# --------------------------------------------------------------------------- response direction
STATUSES = ["200 OK", "201 Created", "202 Accepted", "404 Not Found", "500 Internal Server Error",
            "301 Moved Permanently", "400 Bad Request"]
RHEADERS = [
    [("Content-Type", "text/plain")],
    [("Content-Type", "application/json; charset=utf-8"), ("X-MiXed", "Va: lue; x"), ("x_under", "")],
    [("Content-Type", "text/html"), ("Set-Cookie", "a=b; Path=/"), ("Cache-Control", "no-cache")],
    [],
    [("Content-Type", "application/octet-stream"), ("X-Latin", "café")],
]
RBODY = b"{\"k\": 1}\r\n0\r\n\r\n\x00\xffend.." * 14   # contains what looks like a chunk terminator
LENS = [0, 1, 3, 10, 17, 26, 255, 300]     # around the decimal/hex digit boundaries of chunk-size and Content-Length
ERRORS = [
    dict(status=400),
    dict(status=404, title="Missing", detail="no such thing"),
    dict(status=409, reason="Conflicted", title="T", detail="détail", fault=50),
    dict(status=503, headers=odict([("Retry-After", "5"), ("X-Why", "load")])),
    dict(status=422, title="Validation Error", detail="Bad mojo", headers=odict([("Content-Type", "text/x-error")])),
]

FRAMINGS = ["fixed", "chunked", "close", "empty-len0", "empty-nolen", "empty-nolen-close", "write-callable",
            "gen-empty-first", "error", "nocontent"]
ERROR_WHERE = ["error-in-generator", "error-after-start", "error-at-call"]


def h_resp(sym, framing, maxlen, nstatus=len(STATUSES)):
    plan = dict(esel=0, ssel=0, hsel=0, n=0, k1=0, k2=0, withlen=False, generator=False)
    if framing == "error":
        framing = ERROR_WHERE[sym.choice("where", len(ERROR_WHERE))]
        plan["esel"] = sym.choice("error", len(ERRORS))
    else:
        plan["ssel"] = sym.choice("status", 2 if framing == "nocontent" else nstatus)
        plan["hsel"] = sym.choice("headers", len(RHEADERS))
        if framing not in ("empty-len0", "empty-nolen", "empty-nolen-close", "nocontent"):
            # body length: symbolic index into LENS; cut points: symbolic positions 0 <= c1 <= c2 <= 3 on the
            # grid (0, 1, n//2, n) -- the engine enumerates the feasible (length, c1, c2) triples
            li = sym.int("blen", 0, maxlen)
            c1 = sym.int("k1", 0, 3)
            c2 = sym.int("k2", 0, 3)
            sym.assume(c1 <= c2)
            n = LENS[sym.realize(li)]
            grid = sorted((0, min(1, n), n // 2, n))
            plan["n"], plan["k1"], plan["k2"] = n, grid[sym.realize(c1)], grid[sym.realize(c2)]
        if framing == "write-callable":
            plan["withlen"] = sym.flag("withlen")
        if framing in ("chunked", "close"):
            plan["generator"] = sym.flag("generator")
    return run_concrete(sym, _resp_concrete, framing, plan)


def _resp_concrete(sym, framing, plan):
    inc = IncomerStub()
    chunkable = framing not in ("close", "empty-nolen-close")
    produced = {}

    if framing.startswith("error"):
        spec = ERRORS[plan["esel"]]
        err = httping.HTTPError(**spec)
        produced["status"] = spec["status"]
        produced["reason"] = err.reason
        produced["headers"] = list((spec.get("headers") or {}).items())
        produced["body"] = err.render()
        partial = RHEADERS[0]

        if framing == "error-at-call":
            def app(environ, start_response):
                raise httping.HTTPError(**spec)
        elif framing == "error-in-generator":
            def app(environ, start_response):
                raise httping.HTTPError(**spec)
                yield b""
        else:
            def app(environ, start_response):
                start_response("200 OK", list(partial))
                yield b""
                raise httping.HTTPError(**spec)
    else:
        if framing == "nocontent":
            status = ["204 No Content", "304 Not Modified"][plan["ssel"]]
        else:
            status = STATUSES[plan["ssel"]]
        hdrs = list(RHEADERS[plan["hsel"]])
        n, k1, k2 = plan["n"], plan["k1"], plan["k2"]
        if framing in ("empty-len0", "empty-nolen", "empty-nolen-close", "nocontent"):
            pieces = []
        else:
            body = RBODY[:n]
            pieces = [body[:k1], body[k1:k2], body[k2:]]
        if framing in ("fixed", "empty-len0") or plan["withlen"]:
            hdrs.append(("Content-Length", str(n)))
        produced["status"] = int(status.split(" ", 1)[0])
        produced["reason"] = status.split(" ", 1)[1]
        produced["headers"] = hdrs
        produced["body"] = b"".join(pieces)

        if framing == "write-callable":
            def app(environ, start_response):
                write = start_response(status, list(hdrs))
                for p in pieces[:2]:
                    if p:               # the double never calls write(b"")
                        write(p)
                return pieces[2:]
        elif framing == "gen-empty-first":
            def app(environ, start_response):
                start_response(status, list(hdrs))
                yield b""
                for p in pieces:
                    yield p
                    yield b""
        elif plan["generator"]:
            def app(environ, start_response):
                start_response(status, list(hdrs))
                for p in pieces:
                    yield p
        else:
            def app(environ, start_response):
                start_response(status, list(hdrs))
                return list(pieces)

    responder = serving.Responder(incomer=inc, app=app, environ=odict(), chunkable=chunkable)
    try:
        for _ in range(24):
            responder.service()
            if responder.ended:
                break
    except httping.HTTPError as ex:
        sym.fail("C30/response/httperror-raised-by-app-escapes-responder",
                 "framing=%s HTTPError(%r) propagated out of Responder.service" % (framing, ex.status))
    sym.check(responder.ended, "C30/response/responder-never-ends", framing)
    wire = inc.wire()

    rd = clienting.Respondent(msg=bytearray(wire), method="GET")
    for _ in range(6):
        rd.parse()
        if rd.parser is None:
            break
    if rd.parser is not None:
        head = wire.split(b"\r\n\r\n", 1)[0].lower()
        delimited = b"content-length:" in head or b"transfer-encoding: chunked" in head
        sym.check(not delimited or framing == "nocontent", "C30/response/client-does-not-finish-delimited-response",
                  repr(wire[:200]))
        sym.cover("read-until-close")
        rd.close()            # connection closed by the server: what Patron.serviceAll does on cutoff
        for _ in range(6):
            rd.parse()
            if rd.parser is None:
                break
    sym.check(rd.ended and rd.parser is None, "C30/response/client-does-not-finish", repr(wire[:200]))
    sym.check(not rd.errored, "C30/response/client-parse-error", "%r wire=%r" % (rd.error, wire[:200]))
    sym.check(len(rd.msg) == 0, "C30/response/bytes-left-after-response", repr(bytes(rd.msg[:80])))

    sym.check(rd.status == produced["status"], "C30/response/status-differs", "%r -> %r" % (produced["status"], rd.status))
    sym.check(rd.reason == produced["reason"], "C30/response/reason-differs", "%r -> %r" % (produced["reason"], rd.reason))
    got_h = dict((k.lower(), v) for k, v in rd.headers.items())
    for k, v in produced["headers"]:
        sym.check(k.lower() in got_h, "C30/response/header-lost", k)
        sym.check(got_h[k.lower()] == v, "C30/response/header-value-differs", "%s: %r -> %r" % (k, v, got_h[k.lower()]))
    sym.check(bytes(rd.body) == produced["body"], "C30/response/body-differs",
              "%r -> %r (wire %r)" % (produced["body"], bytes(rd.body), wire[-80:]))
    if framing.startswith("error"):
        sym.check(got_h.get("content-length") == str(len(produced["body"])), "C30/response/error-content-length",
                  repr(got_h.get("content-length")))
        sym.cover("http-error")
    if got_h.get("transfer-encoding", "").lower() == "chunked":
        sym.cover("chunked")
    sym.cover("response-round-trip")
    return True


# --------------------------------------------------------------------------- obligations
def obligations(tier):
    quick = tier == "quick"
    paths = PATHS_Q if quick else list(range(len(PATHS)))
    advs = ADV_Q if quick else list(range(len(ADV)))
    methods = ["GET", "HEAD", "PUT", "POST", "DELETE", "post"] if quick else METHODS
    maxlen = 4 if quick else 12
    rmax = 4 if quick else len(LENS) - 1
    nstatus = 4 if quick else len(STATUSES)
    budget = 240 if quick else 900
    out = []
    b_line = dict(methods=methods, paths=[PATHS[i][0] for i in paths], adversarial_values=[ADV[i] for i in advs])
    out.append(Ob("request/line", h_req, dict(family="line", kind="none", methods=methods, paths=paths, advs=advs, maxlen=maxlen),
                  budget=budget, covers=["request-round-trip"], bounds=b_line))
    for kind in ("bytes", "text", "json", "form", "multipart"):
        covers = {"bytes": ["binary-body", "get-body-dropped"], "text": ["binary-body"], "json": ["json-body"],
                  "form": ["form-body"], "multipart": ["multipart-body"]}[kind] + ["request-round-trip"]
        out.append(Ob("request/body/" + kind, h_req,
                      dict(family="body", kind=kind, methods=methods, paths=[paths[-1]], advs=advs, maxlen=maxlen),
                      budget=budget, covers=covers,
                      bounds=dict(methods=methods, header_sets=len(HEADERS), body_len=[0, maxlen],
                                  adversarial_values=[ADV[i] for i in advs])))
    for fr in FRAMINGS:
        covers = ["response-round-trip"]
        if fr.startswith("error"):
            covers.append("http-error")
        if fr in ("chunked", "gen-empty-first", "empty-nolen"):
            covers.append("chunked")
        if fr in ("close", "empty-nolen-close"):
            covers.append("read-until-close")
        out.append(Ob("response/" + fr, h_resp, dict(framing=fr, maxlen=rmax, nstatus=nstatus), budget=budget, covers=covers,
                      bounds=dict(statuses=STATUSES[:nstatus], header_sets=len(RHEADERS), body_len=LENS[:rmax + 1],
                                  pieces="3 pieces cut at positions c1<=c2 of the grid (0,1,n//2,n) (symbolic)", errors=len(ERRORS))))
    return out
