"""C21 -- comparison conditions evaluate exactly the written comparison.

E2 part (this file, `e2_obligations`): `ioflo.base.needing.Need.Check(state, comparison, goal,
tolerance)` is translated from source on every run and proved equal to the written comparison
for each of the six operators, with state / goal / tolerance symbolic

  * integers and exact rationals in all eight Int/Real mixes (unbounded),
  * IEEE doubles FP(11,53): once restricted to finite values, once with NaN and +-inf allowed.
    For doubles the "written comparison" is read in double arithmetic (goal - |tol| and
    goal + |tol| rounded to nearest, comparisons false on NaN); a reading in exact real
    arithmetic would flag correct code and is outside the claim.

The `except TypeError` fallback (non-numeric operands: equality / inequality) cannot be reached
with numeric sorts; it is exercised concretely (strings, None, lists, bool with tolerance 0)
through the translator and the real function.  An unknown operator string is outside the
statement; its result (False) is only recorded.

E1 part (end-to-end through Builder.makeNeed, NeedDirect/Indirect/Boolean, Nact): to be added by
`e1_obligations(tier)` below; `obligations(tier)` concatenates both lists.
"""
from fractions import Fraction

import z3

from engine import Ob
from engine import astsmt as A
from ioflo.base.needing import Need

PROPERTY = "C21"
ENGINE = "E1+E2"
TECHNIQUE = "E2: source->SMT translation of Need.Check over Int, Real and FP(11,53)"
LEVEL_TEXT = "E2: Need.Check translated from source and proved equal to the written comparison for the six operators over unbounded Int/Real mixes and over FP(11,53) incl. NaN/inf; non-numeric fallback on a concrete table"
LEVEL_NOTE = "doubles: the written comparison is read in double arithmetic; trusted: astsmt translator (validated each run), z3 5.1; the end-to-end makeNeed part (E1) is separate"
FUNCTIONS = ["ioflo.base.needing.Need.Check", "ioflo.base.building.Builder.makeNeed/makeDirectNeed/makeIndirectNeed/makeFramerNeed/makeBoolenNeed",
             "ioflo.base.needing.NeedDirect/NeedIndirect/NeedBoolean.action", "ioflo.base.acting.Nact.__call__", "ioflo.base.acting.Transiter.action"]
ASSUMPTIONS = [
    "E1: one frame with `go b if <condition>`; clause shapes (direct / indirect goal, tolerance, framer clocks, bare state), operators, negation, literal goals {-1,0,2} and tolerances {0,1,-2} are selectors; share values in [-3,3] and the time step in [0,3] are symbolic integers; conjunctions of up to three clauses",
    "E2: state, goal, tolerance are all integers/rationals (eight Int/Real mixes, unbounded) or all IEEE doubles; "
    "a mix of python int and float operands is not modelled",
    "E2: for doubles the written comparison is evaluated in double arithmetic (round-to-nearest sums, IEEE comparisons)",
    "E2: the TypeError fallback is checked on a concrete table of non-numeric operands, not symbolically",
    "E2: an unknown operator is outside the statement (recorded: Check returns False)",
]

OPS = ["==", "!=", "<", "<=", ">=", ">"]
KEY = "C21/Check/%s/differs-from-written-comparison"
KEY_FALLBACK = "C21/Check/%s/non-numeric-fallback-wrong"


# ----------------------------------------------------------------------------- oracles

def written(op, s, g, t, fp):
    """the comparison as written in the statement, as a z3 Bool; also returns a neighbouring
    (deliberately wrong) comparison for the vacuity guard"""
    if fp:
        at = z3.fpAbs(t)
        lo, hi = z3.fpSub(A.RNE, g, at), z3.fpAdd(A.RNE, g, at)
        le, lt, ge, gt = z3.fpLEQ, z3.fpLT, z3.fpGEQ, z3.fpGT
    else:
        at = z3.If(t >= 0, t, -t)
        lo, hi = g - at, g + at
        le, lt = (lambda a, b: a <= b), (lambda a, b: a < b)
        ge, gt = (lambda a, b: a >= b), (lambda a, b: a > b)
    within = z3.And(le(lo, s), le(s, hi))
    strictly = z3.And(lt(lo, s), lt(s, hi))
    return {"==": (within, strictly), "!=": (z3.Not(within), z3.Not(strictly)),
            "<": (lt(s, g), le(s, g)), "<=": (le(s, g), lt(s, g)),
            ">=": (ge(s, g), gt(s, g)), ">": (gt(s, g), ge(s, g))}[op]


def written_py(op, s, g, t):
    """python-level oracle used by the replay (exact for int / Fraction, double arithmetic for floats)"""
    if op in ("==", "!="):
        within = (g - abs(t)) <= s <= (g + abs(t))
        return within if op == "==" else (not within)
    return {"<": s < g, "<=": s <= g, ">=": s >= g, ">": s > g}[op]


def replay(vals, params):
    v = A.unjson(vals)
    op, s, g, t = v["op"], v["s"], v["g"], v["t"]
    if v.get("kind") == "fallback":
        key = KEY_FALLBACK % op
        exp = (g == s) if op == "==" else (g != s)
    else:
        key = KEY % op
        exp = written_py(op, s, g, t)
    try:
        got = Need.Check(s, op, g, t)
    except Exception as e:
        return ("fail", key, "Need.Check(%r, %r, %r, %r) raised %r" % (s, op, g, t, e))
    if bool(got) != bool(exp):
        return ("fail", key, "Need.Check(%r, %r, %r, %r) -> %r, the written comparison is %r" % (s, op, g, t, got, bool(exp)))
    return ("pass", key, "")


# ----------------------------------------------------------------------------- E2 obligations

def ob_numeric(sess, params):
    op = params["op"]
    r = A.rng(sess.params, 21)
    mixes = [(a, b, c) for a in ("Int", "Real") for b in ("Int", "Real") for c in ("Int", "Real")]
    for mix in mixes:
        s, g, t = [(z3.Int if k == "Int" else z3.Real)(n) for n, k in zip("sgt", mix)]
        I = sess.interp(num="int")
        res = I.call(Need.Check, [s, op, g, t])
        sess.absorb(I)
        res = res if A.is_sym(res) else z3.BoolVal(bool(res))
        pool = [0, 1, -1, 2, -2, 5, -7, Fraction(1, 2), Fraction(-3, 2), Fraction(7, 3)]
        cases = []
        for _ in range(24):
            c = tuple(r.choice([x for x in pool if k == "Real" or Fraction(x).denominator == 1]) for k in mix)
            cases.append(c)
        cases += [(1, 1, 0), (0, 1, 1), (2, 1, 1), (3, 1, -1), (-1, 1, -2)]
        sess.validate("Check(%s) %s" % (op, mix), [A.Path([], res, I)], [s, g, t], cases,
                      lambda a, b, c: bool(Need.Check(a, op, b, c)))
        want, wrong = written(op, s, g, t, False)
        sess.prove(KEY % op, res == want, defs=I.defs, side=I.side, wrong=res == wrong,
                   vals=lambda m: dict(op=op, s=A.model_value(m, s), g=A.model_value(m, g), t=A.model_value(m, t)),
                   what="op %s over %s" % (op, "/".join(mix)))


SPECIALS = [0.0, -0.0, 1.0, -1.0, 0.5, 1e308, -1e308, 5e-324, float("inf"), float("-inf"), float("nan"), 0.1, 0.2, 0.30000000000000004]


def ob_float(sess, params):
    op = params["op"]
    r = A.rng(sess.params, 22)
    s, g, t = [z3.FP(n, A.FP64) for n in "sgt"]
    I = sess.interp(num="fp")
    res = I.call(Need.Check, [s, op, g, t])
    sess.absorb(I)
    res = res if A.is_sym(res) else z3.BoolVal(bool(res))
    cases = [tuple(r.choice(SPECIALS) for _ in range(3)) for _ in range(40)] + \
            [(0.30000000000000004, 0.1, 0.2), (0.1 + 0.2, 0.3, 0.0), (1.0, float("nan"), 0.0), (float("inf"), float("inf"), 0.0)]
    sess.validate("Check(%s) doubles" % op, [A.Path([], res, I)], [s, g, t], cases, lambda a, b, c: bool(Need.Check(a, op, b, c)))
    want, wrong = written(op, s, g, t, True)
    finite = [z3.Not(z3.Or(z3.fpIsNaN(x), z3.fpIsInf(x))) for x in (s, g, t)]
    for name, assume in (("finite doubles", finite), ("doubles incl. NaN and infinities", [])):
        sess.prove(KEY % op, res == want, assume=assume, defs=I.defs, side=I.side, wrong=res == wrong,
                   vals=lambda m: dict(op=op, s=A.model_value(m, s), g=A.model_value(m, g), t=A.model_value(m, t)),
                   what="op %s over %s" % (op, name))


FALLBACK_TABLE = [("a", "a", 0), ("a", "b", 0), ("abc", "abc", 5), ("", "", 0), ("1", 1, 0), (1, "1", 0), (None, None, 0),
                  (None, 0, 0), ([1], [1], 0), ([1], [2], 0), ((1, 2), (1, 2), 0), ("a", "a", "x"), (True, True, 0),
                  (True, False, 0), (False, False, 0)]


def ob_fallback(sess, params):
    """non-numeric operands: '==' is equality, '!=' its complement (concrete; the translator's own
    execution of the except-TypeError handler is compared with the real function on the way)"""
    for op in ("==", "!="):
        for s, g, t in FALLBACK_TABLE:
            sess.res["paths"] += 1
            exp = (g == s) if op == "==" else (g != s)
            I = sess.interp(num="int")
            try:
                tr = I.call(Need.Check, [s, op, g, t])
            except A.PyRaise as e:
                tr = ("raise", type(e.exc).__name__)
            try:
                real = Need.Check(s, op, g, t)
            except Exception as e:
                real = ("raise", type(e).__name__)
            if not A.same_value(tr, real):
                raise A.TranslationMismatch("Check(%r, %r, %r, %r): translated %r, real %r" % (s, op, g, t, tr, real))
            sess.res["validated"] += 1
            if isinstance(real, tuple) or bool(real) != exp:
                sess.fail(KEY_FALLBACK % op, dict(kind="fallback", op=op, s=s, g=g, t=t),
                          "Need.Check(%r, %r, %r, %r) -> %r, equality says %r" % (s, op, g, t, real, exp))
            else:
                sess.res["confirmed"] += 1
    # unknown operator: outside the statement, recorded only
    I = sess.interp(num="int")
    sess.res["extra"]["unknown_operator_result"] = repr(I.call(Need.Check, [z3.Int("s"), "=~", z3.Int("g"), z3.Int("t")]))


def e2_obligations(tier):
    obs = []
    x = dict(xcheck=(tier == "thorough"), xcheck_max=3)
    names = {"==": "eq", "!=": "ne", "<": "lt", "<=": "le", ">=": "ge", ">": "gt"}
    for op in OPS:
        obs.append(Ob("e2/check/%s/exact" % names[op], A.run_obligation(ob_numeric, None, 20000), params=dict(x, op=op), kind="e2",
                      replay=replay, budget=300, bounds=dict(operator=op, operands="unbounded Int/Real, all 8 mixes")))
        obs.append(Ob("e2/check/%s/double" % names[op], A.run_obligation(ob_float, "QF_FP", 60000, alts=[("tactic:qffp", 60000)]), params=dict(x, op=op), kind="e2",
                      replay=replay, budget=600, bounds=dict(operator=op, operands="FP(11,53): finite; and with NaN/inf")))
    obs.append(Ob("e2/check/fallback", A.run_obligation(ob_fallback), params={}, kind="e2", replay=replay, budget=60,
                  bounds=dict(operands="concrete table of %d non-numeric triples, operators == and !=" % len(FALLBACK_TABLE))))
    return obs


def e1_obligations(tier):
    """end-to-end conditions through Builder.makeNeed on the real framer: harness/C21_e1.py"""
    from harness.C21_e1 import e1_obligations as e1
    return e1(tier)


def obligations(tier):
    return e2_obligations(tier) + e1_obligations(tier)
