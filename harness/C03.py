"""C03 -- the scheduler stops when nothing runs and aborts every remaining tasker (E1).

The real `Skedder.run` drives houses built by the real Builder from small
multi-framer scripts (nested frames with enter/exit recorders, stop / abort bids
at symbolic ticks).  Every recur action of every frame is a crash-injection
point: the k-th executed action raises (k symbolic) a ValueError or a
KeyboardInterrupt; alternatively a KeyboardInterrupt is delivered between ticks
(from the store's time update).  Each tasker's generator is wrapped by a
recording runner so every control it is sent and every status it returns is seen.
Oracle (from the statement):
 * the run ends after the first tick in which no tasker returned started/running,
   or when nothing is scheduled, and not before;
 * an Exception from an action is re-raised by run(), a KeyboardInterrupt is not;
 * however the run ends, every tasker still scheduled receives exactly one ABORT
   and no tasker receives two;
 * every still-scheduled framer that was running has exited all its entered
   frames, bottom-up, when run() returns.
"""
from engine import Ob
from engine import flogen
from engine.flogen import LOG, CRASH

PROPERTY = "C03"
ENGINE = "E1"
FUNCTIONS = ["ioflo.base.skedding.Skedder.run (incl. the finally abort sweep)", "ioflo.base.framing.Framer.makeRunner/exitAll",
             "ioflo.base.wanting.WantStop/WantAbort.action", "ioflo.base.building.Builder.build (concrete text)"]
ASSUMPTIONS = [
    "the tasker whose own action raised is no longer scheduled (its generator is dead); the abort/exit clauses are asserted for the OTHER taskers "
    "(what happens to the raiser's entered frames is reported in evidence as an observation, DESIGN section 3 C03)",
    "programs: templates T1 (two framers, nested frames, one stops itself, one bids stop all), T2 (three framers incl. an inactive one started by bid, abort bid), "
    "T3 (single framer that never stops until the crash), T4 (a boss stops and restarts a worker with a three-deep outline before the run ends), "
    "T5/T6 (a framer with a period of 2 / 3 ticks outlives an every-tick framer: ticks on which no tasker is due)",
    "symbolic: crash call number in [0,M] (0 = no crash), tick goals of the bids in [0,4]; selector: exception kind, interrupt site",
    "integer store time; recording runner double wraps each tasker.runner (send only)",
]

STOP, START, RUN, ABORT = 0, 1, 2, 3


def T1():
    return "\n".join([
        "house h",
        "  framer f0 be active first a",
        "    frame top", "      do verif record at enter", "      do verif record at exit", "      do verif raise at recur",
        "    frame a in top", "      do verif record at enter", "      do verif record at exit", "      do verif raise at recur",
        "      go b if recurred >= g0",
        "    frame b in top", "      do verif record at enter", "      do verif record at exit", "      do verif raise at recur",
        "      go c if recurred >= g1",
        "    frame c", "      do verif record at enter", "      do verif record at exit", "      bid stop me",
        "  framer f1 be active first x",
        "    frame x", "      do verif record at enter", "      do verif record at exit", "      do verif raise at recur",
        "      go y if recurred >= g2",
        "    frame y", "      do verif record at enter", "      do verif record at exit", "      bid stop all",
    ]) + "\n"


def T2():
    return "\n".join([
        "house h",
        "  framer f0 be active first a",
        "    frame a", "      do verif record at enter", "      do verif record at exit", "      do verif raise at recur",
        "      go b if recurred >= g0",
        "    frame b", "      do verif record at enter", "      do verif record at exit", "      bid start f2", "      do verif raise at recur",
        "      go c if recurred >= g1",
        "    frame c", "      do verif record at enter", "      do verif record at exit", "      bid abort f1", "      bid stop me",
        "  framer f1 be active first x",
        "    frame xt", "      do verif record at enter", "      do verif record at exit",
        "    frame x in xt", "      do verif record at enter", "      do verif record at exit", "      do verif raise at recur",
        "  framer f2 be inactive first p",
        "    frame p", "      do verif record at enter", "      do verif record at exit", "      do verif raise at recur",
        "      go q if recurred >= g2",
        "    frame q", "      do verif record at enter", "      do verif record at exit", "      bid stop me",
    ]) + "\n"


def T3():
    return "\n".join([
        "house h",
        "  framer f0 be active first a",
        "    frame top", "      do verif record at enter", "      do verif record at exit",
        "    frame a in top", "      do verif record at enter", "      do verif record at exit", "      do verif raise at recur",
        "    frame b in a", "      do verif record at enter", "      do verif record at exit", "      do verif raise at recur",
        "  framer f1 be active first x",
        "    frame x", "      do verif record at enter", "      do verif record at exit", "      do verif raise at recur",
        "      go y if recurred >= g2",
        "    frame y", "      do verif record at enter", "      do verif record at exit", "      bid stop me",
    ]) + "\n"


def T4():
    """a boss stops and restarts a worker with a nested outline (the second life starts in the same frame), then the run
    ends by crash / stop: the exit-all of the second life must again be bottom-up"""
    return "\n".join([
        "house h",
        "  framer boss be active first b0",
        "    frame b0", "      do verif raise at recur", "      go b1 if recurred >= g0",
        "    frame b1", "      bid stop wk", "      do verif raise at recur", "      go b2 if recurred >= 1",
        "    frame b2", "      bid start wk", "      do verif raise at recur", "      go b3 if recurred >= g1",
        "    frame b3", "      bid stop all",
        "  framer wk be active first leaf",
        "    frame top", "      do verif record at enter", "      do verif record at exit",
        "    frame mid in top", "      do verif record at enter", "      do verif record at exit",
        "    frame leaf in mid", "      do verif record at enter", "      do verif record at exit", "      do verif raise at recur",
    ]) + "\n"


def T5(P=2):
    """a framer with a period of P ticks keeps running after the every-tick framer has stopped itself: on the ticks
    it is not due nothing is run at all, yet the run must go on until it has stopped too"""
    return "\n".join([
        "house h",
        "  framer slow be active at %d first s0" % P,
        "    frame s0", "      do verif record at enter", "      do verif record at exit", "      do verif raise at recur",
        "      go s1 if recurred >= g0",
        "    frame s1", "      do verif record at enter", "      do verif record at exit", "      do verif raise at recur",
        "      go s2 if recurred >= g1",
        "    frame s2", "      bid stop me",
        "  framer fast be active first x",
        "    frame x", "      do verif record at enter", "      do verif record at exit", "      do verif raise at recur",
        "      go y if recurred >= g2",
        "    frame y", "      bid stop me",
    ]) + "\n"


def T6():
    return T5(3)


TEMPLATES = dict(T1=T1, T2=T2, T3=T3, T4=T4, T5=T5, T6=T6)


class Rec:
    """recording runner double: logs (tasker, control, status) then delegates to the real generator"""
    def __init__(self, tasker, log):
        self.t = tasker
        self.g = tasker.runner
        self.log = log

    def send(self, control):
        # the loop sends tasker.desire; the final sweep sends ABORT whatever the desire is
        sweep = (control == ABORT and self.t.desire != ABORT)
        try:
            st = self.g.send(control)
        except BaseException as ex:
            self.log.append((self.t.name, control, "raise:" + type(ex).__name__, sweep))
            raise
        self.log.append((self.t.name, control, st, sweep))
        return st


def h(sym, template, kind, site, M):
    from ioflo.base import skedding
    text = TEMPLATES[template]()
    with flogen.notrace(sym):
        houses = flogen.build_text(text)
    house = houses[0]
    store = house.store
    for g in ("g0", "g1", "g2"):
        store.create(g).value = sym.int(g, 0, 2)
    rlog = []
    for t in house.taskables:
        t.runner = Rec(t, rlog)
    CRASH["count"] = 0
    CRASH["kind"] = kind if site == "action" else 0
    CRASH["at"] = sym.int("crash_at", 1 if template == "T3" else 0, M) if (kind and site == "action") else 0
    ticks = [0]
    kb_at = sym.int("kb_tick", 1, 6) if site == "between" else 0
    orig = store.changeStamp

    def changeStamp(stamp):
        ticks[0] += 1
        if ticks[0] > 40:
            raise RuntimeError("run did not end within 40 ticks")
        rlog.append(("#tick", ticks[0], None, False))
        if site == "between" and ticks[0] == kb_at + 1:   # the first call happens before tick 0
            raise KeyboardInterrupt()
        store.stamp = stamp          # integer time: no float()
        store.timeShr.value = stamp
    store.changeStamp = changeStamp
    sk = skedding.Skedder(name="s", period=1.0, houses=houses)
    sk.period = 1
    sk.stamp = 0
    del LOG[:]
    raised = None
    try:
        sk.run()
    except Exception as ex:
        raised = ex
    crashed = any(isinstance(s, str) and s.startswith("raise:") for (_, _, s, _w) in rlog)
    raiser = next((n for (n, c, s, _w) in rlog if isinstance(s, str) and s.startswith("raise:")), None)
    # exception policy
    if crashed and kind == 1:
        sym.cover("exception")
        sym.check(isinstance(raised, ValueError), "C03/action-exception-not-reraised", lambda: "%r\n%s" % (raised, rlog))
    else:
        sym.check(raised is None, "C03/run-raised-unexpectedly", lambda: "%r\n%s" % (raised, rlog))
        if crashed:
            sym.cover("keyboard-interrupt-in-action")
    # split log into ticks; the final sweep = trailing ABORT sends after the loop ended
    names = [t.name for t in house.taskables]
    aborts = dict((n, 0) for n in names)
    for (n, c, s, w) in rlog:
        if n != "#tick" and c == ABORT:
            aborts[n] += 1
    interrupted = crashed or (site == "between" and kb_at < ticks[0])
    # every tasker still scheduled received exactly one ABORT, nobody two
    for n in names:
        bid_aborted = False
        # a tasker that received ABORT during the loop (bid abort) is aborted there and is not scheduled any more
        sent = [(c, s) for (x, c, s, w) in rlog if x == n]
        in_loop_abort = any(c == ABORT and s == 3 for (c, s) in sent[:-1]) if sent else False
        if n == raiser:
            continue
        sym.check(aborts[n] <= 1, "C03/tasker-aborted-twice", lambda: "%s\n%s" % (n, rlog))
        sym.check(aborts[n] == 1, "C03/scheduled-tasker-not-aborted", lambda: "%s\n%s" % (n, rlog))
        sym.check(sent[-1][0] == ABORT, "C03/tasker-run-after-abort", lambda: "%s\n%s" % (n, rlog))
    # normal end: after the first idle tick, not before
    if not interrupted:
        sym.cover("normal-end")
        # reconstruct per tick the statuses of scheduled taskers
        per_tick = []
        cur = None
        for (n, c, s, w) in rlog:
            if n == "#tick":
                cur = {}
                per_tick.append(cur)
            elif cur is not None and not w:
                cur[n] = s
        status = {}
        idle_ticks = []
        alive = set(names)
        for k, tk in enumerate(per_tick):
            for n, s in tk.items():
                status[n] = s
                if s == 3:
                    alive.discard(n)
            more = any(status.get(n, 0) in (1, 2) for n in alive)
            idle_ticks.append(not more or not alive)
        sym.check(idle_ticks and idle_ticks[-1], "C03/run-ended-while-a-tasker-was-running", lambda: "%s" % rlog)
        sym.check(not any(idle_ticks[:-1]), "C03/run-continued-after-an-idle-tick", lambda: "%s\n%s" % (idle_ticks, rlog))
    # frames: every framer other than the raiser has balanced enter/exit, exits bottom-up
    depth = {}
    for framer in house.framers:       # depth of a frame in its hierarchy, from the (immutable) over links
        for frame in framer.frameNames.values():
            d, o = 0, frame.over
            while o is not None:
                d, o = d + 1, o.over
            depth[(framer.name, frame.name)] = d
    stacks = {}
    for (fr, f, c) in LOG:
        st = stacks.setdefault(fr, [])
        if c == "enter":
            sym.check(all(depth[(fr, g)] < depth[(fr, f)] for g in st), "C03/frames-not-entered-top-down",
                      lambda: "%s %s entered while %s are entered\n%s" % (fr, f, st, LOG))
            st.append(f)
        elif c == "exit":
            sym.check(st and st[-1] == f, "C03/frames-not-exited-bottom-up", lambda: "%s %s stack %s\n%s" % (fr, f, st, LOG))
            sym.check(all(depth[(fr, g)] <= depth[(fr, f)] for g in st), "C03/frames-not-exited-bottom-up",
                      lambda: "%s %s exited while deeper frames %s are entered\n%s" % (fr, f, st, LOG))
            st.pop()
    for fr, st in stacks.items():
        if fr == raiser:
            if st:
                sym.cover("raiser-frames-left-entered")
            continue
        sym.check(not st, "C03/entered-frames-not-exited-at-end-of-run", lambda: "%s still entered %s\n%s" % (fr, st, LOG))
    return True


def obligations(tier):
    out = []
    M = 6 if tier == "quick" else 12
    temps = ["T1", "T2", "T3", "T4", "T5"] + (["T6"] if tier != "quick" else [])
    for t in temps:
        if t != "T3":
            out.append(Ob("%s/no-crash" % t, h, dict(template=t, kind=0, site="action", M=M), budget=600, covers=["normal-end"],
                          bounds=dict(template=t, bid_ticks="[0,2]")))
        for kind, kn in ((1, "ValueError"), (2, "KeyboardInterrupt")):
            out.append(Ob("%s/crash-in-action/%s" % (t, kn), h, dict(template=t, kind=kind, site="action", M=M), budget=900,
                          covers=["exception"] if kind == 1 else ["keyboard-interrupt-in-action"],
                          bounds=dict(template=t, crash_call="[0,%d]" % M, bid_ticks="[0,2]")))
        out.append(Ob("%s/interrupt-between-ticks" % t, h, dict(template=t, kind=2, site="between", M=M), budget=900,
                      bounds=dict(template=t, interrupt_after_tick="[1,6]", bid_ticks="[0,2]")))
    return out
