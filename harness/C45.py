"""C45 -- arbiters select outputs by their documented rules (E1).

Real ArbiterSwitch / ArbiterPriority / ArbiterTrusted / ArbiterWeighted built on a real
Store (constructed without its bookkeeping shares).  For n inputs every input has a
symbolic selection (bool), importance (int), truth (None / True / False / a quarter-grid
number k/4 incl. out-of-range / an int incl. out-of-range) and integer value; the default
share has a symbolic truth on the quarter grid in [0, 1] and a symbolic value.  One
`update()`; output value / truth are compared with the rule in the property statement.
Any exception is a violation ("never raising").
"""
from engine import Ob
from engine import symx  # noqa: F401
from ioflo.aid.odicting import odict
from ioflo.base.storing import Store, Node
from ioflo.base import arbiting

PROPERTY = "C45"
ENGINE = "E1"
FUNCTIONS = ["ioflo.base.arbiting.Arbiter.__init__", "Arbiter.FixTruth", "ArbiterSwitch.update",
             "ArbiterPriority.update", "ArbiterTrusted.update", "ArbiterWeighted.update"]
TECHNIQUE = "E1: symbolic execution of the real arbiters on a real Store; selections (bool), importances, truths (None/True/False/quarter grid/int) and values symbolic"
LEVEL_TEXT = "bounded model checking: 1-2 inputs (quick), 1-3 inputs (thorough); importance [0,3], value [-2,2], truth k/4 in [-0.5,1.5], default truth k/4 in [0,1]"
LEVEL_NOTE = "floats modelled as exact reals; all products on the grid are exact in float64"
ASSUMPTIONS = [
    "Store built without __init__'s bookkeeping shares; arbiter constructed through its real __init__ with an odict of inputs",
    "truth domain per input: None, True, False, k/4 for k in [-2,6] (exact dyadic floats, incl. out-of-range), int in [-1,2]",
    "importance: integers in [0,3] (documented domain: non-negative); values: integers in [-2,2]; default truth: k/4, k in [0,4] (valid range); default value integer in [-2,2]",
    "floats are modelled as exact reals (CrossHair RealBasedSymbolicFloat forced); every product / sum on this grid is exact in float64 too",
    "an input's truth on the output may be the raw or the normalised ([0,1]) truth (statement silent): both accepted",
    "priority arbiter, all qualifying inputs have importance 0: the code falls back to the default; the statement can be read either way, "
    "so both the default and the first qualifying input are accepted there",
    "weighted arbiter: weighted truth = sum(imp*truth)/sum(imp) over selected inputs, value = sum(imp*truth*value)/sum(imp*truth); "
    "no selected weight => default",
    "concrete replay compares the weighted quotients with tolerance 1e-9, the symbolic run exactly",
]

TAGS = ["a", "b", "c", "d"]
KINDS = dict(switch=arbiting.ArbiterSwitch, priority=arbiting.ArbiterPriority,
             trusted=arbiting.ArbiterTrusted, weighted=arbiting.ArbiterWeighted)
IMAX = 3


def exact_reals(sym):
    if sym.symbolic:
        from crosshair.tracers import NoTracing
        from crosshair.statespace import context_statespace
        from crosshair.libimpl.builtinslib import ModelingDirector, RealBasedSymbolicFloat
        with NoTracing():
            context_statespace().extra(ModelingDirector).global_representations[float] = RealBasedSymbolicFloat


def mkstore():
    store = Store.__new__(Store)
    store.name = "s"
    store.stamp = None
    store.house = None
    store.shares = Node().byName('')
    return store


def mktruth(sym, i, tkinds):
    """returns (raw truth, normalised truth)"""
    tk = sym.int("tk%d" % i, 0, len(tkinds) - 1)
    for j, kind in enumerate(tkinds):
        if tk == j:
            break
    if kind == "none":
        return None, 1
    if kind == "true":
        return True, 1
    if kind == "false":
        return False, 0
    if kind == "quarter":
        k = sym.int("tq%d" % i, -2, 6)
        raw = k / 4
    else:
        raw = sym.int("ti%d" % i, -1, 2)
    fix = raw
    if raw < 0:
        fix = 0
    elif raw > 1:
        fix = 1
    return raw, fix


def same(sym, a, b):
    if sym.symbolic:
        return a == b
    if a is None or b is None or isinstance(a, bool) or isinstance(b, bool):
        return a == b
    return abs(a - b) <= 1e-9


def truth_ok(sym, got, raw, fix):
    if raw is None or raw is True or raw is False:
        return got is raw or (got is not None and got is not True and got is not False and same(sym, got, fix))
    if got is None or got is True or got is False:
        return False
    return same(sym, got, raw) or same(sym, got, fix)


def h(sym, arb, n, tkinds):
    exact_reals(sym)
    store = mkstore()
    sels, imps, raws, fixes, vals = [], [], [], [], []
    inputs = odict()
    for i in range(n):
        sels.append(sym.bool("sel%d" % i))
        imps.append(sym.int("imp%d" % i, 0, IMAX))
        inputs[TAGS[i]] = ("in." + TAGS[i], sels[i], imps[i])
    try:
        a = KINDS[arb](name="arb", store=store, output="out", group="grp", inputs=inputs)
    except Exception as e:
        sym.fail("C45/%s/constructor-raised-%s" % (arb, type(e).__name__), str(e)[:120])
    for i in range(n):
        raw, fix = mktruth(sym, i, tkinds[i])
        v = sym.int("val%d" % i, -2, 2)
        share = a.inputs[TAGS[i]]
        share.value = v
        share.truth = raw
        raws.append(raw)
        fixes.append(fix)
        vals.append(v)
    dt = sym.int("dt", 0, 4) / 4
    dv = sym.int("dv", -2, 2)
    a.default.value = dv
    a.default.truth = dt
    try:
        a.update()
    except Exception as e:
        sym.fail("C45/%s/raised-%s" % (arb, type(e).__name__), str(e)[:120])
    out = a.output

    def is_default():
        return same(sym, out.value, dv) and same(sym, out.truth, dt)

    def is_input(j):
        return same(sym, out.value, vals[j]) and truth_ok(sym, out.truth, raws[j], fixes[j])

    if arb == "switch":
        first = None
        for i in range(n):
            if sels[i]:
                first = i
                break
        if first is None:
            sym.cover("default")
            sym.check(is_default(), "C45/switch/none-selected-not-default")
        else:
            sym.cover("input")
            sym.check(is_input(first), "C45/switch/not-first-selected-input")
        return True

    if arb in ("priority", "trusted"):
        cand = [i for i in range(n) if sels[i] and fixes[i] > dt]
        if not cand:
            sym.cover("default")
            sym.check(is_default(), "C45/%s/no-qualifying-input-not-default" % arb)
            return True
        if arb == "trusted":
            tmax = fixes[cand[0]]
            for i in cand:
                if fixes[i] > tmax:
                    tmax = fixes[i]
            cand2 = [i for i in cand if fixes[i] == tmax]
            if len(cand2) < len(cand):
                sym.cover("truth-decides")
            if len(cand2) > 1:
                sym.cover("truth-tie")
            cand = cand2
        imax = imps[cand[0]]
        for i in cand:
            if imps[i] > imax:
                imax = imps[i]
        best = [i for i in cand if imps[i] == imax][0]
        if len(cand) > 1:
            sym.cover("several-qualify")
        sym.cover("input")
        if arb == "priority" and imax == 0:
            sym.cover("all-importance-zero")
            sym.check(is_input(best) or is_default(), "C45/priority/zero-importance-neither-first-nor-default")
            return True
        sym.check(is_input(best), "C45/%s/not-the-documented-input" % arb,
                  "expected input %d" % best)
        return True

    # weighted
    W = 0
    C = 0
    V = 0
    for i in range(n):
        if sels[i]:
            W = W + imps[i]
            C = C + imps[i] * fixes[i]
            V = V + imps[i] * fixes[i] * vals[i]
    if W > 0 and C > 0 and C / W > dt:
        sym.cover("weighted")
        sym.check(same(sym, out.truth, C / W), "C45/weighted/truth-not-weighted-average")
        sym.check(same(sym, out.value, V / C), "C45/weighted/value-not-weighted-average")
    else:
        sym.cover("default")
        sym.check(is_default(), "C45/weighted/insufficient-weighted-truth-not-default")
    return True


TK_ALL = ["none", "true", "false", "quarter", "int"]
TK_3 = ["none", "true", "false", "quarter"]


def obligations(tier):
    quick = tier == "quick"
    out = []

    def add(arb, n, name, tk):
        # an input whose truth is False can never exceed the default truth: a shard of only-False inputs
        # can reach the default outcome only (the switch arbiter ignores truth)
        can_qualify = arb == "switch" or any(k != "false" for kinds in tk for k in kinds)
        covers = ["default"]
        if can_qualify:
            covers += ["input"] if arb != "weighted" else ["weighted"]
            if arb == "trusted" and n == 2:
                covers += ["truth-tie", "truth-decides"]
            if arb == "priority":
                covers += ["all-importance-zero"]
        out.append(Ob(name, h, dict(arb=arb, n=n, tkinds=tk), hang_s=240, budget=300 if quick else 2400, covers=covers,
                      bounds=dict(inputs=n, importance=[0, IMAX], value=[-2, 2], truth_kinds_per_input=tk,
                                  quarter_truth="k/4, k in [-2,6]", int_truth=[-1, 2], default_truth="k/4, k in [0,4]")))

    for arb in ("switch", "priority", "trusted", "weighted"):
        for n in (1, 2):
            add(arb, n, "%s/n%d" % (arb, n), [TK_ALL] * n)
        if quick:
            # three inputs with numeric truths: ordering effects between three candidates (priority / trusted tie-breaks)
            if arb in ("priority", "trusted"):
                add(arb, 3, "%s/n3/quarter-quarter-quarter" % arb, [["quarter"], ["quarter"], ["quarter"]])
        else:
            # three inputs: one shard per combination of truth kinds
            for k0 in TK_3:
                for k1 in TK_3:
                    for k2 in TK_3:
                        add(arb, 3, "%s/n3/%s-%s-%s" % (arb, k0, k1, k2), [[k0], [k1], [k2]])
    return out
