"""C09 -- auxiliary framers live exactly as long as their main frame (E1).

Real Builder + real framer code; frames at any level carry plain auxiliaries
(distinct originals, or one original attached to two frames); the auxiliaries
have two frames and a 'done' verb on the second; transitions of the main framer
may be guarded by 'if any|all|aux NAME in frame F is done'.  All share values of
the symbolic ticks are symbolic.  Checked directly on the recorded actions:
 (i)   every enter of a host frame is followed at once by the enter of its
       auxiliaries' first frames, and auxiliaries are entered nowhere else;
 (ii)  in every run in which the host frame is active the auxiliary runs once:
       its transitions come before any transition evaluation of the main framer,
       its recur action comes right after its host frame's recur action;
 (iii) at every tick boundary an auxiliary has an entered frame iff its host
       frame is entered; it is exited just before its host's exit action;
 (iv)  an original auxiliary is never entered under two frames at once;
 (v)   transitions guarded by done-conditions are taken exactly when the
       specification's completion state says so, and the done flags agree.
"""
from engine import Ob
from engine import flostep, floref
from engine.flostep import START, RUN, STOP, ABORT

PROPERTY = "C09"
ENGINE = "E1"
FUNCTIONS = ["ioflo.base.framing.Frame.enter/exit/recur/segueAuxes/checkEnter", "ioflo.base.framing.Framer.segue/recur/enterAll/exitAll",
             "ioflo.base.completing.CompleteDone.action", "ioflo.base.needing.NeedDoneAux.action", "ioflo.base.acting.Transiter.action",
             "ioflo.base.building.Builder.build (concrete text)"]
ASSUMPTIONS = [
    "program family: one framer of N frames (arbitrary forest, arbitrary first), 1 transition optionally guarded by a done-condition, 1-2 plain auxiliaries "
    "(aux3 variant: three frames, done on the middle frame followed by a further transition, so completion must survive the auxiliary's own later transitions) "
    "(own originals, or the same original on two frames) of two frames with 'done me' on the second",
    "share values are integers in [0,1]; start tick concrete (all guards true), later ticks fully symbolic",
    "hosts that put one original on two frames of the same outline are assumed away here (that defect is reported by C08's known finding)",
    "(v) uses the specification function engine/floref.py for the expected completion state",
]


def h(sym, n, auxes, symticks, parent, done_need, end, force_same=False, aux_frames=2):
    prog, info = flostep.family(sym, n, ngo=1, auxes=auxes, parent=parent, near_in_cur=True, host_in_cur=False,
                                done_need=done_need, force_same=force_same, aux_frames=aux_frames)
    hosts = {}
    for (name, kind, host) in info["aux"]:
        hosts.setdefault("f%d" % host, []).append(name)
    owners = {}
    for f, names in hosts.items():
        for a in names:
            owners.setdefault(a, []).append(f)
    # one original on two frames of one chain: C08's known finding; not this property's subject
    for a, fs in owners.items():
        if len(fs) > 1 or any(names.count(a) > 1 for names in hosts.values()):
            idx = [int(f[1:]) for f in fs]
            for i in range(n):
                ch = flostep.chain(info["parent"], i)
                sym.assume(sum(1 for x in idx if x in ch) <= 1)
            sym.assume(all(names.count(a) <= 1 for names in hosts.values()))
    controls = [START] + [RUN] * symticks + ([end] if end is not None else [])
    text, out = flostep.run(sym, prog, controls, plan=[{"*": 1}])
    entered = {}
    for k, (control, rlog, flog, robs, fobs, env) in enumerate(out):
        # (i) aux enters directly after host enter; (iv) never twice
        i = 0
        while i < len(rlog):
            fr, f, c = rlog[i]
            if fr == "m" and c == "enter":
                j = i + 1
                for a in hosts.get(f, []):
                    sym.check(j < len(rlog) and rlog[j][0] == a and rlog[j][2] == "enter" and rlog[j][1].endswith("0"),
                              "C09/aux-not-entered-with-main-frame", "tick %d host %s aux %s log %s\n%s" % (k, f, a, rlog, text))
                    sym.cover("aux-entered-with-host")
                    j += 1
            if fr != "m" and c == "enter" and f.endswith("0"):
                # must be preceded (through earlier aux enters only) by a host enter
                j = i - 1
                while j >= 0 and rlog[j][0] != "m" and rlog[j][2] == "enter":
                    j -= 1
                sym.check(j >= 0 and rlog[j][0] == "m" and rlog[j][2] == "enter" and fr in hosts.get(rlog[j][1], []),
                          "C09/aux-entered-without-main-frame-entry", "tick %d %s log %s\n%s" % (k, fr, rlog, text))
            if fr != "m":
                if c == "enter":
                    sym.check(not entered.get((fr, f)), "C09/original-aux-active-under-two-frames", "tick %d %s.%s\n%s" % (k, fr, f, text))
                    entered[(fr, f)] = True
                elif c == "exit":
                    entered[(fr, f)] = False
            else:
                if c == "enter":
                    entered[(fr, f)] = True
                elif c == "exit":
                    # (iii) aux exited just before the host's exit action
                    for a in hosts.get(f, []):
                        sym.check(not any(v for (x, y), v in entered.items() if x == a),
                                  "C09/aux-still-entered-when-main-frame-exits", "tick %d host %s aux %s\n%s" % (k, f, a, text))
                    entered[(fr, f)] = False
            i += 1
        # (ii) per run: aux transitions before main's transition evaluation; aux recur right after host recur
        if control == RUN and robs["m"]["status"] in (1, 2):
            first_main_eval = next((i for i, e in enumerate(rlog) if e[0] == "m" and e[2] in ("precur", "transit")), len(rlog))
            for i, e in enumerate(rlog):
                if e[0] != "m" and e[2] == "transit":
                    sym.check(i < first_main_eval, "C09/aux-transition-after-main-framer-evaluation", "tick %d log %s\n%s" % (k, rlog, text))
                    sym.cover("aux-transition")
        for i, e in enumerate(rlog):
            if e[0] == "m" and e[2] == "recur":
                j = i + 1
                for a in hosts.get(e[1], []):
                    sym.check(j < len(rlog) and rlog[j][0] == a and rlog[j][2] == "recur",
                              "C09/aux-recur-not-right-after-main-frame-recur", "tick %d host %s aux %s log %s\n%s" % (k, e[1], a, rlog, text))
                    j += 1
            if e[0] != "m" and e[2] == "recur":
                sym.check(i > 0 and ((rlog[i - 1][0] == "m" and rlog[i - 1][2] == "recur" and e[0] in hosts.get(rlog[i - 1][1], []))
                                     or (rlog[i - 1][0] != "m" and rlog[i - 1][2] == "recur")),
                          "C09/aux-recur-without-main-frame-recur", "tick %d log %s\n%s" % (k, rlog, text))
        # (iii) tick boundary: aux entered iff host entered
        for a, fs in owners.items():
            host_in = any(entered.get(("m", f)) for f in fs)
            aux_in = any(v for (x, y), v in entered.items() if x == a)
            sym.check(host_in == aux_in, "C09/aux-lifetime-differs-from-main-frame",
                      "tick %d aux %s host entered %s aux entered %s\n%s" % (k, a, host_in, aux_in, text))
        # (v) done conditions
        rt = [e for e in rlog if e[0] == "m" and e[2] == "transit"]
        ft = [e for e in flog if e[0] == "m" and e[2] == "transit"]
        sym.check(rt == ft, "C09/done-condition-transition-differs-from-spec", "tick %d real %s spec %s\n%s" % (k, rt, ft, text))
        for a in owners:
            sym.check(robs[a]["done"] == fobs[a]["done"], "C09/done-flag-differs-from-spec",
                      "tick %d aux %s real %s spec %s\n%s" % (k, a, robs[a]["done"], fobs[a]["done"], text))
            if robs[a]["done"] and robs[a]["active"] is not None:
                sym.cover("aux-done-while-active")
    return True


def obligations(tier):
    out = []
    if tier == "quick":
        cfgs = [(3, ("plain",), 1, (0, 2, 3), STOP), (3, ("plain", "plain"), 1, False, None), (2, ("plain",), 2, (2, 3), None, 3)]
    else:
        cfgs = [(3, ("plain",), 3, True, STOP), (4, ("plain",), 2, True, ABORT), (3, ("plain", "plain"), 2, True, STOP),
                (4, ("plain", "plain"), 1, False, None), (2, ("plain",), 4, True, STOP, 3), (3, ("plain",), 3, (2, 3), None, 3)]
    for cfg in cfgs:
        (n, auxes, symticks, done_need, end) = cfg[:5]
        aux_frames = cfg[5] if len(cfg) > 5 else 2
        for parent in (flostep.QUICK_FORESTS.get(n, flostep.all_forests(n)) if tier == "quick" else flostep.all_forests(n)):
            if tier == "quick" and len(auxes) == 2 and parent == list(range(-1, n - 1)):
                continue    # one original on two frames (forced in the quick tier) of a single chain is always C08's case: vacuous here
            out.append(Ob("step/N%d-%s%s-sym%d-%s-%s/%s" % (n, "+".join(auxes), "-aux3" if aux_frames == 3 else "", symticks, "doneneed" if done_need else "plaingo",
                                                        {None: "run", 0: "stop", 3: "abort"}[end],
                                                        "".join("r" if q < 0 else str(q) for q in parent)),
                          h, dict(n=n, auxes=auxes, symticks=symticks, parent=parent, done_need=done_need, end=end,
                                  force_same=(tier == "quick"), aux_frames=aux_frames),
                          budget=500 if tier == "quick" else 1500, covers=["aux-entered-with-host"],
                          bounds=dict(frames=n, forest=parent, first="any", auxes=list(auxes), symbolic_ticks=symticks,
                                      share_values="[0,1]")))
    return out
