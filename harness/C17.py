"""C17 -- direct data literals convert to the documented typed values (E1, selector-symbolic only).

A literal is produced by a grammar (shape x magnitude grid x sign, all symbolic selectors), written
into a script in one of the literal contexts (init, put, set, inc, do with / cum / per, need goal,
framer-state need goal, bid period) and the script is built by the REAL Builder (and run for one
tick where the statement speaks of "after actions run").  The stored value is compared -- type and
value -- with a reference classifier written from the documented conversion order

    direct data : quoted string, none/true/yes/false/no, path text, lat/lon, typed points,
                  decimal int, hex int, float, complex
    need goal   : quoted string, none/bool, lat/lon, decimal int, hex int, float, complex,
                  otherwise an indirect (share) goal
    bid period  : decimal int, hex int, float

The reference uses its own regular expressions and Python's int()/float()/complex() on text it has
already classified; it never calls ioflo's converters.  A second family writes Python values
(finite numbers, booleans, None, points, quote-free strings) in their literal form and requires the
same value back.
"""
import math
import re
from engine import Ob
from engine import flobuild as fb
from ioflo.base import globaling

PROPERTY = "C17"
ENGINE = "E1"
FUNCTIONS = ["ioflo.base.building.Convert2Num", "Convert2CoordNum", "Convert2BoolCoordNum", "Convert2StrBoolCoordNum",
             "Convert2PointNum", "Convert2CoordPointNum", "Convert2BoolCoordPointNum", "Convert2PathCoordPointNum",
             "Convert2BoolPathCoordPointNum", "Convert2StrBoolPathCoordPointNum", "Builder.parseDirect",
             "Builder.parseNeedGoal", "Builder.parseFramerNeedGoal", "Builder.buildBid", "Builder.buildInit/Put/Set/Inc/Do",
             "globaling.REO_LatLonNE/SW", "globaling.REO_Point*", "globaling.REO_PathNode", "globaling.REO_Quoted*",
             "poking.PokeDirect", "goaling.GoalDirect"]
ASSUMPTIONS = [
    "selector-symbolic only: a text round trip realises symbolic integers (measured, DESIGN 2), so shape, magnitude, "
    "sign and context are symbolic selectors realised per path; Builder / one tick run execute under NoTracing(); the "
    "solver's role is the proof that the literal grammar was exhausted",
    "literal grammar: the shapes, magnitude grids and case variants listed in bounds (ASCII only, no underscores in "
    "numbers, no blanks outside quotes)",
    "reference classifier = the statement's conversion order with: quoted = matching outer quotes with none of that "
    "quote inside; path = dotted identifiers with optional leading/trailing dot; lat/lon = <digits>[NEne|SWsw]<digits>."
    "<digits> -> +/-(deg+min/60); point = the six documented forms with decimal coordinates -> namedtuple of floats; "
    "decimal int = [+-]digits; hex int = [+-][0x]hexdigits (so 1e5 is the hex int 485, as the documented order says); "
    "float / complex = what Python's float()/complex() accept",
    "bid period: only positive real literals (the builder's max(0.0, .) clamp is not part of the statement)",
    "inc: the act's parsed data is observed (the statement lists inc as a context; running inc on non-numbers is outside)",
    "do per: the parsed ioinit value is observed; a literal that is not a string may make the doer's resolution fail "
    "(by design) -- if it is kept it must have the documented type and value",
    "need goal / bid period: text that is not a literal of that context is a share reference (or a rejected path); the "
    "only demand then is that it is not stored as a direct value",
    "round trip: literal form = str(int) / repr(float) / repr(complex) / True False None in Python and lower case / "
    "'<x>x<y>y'-style point text with repr() coordinates (points whose repr() needs an exponent have no literal form and "
    "are excluded) / the string in double quotes",
]

# ---------------------------------------------------------------------------------------------
# reference classifier (independent of ioflo)
# ---------------------------------------------------------------------------------------------
_C = r"([-+]?\d+\.\d*|[-+]?\d+)"
R_PATH = re.compile(r"^(?:[A-Za-z_][A-Za-z_0-9]*(?:\.[A-Za-z_][A-Za-z_0-9]*)*\.?|(?:\.[A-Za-z_][A-Za-z_0-9]*)+\.?)$")
R_LLP = re.compile(r"^(\d+)[NEne](\d+\.\d+)$")
R_LLN = re.compile(r"^(\d+)[SWsw](\d+\.\d+)$")
R_POINTS = [("Pxy", re.compile("^%s[Xx]%s[Yy]$" % (_C, _C))),
            ("Pne", re.compile("^%s[Nn]%s[Ee]$" % (_C, _C))),
            ("Pfs", re.compile("^%s[Ff]%s[Ss]$" % (_C, _C))),
            ("Pxyz", re.compile("^%s[Xx]%s[Yy]%s[Zz]$" % (_C, _C, _C))),
            ("Pned", re.compile("^%s[Nn]%s[Ee]%s[Dd]$" % (_C, _C, _C))),
            ("Pfsb", re.compile("^%s[Ff]%s[Ss]%s[Bb]$" % (_C, _C, _C)))]
R_INT = re.compile(r"^[-+]?\d+$")
R_HEX = re.compile(r"^[-+]?(?:0[xX])?[0-9a-fA-F]+$")


def ref_number(text):
    if R_INT.match(text):
        return ("num", int(text, 10))
    if R_HEX.match(text):
        return ("num", int(text, 16))
    try:
        return ("num", float(text))
    except ValueError:
        pass
    try:
        return ("num", complex(text))
    except ValueError:
        pass
    return ("error",)


def ref_latlon(text):
    m = R_LLP.match(text)
    if m:
        return ("num", float(m.group(1)) + float(m.group(2)) / 60.0)
    m = R_LLN.match(text)
    if m:
        return ("num", -(float(m.group(1)) + float(m.group(2)) / 60.0))
    return None


def ref_point(text):
    for name, reo in R_POINTS:
        m = reo.match(text)
        if m:
            return ("point", name, tuple(float(g) for g in m.groups()))
    return None


def ref_quoted(text):
    if len(text) >= 2 and text[0] == text[-1] and text[0] in "\"'" and text[0] not in text[1:-1]:
        return ("str", text[1:-1])
    return None


def ref_bool(text):
    t = text.lower()
    if t == "none":
        return ("none",)
    if t in ("true", "yes"):
        return ("bool", True)
    if t in ("false", "no"):
        return ("bool", False)
    return None


def reference(text, chain):
    """chain in {'direct', 'need', 'period'}"""
    if chain in ("direct", "need"):
        r = ref_quoted(text) or ref_bool(text)
        if r:
            return r
    if chain == "direct" and R_PATH.match(text):
        return ("str", text)
    if chain in ("direct", "need"):
        r = ref_latlon(text)
        if r:
            return r
    if chain == "direct":
        r = ref_point(text)
        if r:
            return r
    r = ref_number(text)
    if r[0] == "error" and chain in ("need", "period"):
        return ("indirect",)
    return r


def classify(v):
    """the same tagged form for a value found in the built house"""
    if v is None:
        return ("none",)
    if isinstance(v, bool):
        return ("bool", v)
    if isinstance(v, str):
        return ("str", v)
    if isinstance(v, tuple) and hasattr(v, "_fields"):
        return ("point", type(v).__name__, tuple(v))
    if isinstance(v, (int, float, complex)):
        return ("num", v)
    return ("other", type(v).__name__)


def same(a, b):
    """tagged values equal in type and value (floats by repr so that -0.0 / nan are told apart)"""
    if a[0] != b[0]:
        return False
    if a[0] == "num":
        return type(a[1]) is type(b[1]) and repr(a[1]) == repr(b[1])
    if a[0] == "point":
        return a[1] == b[1] and len(a[2]) == len(b[2]) and \
            all(type(x) is type(y) and repr(x) == repr(y) for x, y in zip(a[2], b[2]))
    return a == b


# ---------------------------------------------------------------------------------------------
# literal grammar
# ---------------------------------------------------------------------------------------------
INTS_Q = ["0", "1", "7", "10", "255", "2147483648", "9223372036854775808", "10000000000000000000000"]
INTS_T = INTS_Q + ["9", "16", "4095", "65536", "9007199254740993", "18446744073709551615", "123456789"]
INTS = INTS_Q                      # rebound per obligation process by use_tier()
FRACS = ["0", "5", "25", "0000001", "1", "456"]
EXPS = ["0", "3", "22", "-7", "+2", "308", "-324", "400"]
SIGNS = ["", "+", "-"]
WORDS = ["true", "True", "TRUE", "tRuE", "yes", "Yes", "YES", "false", "False", "FALSE", "no", "No", "NO",
         "none", "None", "NONE", "nOnE"]
QUOTED = ['"plain"', '"two words"', '"a # b"', "\"it's\"", '""', '"5"', '"true"', '".a.b"', '" lead and trail "',
          "'single'", "'say \"hi\"'", "''", "'0x1F'", "'45N30.5'", '"1x2y"']
PATHS = ["a", "a.b", ".a.b", "a.b.", ".a.", "_x", "a1.b2", "nan", "inf", "e5", "x1y", "ff", "n", "True.x", "none.x"]
COORDS_Q = ["0", "1", "-2", "+3", "1.5", "-0.25", "7.", "0012"]
COORDS_T = COORDS_Q + ["-0", "10.125", "+.5", "1e3", "255"]     # '+.5' and '1e3' are not documented coordinate forms
COORDS = COORDS_Q
INVALID = ["1..2", "0x", "1e", "--1", "1x", "45N30", "45N", "1x2", "1n2y", "0b101", "1,5", "$5", "a-b", "1x2y3", "x1.5y"]


def _int(a, b, s):
    return SIGNS[s] + INTS[a]


def _lead0(a, b, s):
    return SIGNS[s] + "00" + INTS[a]


def _hex0x(a, b, s):
    return SIGNS[s] + "0x%x" % int(INTS[a])


def _hex0X(a, b, s):
    return SIGNS[s] + "0X%X" % int(INTS[a])


def _hexbare(a, b, s):
    return SIGNS[s] + "%x" % (int(INTS[a]) * 16 + 10)     # ends in 'a': bare hex digits, starts with a digit when a > 0


def _expint(a, b, s):
    return SIGNS[s] + "1e" + EXPS[b].lstrip("+-")           # 1e5-like: float exponent notation AND hex digits


def _float(a, b, s):
    return SIGNS[s] + INTS[a] + "." + FRACS[b]


def _floatdot(a, b, s):
    return SIGNS[s] + INTS[a] + "."


def _dotfrac(a, b, s):
    return SIGNS[s] + "." + FRACS[b]


def _floatexp(a, b, s):
    return SIGNS[s] + FRACS[a % len(FRACS)] + ".5e" + EXPS[b]


def _intexp(a, b, s):
    return SIGNS[s] + "2E" + EXPS[b] if EXPS[b][0] in "+-" else SIGNS[s] + "2.E" + EXPS[b]


def _nonfinite(a, b, s):
    return ["-inf", "+inf", "-nan", "+Infinity", "-INF"][a]


def _complex(a, b, s):
    return [INTS[a] + "j", INTS[a] + "+2j", "(" + INTS[a] + "+2j)", "1.5-" + INTS[a] + "j", SIGNS[s] + INTS[a] + "J"][b]


def _latlon(a, b, s):
    return INTS[a] + "NnEeSsWw"[b] + ["30.5", "0.25", "59.999", "00.0"][s]


def _point2(a, b, s):
    l1, l2 = ["xy", "XY", "ne", "NE", "fs", "Fs"][s]
    return COORDS[a] + l1 + COORDS[b] + l2


def _point3(a, b, s):
    l1, l2, l3 = ["xyz", "XYZ", "ned", "NeD", "fsb", "FSB"][s]
    return COORDS[a] + l1 + COORDS[b] + l2 + COORDS[(a + b) % len(COORDS)] + l3


# name -> (fn, range a, range b, range s)
SHAPES = [
    ("int", _int, len(INTS), 1, 3), ("lead0", _lead0, len(INTS), 1, 3),
    ("hex0x", _hex0x, len(INTS), 1, 3), ("hex0X", _hex0X, len(INTS), 1, 3), ("hexbare", _hexbare, len(INTS), 1, 3),
    ("expint", _expint, 1, len(EXPS), 3),
    ("float", _float, len(INTS), len(FRACS), 3), ("floatdot", _floatdot, len(INTS), 1, 3),
    ("dotfrac", _dotfrac, 1, len(FRACS), 3), ("floatexp", _floatexp, len(FRACS), len(EXPS), 3),
    ("intexp", _intexp, 1, len(EXPS), 3), ("nonfinite", _nonfinite, 5, 1, 1),
    ("complex", _complex, len(INTS), 5, 3),
    ("word", lambda a, b, s: WORDS[a], len(WORDS), 1, 1),
    ("quoted", lambda a, b, s: QUOTED[a], len(QUOTED), 1, 1),
    ("path", lambda a, b, s: PATHS[a], len(PATHS), 1, 1),
    ("latlon", _latlon, len(INTS), 8, 4),
    ("point2", _point2, len(COORDS), len(COORDS), 6), ("point3", _point3, len(COORDS), len(COORDS), 6),
    ("invalid", lambda a, b, s: INVALID[a], len(INVALID), 1, 1),
]


def shapes(tier):
    ni = len(INTS_Q if tier == "quick" else INTS_T)
    nc = len(COORDS_Q if tier == "quick" else COORDS_T)
    out = []
    for n, f, ra, rb, rs in SHAPES:
        ra = ni if ra == len(INTS_Q) and n not in ("word", "quoted", "path", "invalid", "point2", "point3") else ra
        if n in ("point2", "point3"):
            ra, rb = nc, nc
        out.append((n, f, ra, rb, rs))
    return out


def use_tier(tier):
    global INTS, COORDS
    INTS = INTS_Q if tier == "quick" else INTS_T
    COORDS = COORDS_Q if tier == "quick" else COORDS_T

# ---------------------------------------------------------------------------------------------
# contexts
# ---------------------------------------------------------------------------------------------
HEAD = "house h1\ninit .s with value 1\ninit .i with value 0\nframer fw be inactive first w0\n  frame w0\n" \
       "framer ff be active first fa\n  frame fa\n"
TAIL = "  frame fz\n"


def _first_act(house, lst):
    ff = [f for f in house.framers if f.name == "ff"][0]
    return getattr(ff.frameNames["fa"], lst)[0]


def _data_value(d):
    return d["value"] if "value" in d else list(d.values())[0]


CONTEXTS = {
    # name: (chain, script line, extractor(house) -> value, run a tick and read this share afterwards or None)
    "init": ("direct", "init .t with %s", lambda h: h.store.fetchShare("t").value, None),
    "put": ("direct", "    put %s into .p", lambda h: _data_value(_first_act(h, "enacts").parms["data"]), "p"),
    "set": ("direct", "    set goal.g with %s", lambda h: _data_value(_first_act(h, "enacts").parms["data"]), "goal.g"),
    "inc": ("direct", "    inc .i with %s", lambda h: _data_value(_first_act(h, "enacts").parms["sourceData"]), None),
    "dowith": ("direct", "    do doer param with k %s", lambda h: _first_act(h, "reacts").parms["k"], None),
    "docum": ("direct", "    do doer param cum c %s", lambda h: _first_act(h, "reacts").inits["c"], None),
    "doper": ("direct", "    do doer param per k %s", lambda h: _first_act(h, "reacts").ioinits["k"], None),
    "need": ("need", "    go next if .s == %s", lambda h: _first_act(h, "preacts").parms["needs"][0].parms["goal"], None),
    "framerneed": ("need", "    go next if elapsed >= %s",
                   lambda h: _first_act(h, "preacts").parms["needs"][0].parms["goal"], None),
    "bid": ("period", "    bid start fw at %s", lambda h: _first_act(h, "enacts").parms["period"], None),
}


def observe(ctx, lit):
    chain, line, extract, share = CONTEXTS[ctx]
    text = HEAD + (line % lit) + "\n" + TAIL
    r = fb.build(text, cpu_limit=5.0)
    if r.hung:
        return ("hang",), None
    if r.exc is not None or not r.ok:
        return ("error", r.kind, r.message()[:120]), None
    house = r.houses[0]
    v = extract(house)
    from ioflo.base import storing
    got = ("indirect",) if isinstance(v, (storing.Share, storing.Node)) else classify(v)
    after = None
    if share is not None:
        trace = fb.run_ticks(r.houses, 1, values=False)
        sh = house.store.fetchShare(share)
        after = classify(sh.value) if sh is not None else ("missing",)
    return got, after


def expected_in_context(ctx, lit):
    chain = CONTEXTS[ctx][0]
    exp = reference(lit, chain)
    if ctx == "inc" and exp[0] == "str":
        return ("error",)           # documented: inc data must be numbers (ParseError)
    if ctx == "doper" and exp[0] != "str":
        return ("error-or", exp)    # a non-string ioinit fails the doer's resolution (by design); parse-time value n/a
    if ctx == "bid" and exp[0] == "num":
        v = exp[1]
        if isinstance(v, complex) or not (v == v) or not v > 0 or v in (float("inf"),):
            return None             # outside the claim (clamp / comparison semantics of the period)
    if ctx == "framerneed" and lit == "goal":
        return None
    return exp


def verdict(ctx, lit):
    """None = outside the claim; else (ok, key_suffix, detail)"""
    exp = expected_in_context(ctx, lit)
    if exp is None:
        return None
    got, after = observe(ctx, lit)
    d = "literal %r in '%s': expected %r, stored %r" % (lit, ctx, exp, got)
    if got[0] == "hang":
        return (False, "build-hangs", d)
    if exp[0] == "error-or":      # do per <non-string>: the doer's resolution may reject it; if it is kept, then as the right value
        return (got[0] == "error" or same(exp[1], got), "wrong-type-or-value", d)
    if exp[0] == "indirect":      # not a literal in this context: parsed as a share reference (or rejected as a bad path)
        return (got[0] in ("indirect", "error") or (ctx == "bid" and got == ("none",)), "non-literal-stored-as-value", d)
    if exp[0] == "error":
        return (got[0] == "error", "invalid-literal-accepted", d)
    if got[0] == "error":
        return (False, "valid-literal-rejected", d)
    if not same(exp, got):
        return (False, "wrong-type-or-value", d)
    if after is not None and not same(exp, after):
        return (False, "share-after-run-differs", d + ", share after tick %r" % (after,))
    return (True, "", d)


def kind_of(exp):
    if exp is None:
        return "na"
    if exp[0] == "num":
        return type(exp[1]).__name__
    if exp[0] == "error-or":
        return "error"
    return exp[0]


def h_ctx(sym, ctx, tier):
    with fb.notrace(sym):
        use_tier(tier)
        SH = shapes(tier)
    si = fb.pick(sym, "shape", len(SH))
    shape, fn, ra, rb, rs = SH[si]
    a = fb.pick(sym, "a", ra) if ra > 1 else 0
    b = fb.pick(sym, "b", rb) if rb > 1 else 0
    s = sym.choice("s", rs) if rs > 1 else 0
    with fb.notrace(sym):
        lit = fn(a, b, s)
        exp = expected_in_context(ctx, lit)
        v = verdict(ctx, lit)
    sym.assume(v is not None)
    ok, suffix, detail = v
    sym.check(ok, "C17/%s/%s/%s-%s" % (CONTEXTS[ctx][0], shape, kind_of(exp), suffix), detail)
    sym.cover("checked")
    return True


# ---- round trip -------------------------------------------------------------------------------
RT_NUMS = [0, 1, -1, 7, 10, 255, 2 ** 31, -2 ** 63, 2 ** 64, 10 ** 22,
           0.0, -0.0, 0.1, 1e-7, 1e22, 1.5, -2.5e-300, 1.7976931348623157e308, 5e-324, 123456789.125, 1e16,
           2j, 1 + 2j, -1.5 - 0.5j]
RT_POINTS = [("Pxy", (1.0, 2.0)), ("Pxy", (-1.5, 0.25)), ("Pne", (0.0, -0.0)), ("Pfs", (10.0, 0.1)),
             ("Pxyz", (1.0, 2.0, 3.0)), ("Pned", (-1.0, 2.5, 100.0)), ("Pfsb", (0.5, -0.5, 123456.75))]
RT_STRS = ["plain", "two words", "a # b", "it's", "", "5", "true", " pad ", "x.y", "1e5", "none"]
RT_DIRECT_CTX = ["init", "put", "set", "dowith", "docum"]


def rt_items():
    items = []
    for n in RT_NUMS:
        items.append((("num", n), str(n) if isinstance(n, int) else repr(n)))
    for b in (True, False):
        items.append((("bool", b), repr(b)))
        items.append((("bool", b), repr(b).lower()))
    items.append((("none",), "None"))
    items.append((("none",), "none"))
    for name, co in RT_POINTS:
        letters = {"Pxy": "xy", "Pne": "ne", "Pfs": "fs", "Pxyz": "xyz", "Pned": "ned", "Pfsb": "fsb"}[name]
        items.append((("point", name, co), "".join(repr(c) + l for c, l in zip(co, letters))))
    for s in RT_STRS:
        items.append((("str", s), '"' + s + '"'))
    return items


RT_ITEMS = rt_items()


def h_roundtrip(sym, ctx):
    i = fb.pick(sym, "item", len(RT_ITEMS))
    with fb.notrace(sym):
        value, lit = RT_ITEMS[i]
        got, after = observe(ctx, lit)
        ok = got[0] not in ("error", "hang") and same(value, got) and (after is None or same(value, after))
        detail = "value %r written as %r in '%s' came back as %r (share after tick %r)" % (value, lit, ctx, got, after)
    sym.check(ok, "C17/roundtrip/%s-not-preserved" % kind_of(value), detail)
    sym.cover("checked")
    return True


def obligations(tier):
    quick = tier == "quick"
    out = []
    SH = shapes(tier)
    for ctx in CONTEXTS:
        out.append(Ob("lit/" + ctx, h_ctx, dict(ctx=ctx, tier=tier), budget=400 if quick else 1500, per_path=60,
                      covers=["checked"], max_fail_keys=30,
                      bounds=dict(context=CONTEXTS[ctx][1] % "<literal>", chain=CONTEXTS[ctx][0],
                                  shapes={n: ra * rb * rs for n, f, ra, rb, rs in SH},
                                  ints=INTS_Q if quick else INTS_T, fracs=FRACS, exps=EXPS, signs=SIGNS, words=WORDS,
                                  quoted=QUOTED, paths=PATHS, coords=COORDS_Q if quick else COORDS_T, invalid=INVALID)))
    for ctx in RT_DIRECT_CTX:
        out.append(Ob("roundtrip/" + ctx, h_roundtrip, dict(ctx=ctx), budget=200 if quick else 600, per_path=60,
                      covers=["checked"], bounds=dict(values=[lit for _, lit in RT_ITEMS])))
    return out
