"""C34 -- HTTP redirects are followed safely to the final response (E1).

The unmodified `Patron` runs over a fake network (`engine/doubles_httprt.py: FakeNet`): the
names `socket` / `ssl` inside `ioflo.aio.tcp.clienting` point at doubles, so the brand-new
`Client` / `ClientTls` objects that `Patron.redirect` creates connect to scripted servers
keyed by (ip, port, tls).  The j-th request received anywhere in that world is answered with
the j-th scripted response (3xx + Location for j < n, 200 for j == n) and logged with the
server it reached, whether the connection was TLS, request target and Host header.

Selectors: chain length, the Location *form* of every hop (absolute same/other host, other
port, default port, other name of the same address, absolute path, relative path, `..`,
query only, network-path `//host`, percent-encoded, fragment, http->https, https->http),
redirect status.  Symbolic ints: body length of each redirect response, the offset at which
each redirect response is cut into two receives, the number of service rounds between them.

Oracle (the statement, nothing more): request j+1 goes to the RFC 3986 resolution
(`urllib.parse.urljoin`) of Location j against URL j -- right server (host, port), right
scheme (TLS iff https), same path and query arguments, Host header naming the resolved
host -- a https URL is never followed by a plain-http request, and exactly one final
response is delivered whose `redirects` list holds the redirect responses in order.
"""
from urllib.parse import urljoin, urlsplit, unquote, parse_qsl

from engine import Ob
from engine.doubles_httprt import FakeNet, FakeContext, PAUSE, install_fake_net, uninstall_fake_net, run_concrete
from ioflo.base import storing
from ioflo.aio.http import clienting

PROPERTY = "C34"
ENGINE = "E1"
TECHNIQUE = "path-wise symbolic execution (CrossHair engine + z3) of the real Patron over a scripted fake network"
FUNCTIONS = ["ioflo.aio.http.clienting.Patron.redirect", "ioflo.aio.http.clienting.Patron.serviceResponse",
             "ioflo.aio.http.clienting.Patron.serviceAll", "ioflo.aio.http.clienting.Patron.transmit",
             "ioflo.aio.http.clienting.Requester.build", "ioflo.aio.http.clienting.Requester.reinit",
             "ioflo.aio.http.clienting.Respondent.parseHead", "ioflo.aio.http.httping.normalizeHostPort",
             "ioflo.aio.tcp.clienting.Client.accept", "ioflo.aio.tcp.clienting.ClientTls.connect"]
ASSUMPTIONS = [
    "fake network: servers at 127.0.0.1 and 127.0.0.2 on ports 80/8080/8081 (plain), 443/8443/8444 (TLS) and 9090 (serves both schemes, "
    "so that a Location can change only the scheme); 'localhost' names 127.0.0.1; "
    "connect succeeds at once, send never blocks; a redirect response may arrive in two receives (symbolic cut and delay)",
    "ssl double: wrap_socket marks the connection TLS, the handshake succeeds iff the server port is a TLS port; no certificates",
    "the original request is a GET without body; request method / body preservation across 303 vs 307 is not part of the statement and not checked",
    "target comparison: path after percent-decoding, query as decoded argument list (parse_qsl); fragments are not sent and not compared",
    "Host header: host part must name the resolved URL's address (either name of the same address is accepted: ioflo's test-suite pins that the "
    "previous name is kept when only the name changes); the port part may be omitted when it is the scheme's default",
    "for a https -> http Location any outcome is accepted (exception, error, no follow) except a request sent over a non-TLS connection",
    "statuses 301 302 303 307 (308 is unknown to ioflo's constants and outside the generated set)",
    "store stamp never advanced (no timers); the client is serviced for a fixed 6*(n+1)+8 rounds",
]

DUAL_PORT = 9090
PLAIN_PORTS = (80, 8080, 8081)
TLS_PORTS = (443, 8443, 8444)
IPS = ("127.0.0.1", "127.0.0.2")
NAME2IP = {"localhost": "127.0.0.1", "127.0.0.1": "127.0.0.1", "127.0.0.2": "127.0.0.2"}
STATUSES = [(301, "Moved Permanently"), (302, "Found"), (303, "See Other"), (307, "Temporary Redirect")]


def _other_host(host):
    return "127.0.0.2" if NAME2IP[host] == "127.0.0.1" else "127.0.0.1"


def _other_name(host):
    return {"127.0.0.1": "localhost", "localhost": "127.0.0.1", "127.0.0.2": "127.0.0.2"}[host]


def _other_port(scheme, port):
    ports = TLS_PORTS if scheme == "https" else PLAIN_PORTS
    return ports[2] if port == ports[1] else ports[1]


# name -> (class, builder(scheme, host, port, j) -> Location text or None if not applicable)
FORMS = [
    ("abs-same", "absolute", lambda s, h, p, j: "%s://%s:%d/n%d?k=v%d" % (s, h, p, j, j)),
    ("abs-other-host", "absolute", lambda s, h, p, j: "%s://%s:%d/x/y%d" % (s, _other_host(h), p, j)),
    ("abs-other-port", "absolute", lambda s, h, p, j: "%s://%s:%d/p%d?a=1&b=two" % (s, h, _other_port(s, p), j)),
    ("abs-default-port", "absolute", lambda s, h, p, j: "%s://%s/d%d" % (s, _other_host(h), j)),
    ("abs-other-name", "absolute",
     lambda s, h, p, j: None if _other_name(h) == h else "%s://%s:%d/v%d" % (s, _other_name(h), p, j)),
    ("abs-pct", "absolute", lambda s, h, p, j: "%s://%s:%d/a%%20b/c%d?q=x%%26y&r=1+2" % (s, h, p, j)),
    ("abs-fragment", "absolute", lambda s, h, p, j: "%s://%s:%d/f%d?z=9#frag" % (s, h, p, j)),
    ("abs-path", "relative-reference", lambda s, h, p, j: "/r/s%d?q=1" % j),
    ("abs-path-noquery", "relative-reference", lambda s, h, p, j: "/only/path%d" % j),
    ("rel-path", "relative-reference", lambda s, h, p, j: "sib%d" % j),
    ("rel-dotdot", "relative-reference", lambda s, h, p, j: "../up/z%d?w=2" % j),
    ("rel-query", "relative-reference", lambda s, h, p, j: "?only=q%d" % j),
    ("net-path", "relative-reference", lambda s, h, p, j: "//%s:%d/np%d" % (_other_host(h), p, j)),
    ("upgrade", "scheme-upgrade", lambda s, h, p, j: None if s == "https" else "https://%s:8443/sec%d" % (h, j)),
    ("upgrade-other-host", "scheme-upgrade", lambda s, h, p, j: None if s == "https" else "https://%s/sec%d" % (_other_host(h), j)),
    ("downgrade", "scheme-downgrade", lambda s, h, p, j: None if s == "http" else "http://%s:8080/plain%d" % (h, j)),
    # scheme changes ONLY: same host, same explicit port (DUAL_PORT serves both schemes), see FakeNet.add(tls="both")
    ("abs-dual-port", "absolute", lambda s, h, p, j: None if p == DUAL_PORT else "%s://%s:%d/dual%d" % (s, h, DUAL_PORT, j)),
    ("upgrade-same-port", "scheme-upgrade",
     lambda s, h, p, j: "https://%s:%d/secure%d?token=abc" % (h, p, j) if (s == "http" and p == DUAL_PORT) else None),
    ("downgrade-same-port", "scheme-downgrade",
     lambda s, h, p, j: "http://%s:%d/plain%d" % (h, p, j) if (s == "https" and p == DUAL_PORT) else None),
]
FORM_NAMES = [f[0] for f in FORMS]
BASES = {"http": "http://127.0.0.1:8080/a/b?x=1", "https": "https://localhost:8443/a/b?x=1",
         "http-name": "http://localhost:8081/top",
         "http-dual": "http://127.0.0.1:9090/start", "https-dual": "https://127.0.0.1:9090/start"}


def url_parts(url):
    sp = urlsplit(url)
    port = sp.port or (443 if sp.scheme == "https" else 80)
    return sp.scheme, sp.hostname, port, sp.path or "/", sp.query


def redirect_response(status, reason, location, blen):
    body = (b"moved " * 4)[:blen]
    return (("HTTP/1.1 %d %s\r\nContent-Type: text/plain\r\nContent-Length: %d\r\nLocation: %s\r\n\r\n"
             % (status, reason, blen, location)).encode("iso-8859-1") + body)


FINAL_BODY = b'{"final": true}'
FINAL = (b"HTTP/1.1 200 OK\r\nContent-Type: application/json\r\nContent-Length: " + str(len(FINAL_BODY)).encode("ascii")
         + b"\r\n\r\n" + FINAL_BODY)


def h(sym, base, n, forms, sizes):
    urls = [BASES[base]]
    hops = []          # (formname, class, location, status, reason, blen, cut, delay)
    for j in range(n):
        scheme, host, port, path, query = url_parts(urls[-1])
        fi = forms[sym.choice("form%d" % j, len(forms))]
        name, cls, build = FORMS[fi]
        loc = build(scheme, host, port, j)
        sym.assume(loc is not None)
        vary = sizes == "all" or (sizes == "first" and j == 0) or (sizes == "last" and j == n - 1)
        if vary:
            status, reason = STATUSES[sym.choice("status%d" % j, len(STATUSES))]
        else:
            status, reason = STATUSES[(j + 1) % len(STATUSES)]
        if vary:
            blen = sym.realize(sym.int("blen%d" % j, 0, 3))
            cut = sym.int("cut%d" % j, 0, 4)       # 0 = whole; k = after k*30 bytes (or at the end of the head)
            delay = sym.int("delay%d" % j, 0, 2)
            sym.assume((cut == 0) == (delay == 0))
            cut, delay = sym.realize(cut), sym.realize(delay)
        else:
            blen, cut, delay = j % 3, 0, 0
        hops.append((name, cls, loc, status, reason, blen, cut, delay))
        urls.append(urljoin(urls[-1], loc))
        if cls == "scheme-downgrade":
            break              # nothing is specified beyond "never downgrade"
    return run_concrete(sym, _follow, base, hops, urls)


def _follow(sym, base, hops, urls):
    n = len(hops)

    def respond(index, rec):
        if index < n:
            name, cls, loc, status, reason, blen, cut, delay = hops[index]
            data = redirect_response(status, reason, loc, blen)
            if cut:
                at = min(len(data) - 1, cut * 30)
                return [data[:at]] + [PAUSE] * delay + [data[at:]]
            return [data]
        if index == n:
            return [FINAL]
        return [b"HTTP/1.1 500 Unexpected\r\nContent-Length: 0\r\n\r\n"]

    net = FakeNet(respond)
    for ip in IPS:
        for p in PLAIN_PORTS:
            net.add(ip, p, tls=False)
        for p in TLS_PORTS:
            net.add(ip, p, tls=True)
        net.add(ip, DUAL_PORT, tls="both")
    install_fake_net(net)
    try:
        scheme, host, port, path, query = url_parts(urls[0])
        store = storing.Store(stamp=0.0)
        kwa = dict(context=FakeContext()) if scheme == "https" else {}
        patron = clienting.Patron(store=store, hostname=host, port=port, scheme=scheme, reconnectable=False,
                                  headers=dict(Accept="application/json"), **kwa)
        patron.connector.reopen()
        patron.request(method="GET", path=path + ("?" + query if query else ""))
        raised = None
        for r in range(6 * (n + 1) + 8):
            try:
                patron.serviceAll()
            except Exception as ex:
                raised = ex
                break
            net.service()
    finally:
        uninstall_fake_net()

    log = net.log
    downgrade_at = None
    for j, hop in enumerate(hops):
        if hop[1] == "scheme-downgrade":
            downgrade_at = j

    # never https -> http: no request over a plain connection once a https URL was in the chain
    seen_https = False          # an EARLIER url of the chain was https (request j's own scheme is checked in _check_requests)
    for j, rec in enumerate(log):
        own_https = j < len(urls) and url_parts(urls[j])[0] == "https"
        if seen_https and not own_https and not rec["tls"]:
            sym.fail("C34/https-downgraded-to-http", "request %d sent without TLS to %r after a https URL; chain %r"
                     % (j, rec["server"], urls))
        seen_https = seen_https or own_https

    if downgrade_at is not None:
        # requests up to the downgrading hop must still be right; then anything but a plain request is accepted
        upto = downgrade_at + 1
        sym.check(len(log) >= upto or raised is not None, "C34/request-not-reissued/" + hops[min(len(log), n) - 1][1], "")
        _check_requests(sym, log[:upto], hops, urls)
        sym.check(len(log) <= upto, "C34/request-after-refused-downgrade", repr([r["server"] for r in log]))
        sym.cover("downgrade-refused")
        return True

    if raised is not None:
        j = len(log)        # the client was handling the response to request j-1, i.e. hop j-1
        cls = hops[j - 1][1] if 0 < j <= n else "none"
        sym.fail("C34/redirect-raises/" + cls, "%s: %s while following Location %r (hop %d of %r)"
                 % (type(raised).__name__, raised, hops[j - 1][2] if 0 < j <= n else None, j - 1, [x[2] for x in hops]))

    if len(log) < n + 1:
        j = len(log)
        sym.fail("C34/request-not-reissued/" + (hops[j - 1][1] if j > 0 else "none"),
                 "only %d of %d requests arrived; connect attempts %r; chain %r" % (j, n + 1, net.connects, urls))
    _check_requests(sym, log[:n + 1], hops, urls)
    sym.check(len(log) == n + 1, "C34/extra-requests", repr([(r["server"], r["target"]) for r in log]))

    # one final response carrying the redirect responses in order
    sym.check(len(patron.responses) == 1, "C34/final-response/count", "%d responses" % len(patron.responses))
    final = patron.responses[0]
    sym.check(final["status"] == 200 and bytes(final["body"]) == FINAL_BODY and not final["errored"],
              "C34/final-response/not-the-final-one", "%r %r" % (final["status"], bytes(final["body"])))
    reds = final.get("redirects", [])
    sym.check(len(reds) == n, "C34/final-response/redirect-chain-length", "%d redirects recorded for %d hops" % (len(reds), n))
    for j, red in enumerate(reds):
        name, cls, loc, status, reason, blen, cut, delay = hops[j]
        sym.check(red["status"] == status and red["headers"].get("location") == loc,
                  "C34/final-response/redirect-chain-order", "entry %d is %r %r, expected %r %r"
                  % (j, red["status"], red["headers"].get("location"), status, loc))
    sym.check(not patron.waited and not patron.redirects, "C34/client-not-idle-after-final-response",
              "waited=%r pending redirects=%d" % (patron.waited, len(patron.redirects)))
    if n:
        sym.cover("followed")
    if any(hp[6] for hp in hops):
        sym.cover("split-redirect-response")
    for hp in hops:
        sym.cover("class:" + hp[1])
    return True


def _check_requests(sym, log, hops, urls):
    for j, rec in enumerate(log):
        cls = hops[j - 1][1] if j > 0 else "original-request"
        loc = hops[j - 1][2] if j > 0 else None
        scheme, host, port, path, query = url_parts(urls[j])
        where = "request %d (Location %r resolved against %r = %r)" % (j, loc, urls[j - 1] if j else None, urls[j])
        sym.check(not rec["garbage"], "C34/wrong-scheme/" + cls, where + " arrived with TLS=%r at %r" % (rec["tls"], rec["server"]))
        sym.check(rec["server"] == (NAME2IP[host], port), "C34/wrong-server/" + cls,
                  where + " arrived at %r" % (rec["server"],))
        sym.check(rec["tls"] == (scheme == "https"), "C34/wrong-scheme/" + cls, where + " TLS=%r" % rec["tls"])
        sym.check(rec["method"] == "GET", "C34/method-changed/" + cls, where + " method %r" % rec["method"])
        tsp = urlsplit(rec["target"])
        sym.check(unquote(tsp.path) == unquote(path) and parse_qsl(tsp.query, keep_blank_values=True) == parse_qsl(query, keep_blank_values=True)
                  and not tsp.netloc, "C34/wrong-target/" + cls, where + " asked for %r" % rec["target"])
        hh = rec["headers"].get("host", "")
        hname, sep, hport = hh.rpartition(":") if ":" in hh else (hh, "", "")
        default = 443 if scheme == "https" else 80
        okport = (hport == str(port)) or (not sep and port == default)
        # ioflo's own redirect test pins that the previous host *name* is kept when the address is unchanged
        # (Location http://localhost:6101 from 127.0.0.1:6101 -> "Host: 127.0.0.1:6101"): any name of the same address is accepted
        sym.check(NAME2IP.get(hname.lower()) == NAME2IP[host] and okport, "C34/wrong-host-header/" + cls, where + " Host: %r" % hh)


def obligations(tier):
    quick = tier == "quick"
    budget = 240 if quick else 900
    allf = list(range(len(FORMS)))
    out = []
    sizes_b = dict(statuses=[s for s, _ in STATUSES], redirect_body_len=[0, 3], cut=[0, 4], delay_rounds=[0, 2])

    def add(name, base, n, forms, sizes, covers):
        b = dict(base=BASES[base], chain_length=n, location_forms=[FORM_NAMES[i] for i in forms], symbolic_sizes_on=sizes)
        if sizes != "none":
            b.update(sizes_b)
        out.append(Ob(name, h, dict(base=base, n=n, forms=forms, sizes=sizes), budget=budget, covers=covers, bounds=b))

    add("chain0/http", "http", 0, allf, "none", [])
    for base in ("http", "https", "http-name", "http-dual", "https-dual"):
        # one obligation per Location form of the first hop (stable shards: one defect class per shard)
        for fi in allf:
            name, cls, build = FORMS[fi]
            if build(*url_parts(BASES[base])[:3], 0) is None:
                continue
            if base == "http-name" and quick and name not in ("abs-other-name", "abs-path", "upgrade"):
                continue
            if base.endswith("-dual") and name not in ("upgrade-same-port", "downgrade-same-port", "abs-same", "abs-path"):
                continue
            if cls == "absolute":
                covers = ["followed", "split-redirect-response"]
            elif cls == "scheme-downgrade":
                covers = ["downgrade-refused"]
            else:
                covers = []      # on the unchanged tree every path of these shards ends in a recorded defect class
            add("chain1/%s/%s" % (base, name), base, 1, [fi], "all", covers)
    for base in ("http", "https"):
        add("chain2/%s" % base, base, 2, allf, "none", ["followed"])
        if not quick:
            add("chain3/%s" % base, base, 3, allf, "none", ["followed"])
            add("chain2-first/%s" % base, base, 2, [0, 1, 2, 5, 7, 9], "first", ["followed", "split-redirect-response"])
            add("chain2-last/%s" % base, base, 2, [0, 1, 2, 5, 7, 9], "last", ["followed", "split-redirect-response"])
    return out
