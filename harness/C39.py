"""C39 -- odict / lodict / modict / oset behave like their reference models (E1, inductive step).

Pre-state: an arbitrary *valid* container built directly from symbolic descriptors
(number of entries, which keys in which order, symbolic int values, value-list
lengths for modict, and -- for the dict family -- whether the hidden C-level dict
storage order agrees with the visible `_keys` order, as it does not after
insert()/reorder()).  One arbitrary operation with symbolic arguments is applied
to the real object and to a reference model written from the property statement
(a plain list of [key, value] pairs / list of elements).  Post: return value or
exception class agrees, every view of the container agrees with the model, the
representation invariant holds again (so the step is inductive and the claim
covers operation sequences of any length over the key universe).

One obligation per (class, operation).
"""
import pickle
import copy as _copy

from engine import Ob
from ioflo.aid.odicting import odict, lodict, modict
from ioflo.aid.osetting import oset

PROPERTY = "C39"
ENGINE = "E1"
FUNCTIONS = ["ioflo.aid.odicting.odict.*", "ioflo.aid.odicting.lodict.*", "ioflo.aid.odicting.modict.*",
             "ioflo.aid.osetting.oset.* (+ collections.abc.MutableSet mixins it inherits)"]
ASSUMPTIONS = [
    "keys / set elements are drawn from small concrete alphabets through symbolic indices (selector-symbolic; the "
    "alphabets per tier are in ALPHA and in each obligation's bounds); dict values, defaults and insert indices are "
    "genuinely symbolic ints",
    "vacuity labels of an obligation whose every path is a replayed violation (modict popitem/poplistitem, dict-form "
    "update/construct on the unchanged tree) are waived by a concrete probe and required again once the operation works",
    "pre-state is built directly (dict.__setitem__ + _keys / linked list through add) from descriptors and "
    "checked against the model before the operation; lodict pre-states hold lower-case keys only (its invariant)",
    "insert index restricted to 0..len (the statement is silent about negative / out-of-range indices)",
    "pickle protocols 0, 1, 2, HIGHEST (quick) / all (thorough); failures under the legacy protocols 0 and 1 (rebuilt "
    "through copyreg._reconstructor, which bypasses odict.__new__) carry their own class keys .../pickle/proto0-1/...; "
    "pickled values are realised (domain {0, 1})",
    "results of binary set algebra (| & - ^) are checked for type, content and absence of duplicates, not for order "
    "(statement silent); in-place algebra must keep survivors in order and put new elements after them",
    "oset == oset with equal content but different order: either answer accepted (statement silent)",
    "modict: inherited odict-only methods insert/create/sift/reorder are not exercised (multi-value semantics undefined)",
    "oset.pop(last=True|False) and modict.popitem/poplistitem(last=True|False): the `last` flag is taken to mean what "
    "its name and docstring say",
]
LEVEL_NOTE = ("oset and key choice are selector-symbolic only (every path is a concrete run; the solver proves the "
              "choice space exhausted); dict values / defaults / indices are solver-partitioned")

# ----------------------------------------------------------------------------- alphabets
ALPHA = {
    # tier:   class:   (pre-state keys, argument keys)      every argument key is a hit in some pre-states and a miss in others
    "quick": {
        "odict":  (["a", "A", "b"], ["a", "A", "c"]),
        "lodict": (["a", "b", "c"], ["a", "A", "B"]),
        "modict": (["a", "b", "c"], ["a", "b", "d"]),
    },
    "thorough": {
        "odict":  (["a", "A", "b"], ["a", "A", "b", "c"]),
        "lodict": (["a", "b", "c"], ["a", "A", "B", "d", "D"]),
        "modict": (["a", "b", "c"], ["a", "b", "c", "d"]),
    },
}
CLASSES = {"odict": odict, "lodict": lodict, "modict": modict}
VLO, VHI = -4, 4


def _ident(k):
    return k


def _lower(k):
    return k.lower()


# ----------------------------------------------------------------------------- helpers
def fail(sym, key, detail=""):
    """detail may be a callable: the engine evaluates it under concrete replay only (formatting symbolic values
    would realise them), and reads the counterexample from a solver model without enumerating value domains"""
    sym.fail(key, detail)


def chk(sym, c, key, detail=""):
    if not c:
        sym.fail(key, detail)


def run(fn):
    try:
        return ("ok", fn())
    except Exception as e:   # noqa: BLE001  (Fail is never raised inside fn)
        return ("exc", type(e).__name__)


def agree(sym, got, exp, key, detail=""):
    """got / exp are ('ok', value) | ('exc', ClassName).  Keys are built only on failure:
    formatting a symbolic value would realise (enumerate) it."""
    if exp[0] == "exc":
        if got[0] != "exc":
            fail(sym, key + "/no-" + exp[1], detail)
        if got[1] != exp[1]:
            fail(sym, key + "/raises-" + got[1] + "-not-" + exp[1], detail)
        return
    if got[0] != "ok":
        fail(sym, key + "/raises-" + got[1], detail)
    chk(sym, got[1] == exp[1], key + "/wrong-result", detail)


def must_ok(sym, got, key, detail=""):
    if got[0] != "ok":
        fail(sym, key + "/raises-" + got[1], detail)
    return got[1]


def pick_seq(sym, tag, alphabet, maxn, distinct=True):
    """ordered sequence of <= maxn entries of alphabet chosen by symbolic ints (no rejected paths)"""
    n = sym.int(tag + "n", 0, maxn)
    rest = list(alphabet)
    out = []
    for i in range(maxn):
        if not (i < n):
            break
        j = sym.int("%s%d" % (tag, i), 0, len(rest) - 1)
        if distinct:
            out.append(rest.pop(j))
        else:
            out.append(rest[j])
    return out


class Model(object):
    """insertion-ordered mapping on a plain list of [key, value]; norm = key normaliser"""

    def __init__(self, items, norm):
        self.items = [[k, v] for k, v in items]
        self.norm = norm

    def find(self, k):
        k = self.norm(k)
        for i, kv in enumerate(self.items):
            if kv[0] == k:
                return i
        return -1

    def keys(self):
        return [kv[0] for kv in self.items]

    def values(self):
        return [kv[1] for kv in self.items]

    def pairs(self):
        return [(kv[0], kv[1]) for kv in self.items]

    def set(self, k, v):
        i = self.find(k)
        if i < 0:
            self.items.append([self.norm(k), v])
        else:
            self.items[i][1] = v

    def clone(self):
        return Model(self.pairs(), self.norm)


def raw_build(cls, pairs, rev):
    """a valid instance built without any of the methods under test"""
    od = cls.__new__(cls)
    store = list(reversed(pairs)) if rev else pairs
    for k, v in store:
        dict.__setitem__(od, k, v)
    od._keys = [k for k, v in pairs]
    return od


def invariant(sym, od, key, lower=False, multi=False):
    ks = od._keys
    raw = list(dict.keys(od))
    chk(sym, sorted(raw) == sorted(ks) and len(set(ks)) == len(ks), key + "/invariant-keys-vs-storage",
              "_keys=%r storage=%r" % (ks, raw))
    if lower:
        chk(sym, all(k == k.lower() for k in raw), key + "/invariant-key-not-lowercase", "storage=%r" % (raw,))
    if multi:
        for k in raw:
            v = dict.__getitem__(od, k)
            chk(sym, isinstance(v, list) and len(v) >= 1, key + "/invariant-value-not-nonempty-list", "key %r" % (k,))


def same_dict(sym, od, m, key, universe, cls_name):
    """every view of od agrees with model m"""
    what = None
    if not (od.items() == m.pairs()):
        what = "items"
    elif not (od.keys() == m.keys()):
        what = "keys"
    elif not (od.values() == m.values()):
        what = "values"
    elif not (list(od) == m.keys()):
        what = "iter"
    elif not (list(od.iterkeys()) == m.keys()):
        what = "iterkeys"
    elif not (list(od.iteritems()) == m.pairs()):
        what = "iteritems"
    elif not (list(od.itervalues()) == m.values()):
        what = "itervalues"
    elif not (len(od) == len(m.items)):
        what = "len"
    if what is not None:     # detail built only on failure (formatting realises symbolic values)
        fail(sym, key + "/state-differs-from-model",
             lambda: "view %s: real %r model %r" % (what, od.items(), m.pairs()))
    for k in universe:
        i = m.find(k)
        chk(sym, (k in od) == (i >= 0), key + "/contains-differs-from-model", "key %r" % (k,))
        if i >= 0:
            got = run(lambda: od[k])
            agree(sym, got, ("ok", m.items[i][1]), key + "/getitem-after", "key %r" % (k,))
    invariant(sym, od, key, lower=(cls_name == "lodict"))


def make_arg(sym, form, pairs):
    """the same logical argument in one of the accepted spellings; returns (pa, kwa, iteration-order pairs)"""
    if form == "pairs":
        return ([list(pairs)], {}, list(pairs))
    if form == "dict":
        d = {}
        for k, v in pairs:
            d[k] = v
        return ([d], {}, list(d.items()))
    if form == "odict":
        o = raw_build(odict, [], False)
        order = []
        for k, v in pairs:
            if not any(k == x for x in order):
                order.append(k)
            dict.__setitem__(o, k, v)
        o._keys = order
        return ([o], {}, [(k, dict.__getitem__(o, k)) for k in order])
    if form == "kw":
        d = {}
        for k, v in pairs:
            d[k] = v
        return ([], d, list(d.items()))
    raise AssertionError(form)


FORMS = ["pairs", "dict", "odict", "kw"]
MFORMS = FORMS + ["modict"]


# ----------------------------------------------------------------------------- odict / lodict
def h_dict(sym, cls_name, op, maxn, maxarg, pre_keys, arg_keys, form=None, protos=(2,)):
    cls = CLASSES[cls_name]
    norm = _lower if cls_name == "lodict" else _ident
    universe = sorted(set(pre_keys + arg_keys))
    K = "C39/%s/%s" % (cls_name, op)

    keys = pick_seq(sym, "k", pre_keys, maxn)
    vlo, vhi = (0, 1) if op == "pickle" else (VLO, VHI)     # the C pickler realises values: keep that domain tiny
    pairs = [(k, sym.int("v%d" % i, vlo, vhi)) for i, k in enumerate(keys)]
    rev = sym.bool("rev") if len(pairs) >= 2 else False
    od = raw_build(cls, pairs, rev)
    m = Model(pairs, norm)
    same_dict(sym, od, m, "C39/%s/pre-state" % cls_name, universe, cls_name)

    def akey(tag="ak"):
        return arg_keys[sym.int(tag, 0, len(arg_keys) - 1)]

    def aval(tag="av"):
        return sym.int(tag, VLO, VHI)

    def apairs():
        ks = pick_seq(sym, "p", arg_keys, maxarg, distinct=False)
        return [(k, sym.int("pv%d" % i, VLO, VHI)) for i, k in enumerate(ks)]

    if op == "views":
        sym.cover("nonempty" if pairs else "empty")
        return True

    if op == "setitem":
        k, v = akey(), aval()
        sym.cover("new-key" if m.find(k) < 0 else "existing-key")

        def f():
            od[k] = v
        got = run(f)
        m.set(k, v)
        agree(sym, got, ("ok", None), K)
    elif op == "delitem":
        k = akey()
        i = m.find(k)

        def f():
            del od[k]
        got = run(f)
        if i < 0:
            sym.cover("missing-key")
            agree(sym, got, ("exc", "KeyError"), K)
        else:
            sym.cover("existing-key")
            del m.items[i]
            agree(sym, got, ("ok", None), K)
    elif op == "getitem":
        k = akey()
        i = m.find(k)
        got = run(lambda: od[k])
        if i < 0:
            sym.cover("missing-key")
            agree(sym, got, ("exc", "KeyError"), K)
        else:
            sym.cover("existing-key")
            agree(sym, got, ("ok", m.items[i][1]), K)
    elif op == "contains":
        k = akey()
        got = run(lambda: k in od)
        sym.cover("existing-key" if m.find(k) >= 0 else "missing-key")
        agree(sym, got, ("ok", m.find(k) >= 0), K)
    elif op == "get":
        k = akey()
        i = m.find(k)
        if sym.bool("with_default"):
            d = aval("dflt")
            got = run(lambda: od.get(k, d))
        else:
            d = None
            got = run(lambda: od.get(k))
        sym.cover("existing-key" if i >= 0 else "missing-key")
        agree(sym, got, ("ok", m.items[i][1] if i >= 0 else d), K)
    elif op == "append":
        k, v = akey(), aval()
        got = run(lambda: od.append(k, v))
        if m.find(k) >= 0:
            sym.cover("existing-key")
            agree(sym, got, ("exc", "KeyError"), K)
        else:
            sym.cover("new-key")
            m.set(k, v)
            agree(sym, got, ("ok", None), K)
    elif op == "clear":
        got = run(lambda: od.clear())
        m.items = []
        agree(sym, got, ("ok", None), K)
        sym.cover("done")
    elif op in ("copy", "copy.copy", "deepcopy", "pickle"):
        if op == "copy":
            got = run(lambda: od.copy())
        elif op == "copy.copy":
            got = run(lambda: _copy.copy(od))
        elif op == "deepcopy":
            got = run(lambda: _copy.deepcopy(od))
        else:
            proto = protos[sym.choice("proto", len(protos))]
            for i in range(len(m.items)):       # C pickler: values realised (selector-symbolic here)
                m.items[i][1] = sym.realize(m.items[i][1])
            od = raw_build(cls, m.pairs(), rev)
            got = run(lambda: pickle.loads(pickle.dumps(od, proto)))
            if proto < 2:
                K = K + "/proto0-1"     # legacy protocols rebuild through copyreg._reconstructor: own class keys
                sym.cover("legacy-protocol")
        must_ok(sym, got, K)
        c = got[1]
        chk(sym, type(c) is cls and c is not od, K + "/wrong-type-or-same-object")
        usable = run(lambda: (c.items(), c.keys(), c.values(), list(c), len(c)))
        if usable[0] != "ok":
            fail(sym, K + "/duplicate-views-raise-" + usable[1], lambda: "original %r" % (m.pairs(),))
        same_dict(sym, c, m, K + "/duplicate", universe, cls_name)
        # independence: mutate the duplicate, the original must not move
        c["zz"] = 1
        if m.items:
            del c[m.items[0][0]]
        sym.cover("nonempty" if m.items else "empty")
    elif op in ("create", "update", "construct"):
        if form is None:
            form = FORMS[sym.choice("form", len(FORMS))]
        pa, kwa, order = make_arg(sym, form, apairs())
        if op == "construct":
            m = Model([], norm)
            got = run(lambda: cls(*pa, **kwa))
            must_ok(sym, got, K, form)
            od = got[1]
            chk(sym, type(od) is cls, K + "/wrong-type")
            for k, v in order:
                m.set(k, v)
        elif op == "update":
            got = run(lambda: od.update(*pa, **kwa))
            for k, v in order:
                m.set(k, v)
            agree(sym, got, ("ok", None), K, form)
        else:
            got = run(lambda: od.create(*pa, **kwa))
            for k, v in order:
                if m.find(k) < 0:
                    m.set(k, v)
                else:
                    sym.cover("existing-key-kept")
            agree(sym, got, ("ok", None), K, form)
        sym.cover("form-" + form)
    elif op == "sift":
        if sym.bool("all_fields"):
            got = run(lambda: od.sift())
            exp = m.clone()
            sym.cover("no-fields")
        else:
            fields = pick_seq(sym, "f", arg_keys, maxarg, distinct=False)
            got = run(lambda: od.sift(fields))
            if any(m.find(f) < 0 for f in fields):
                sym.cover("missing-field")
                agree(sym, got, ("exc", "KeyError"), K, "fields %r" % (fields,))
                exp = None
            else:
                sym.cover("fields-present")
                exp = Model([], norm)
                for f in fields:
                    exp.set(f, m.items[m.find(f)][1])
        if exp is not None:
            must_ok(sym, got, K)
            c = got[1]
            chk(sym, type(c) is cls and c is not od, K + "/wrong-type-or-same-object")
            same_dict(sym, c, exp, K + "/result", universe, cls_name)
    elif op == "insert":
        k, v = akey(), aval()
        ix = sym.int("ix", 0, len(m.items))
        got = run(lambda: od.insert(ix, k, v))
        if m.find(k) >= 0:
            sym.cover("existing-key")
            agree(sym, got, ("exc", "KeyError"), K)
        else:
            sym.cover("new-key")
            m.items.insert(ix, [norm(k), v])
            agree(sym, got, ("ok", None), K)
    elif op == "pop":
        k = akey()
        i = m.find(k)
        if sym.bool("with_default"):
            d = aval("dflt")
            got = run(lambda: od.pop(k, d))
            exp = ("ok", d)
        else:
            got = run(lambda: od.pop(k))
            exp = ("exc", "KeyError")
        if i >= 0:
            sym.cover("existing-key")
            exp = ("ok", m.items[i][1])
            del m.items[i]
        else:
            sym.cover("missing-key")
        agree(sym, got, exp, K, "key %r" % (k,))
    elif op == "popitem":
        got = run(lambda: od.popitem())
        if not m.items:
            sym.cover("empty")
            agree(sym, got, ("exc", "KeyError"), K)
        else:
            sym.cover("nonempty")
            k, v = m.items.pop()
            agree(sym, got, ("ok", (k, v)), K)
    elif op == "reorder":
        kind = sym.choice("other", 4)   # 0 odict, 1 same class, 2 plain dict (rejected), 3 self
        ap = apairs()
        if kind == 3:
            sym.cover("other-is-self")
            got = run(lambda: od.reorder(od))
            agree(sym, got, ("ok", None), K + "/self")
            # "updating with self makes no changes" (source comment); model: every key re-appended in its own order
            same_dict(sym, od, m, K + "/self", universe, cls_name)
            return True
        if kind == 2:
            sym.cover("other-not-odict")
            d = dict(ap)
            got = run(lambda: od.reorder(d))
            agree(sym, got, ("exc", "ValueError"), K)
        else:
            sym.cover("other-odict")
            ocls = odict if kind == 0 else cls
            onorm = _ident if kind == 0 else norm
            om = Model([], onorm)
            for k, v in ap:
                om.set(k, v)
            other = raw_build(ocls, om.pairs(), False)
            got = run(lambda: od.reorder(other))
            for k, v in om.pairs():
                i = m.find(k)
                if i >= 0:
                    del m.items[i]
                m.items.append([norm(k), v])
            agree(sym, got, ("ok", None), K)
            chk(sym, other.items() == om.pairs(), K + "/other-modified")
    elif op == "setdefault":
        k = akey()
        i = m.find(k)
        if sym.bool("with_default"):
            d = aval("dflt")
            got = run(lambda: od.setdefault(k, d))
        else:
            d = None
            got = run(lambda: od.setdefault(k))
        if i >= 0:
            sym.cover("existing-key")
            agree(sym, got, ("ok", m.items[i][1]), K)
        else:
            sym.cover("new-key")
            m.set(k, d)
            agree(sym, got, ("ok", d), K)
    else:
        raise AssertionError(op)

    same_dict(sym, od, m, K, universe, cls_name)
    return True


DICT_OPS = {
    # op: covers
    "views": [],
    "setitem": ["new-key", "existing-key"],
    "delitem": ["missing-key", "existing-key"],
    "getitem": ["missing-key", "existing-key"],
    "contains": ["missing-key", "existing-key"],
    "get": ["missing-key", "existing-key"],
    "append": ["new-key", "existing-key"],
    "clear": ["done"],
    "copy": ["nonempty", "empty"],
    "copy.copy": ["nonempty", "empty"],
    "deepcopy": ["nonempty", "empty"],
    "pickle": ["nonempty", "empty", "legacy-protocol"],
    "create": ["form-pairs", "form-dict", "form-odict", "form-kw", "existing-key-kept"],
    "update": ["form-pairs", "form-dict", "form-odict", "form-kw"],
    "construct": ["form-pairs", "form-dict", "form-odict", "form-kw"],
    "sift": ["no-fields", "missing-field", "fields-present"],
    "insert": ["new-key", "existing-key"],
    "pop": ["missing-key", "existing-key"],
    "popitem": ["empty", "nonempty"],
    "reorder": ["other-is-self", "other-not-odict", "other-odict"],
    "setdefault": ["new-key", "existing-key"],
}
MULTI_ARG_OPS = ("create", "update", "construct", "sift", "reorder")


# ----------------------------------------------------------------------------- modict
class MModel(object):
    """ordered multi-mapping: list of [key, [values oldest..newest]]"""

    def __init__(self, items):
        self.items = [[k, list(vs)] for k, vs in items]

    def find(self, k):
        for i, kv in enumerate(self.items):
            if kv[0] == k:
                return i
        return -1

    def add(self, k, v):
        i = self.find(k)
        if i < 0:
            self.items.append([k, [v]])
        else:
            self.items[i][1].append(v)

    def keys(self):
        return [kv[0] for kv in self.items]

    def newest(self):
        return [(k, vs[-1]) for k, vs in self.items]

    def lists(self):
        return [(k, list(vs)) for k, vs in self.items]

    def alls(self):
        return [(k, v) for k, vs in self.items for v in vs]


def raw_build_modict(lists, rev):
    return raw_build(modict, [(k, list(vs)) for k, vs in lists], rev)


def same_modict(sym, od, m, key, universe):
    what = None
    if not (od.listitems() == m.lists()):
        what = "listitems"
    elif not (od.items() == m.newest()):
        what = "items"
    elif not (od.allitems() == m.alls()):
        what = "allitems"
    elif not (od.keys() == m.keys()):
        what = "keys"
    elif not (list(od) == m.keys()):
        what = "iter"
    elif not (od.values() == [v for k, v in m.newest()]):
        what = "values"
    elif not (od.listvalues() == [vs for k, vs in m.lists()]):
        what = "listvalues"
    elif not (od.allvalues() == [v for k, v in m.alls()]):
        what = "allvalues"
    elif not (list(od.iteritems()) == m.newest()):
        what = "iteritems"
    elif not (list(od.iterlistitems()) == m.lists()):
        what = "iterlistitems"
    elif not (list(od.iterallitems()) == m.alls()):
        what = "iterallitems"
    elif not (list(od.itervalues()) == [v for k, v in m.newest()]):
        what = "itervalues"
    elif not (list(od.iterlistvalues()) == [vs for k, vs in m.lists()]):
        what = "iterlistvalues"
    elif not (list(od.iterallvalues()) == [v for k, v in m.alls()]):
        what = "iterallvalues"
    elif not (len(od) == len(m.items)):
        what = "len"
    if what is not None:     # detail built only on failure (formatting realises symbolic values)
        fail(sym, key + "/state-differs-from-model",
             lambda: "view %s: real %r model %r" % (what, [(k, dict.__getitem__(od, k)) for k in od._keys], m.lists()))
    for k in universe:
        i = m.find(k)
        chk(sym, (k in od) == (i >= 0) and od.has_key(k) == (i >= 0), key + "/contains-differs-from-model", "key %r" % (k,))
        if i >= 0:
            got = run(lambda: od[k])
            agree(sym, got, ("ok", m.items[i][1][-1]), key + "/getitem-not-newest", "key %r" % (k,))
    invariant(sym, od, key, multi=True)


def h_modict(sym, op, maxn, maxarg, pre_keys, arg_keys, form=None, protos=(2,)):
    universe = sorted(set(pre_keys + arg_keys))
    K = "C39/modict/%s" % op

    keys = pick_seq(sym, "k", pre_keys, maxn)
    vlo, vhi = (0, 1) if op == "pickle" else (VLO, VHI)     # the C pickler realises values: keep that domain tiny
    lists = []
    for i, k in enumerate(keys):
        vs = [sym.int("v%d_0" % i, vlo, vhi)]
        if sym.bool("two%d" % i):
            vs.append(sym.int("v%d_1" % i, vlo, vhi))
        lists.append((k, vs))
    rev = sym.bool("rev") if len(lists) >= 2 else False
    od = raw_build_modict(lists, rev)
    m = MModel(lists)
    same_modict(sym, od, m, "C39/modict/pre-state", universe)

    def akey(tag="ak"):
        return arg_keys[sym.int(tag, 0, len(arg_keys) - 1)]

    def aval(tag="av"):
        return sym.int(tag, VLO, VHI)

    def apairs():
        ks = pick_seq(sym, "p", arg_keys, maxarg, distinct=False)
        return [(k, sym.int("pv%d" % i, VLO, VHI)) for i, k in enumerate(ks)]

    def multi(i):
        if i >= 0 and len(m.items[i][1]) > 1:
            sym.cover("multi-valued-key")

    if op == "views":
        sym.cover("nonempty" if lists else "empty")
        return True
    if op in ("setitem", "append", "add"):
        k, v = akey(), aval()
        sym.cover("new-key" if m.find(k) < 0 else "existing-key")
        if op == "setitem":
            def f():
                od[k] = v
        elif op == "append":
            def f():
                return od.append(k, v)
        else:
            def f():
                return od.add(k, v)
        got = run(f)
        m.add(k, v)
        agree(sym, got, ("ok", None), K)
    elif op == "getitem":
        k = akey()
        i = m.find(k)
        multi(i)
        got = run(lambda: od[k])
        if i < 0:
            sym.cover("missing-key")
            agree(sym, got, ("exc", "KeyError"), K)
        else:
            sym.cover("existing-key")
            agree(sym, got, ("ok", m.items[i][1][-1]), K)
    elif op == "get":
        k = akey()
        i = m.find(k)
        multi(i)
        if sym.bool("with_default"):
            d = aval("dflt")
            got = run(lambda: od.get(k, d))
        else:
            d = None
            got = run(lambda: od.get(k))
        sym.cover("existing-key" if i >= 0 else "missing-key")
        agree(sym, got, ("ok", m.items[i][1][-1] if i >= 0 else d), K + ("/existing-key" if i >= 0 else "/missing-key"))
    elif op == "getlist":
        k = akey()
        i = m.find(k)
        multi(i)
        got = run(lambda: od.getlist(k))
        sym.cover("existing-key" if i >= 0 else "missing-key")
        agree(sym, got, ("ok", list(m.items[i][1]) if i >= 0 else []), K)
    elif op == "replace":
        k, v = akey(), aval()
        i = m.find(k)
        multi(i)
        got = run(lambda: od.replace(k, v))
        if i >= 0:
            sym.cover("existing-key")
            m.items[i][1] = [v]
        else:
            sym.cover("new-key")
            m.add(k, v)
        agree(sym, got, ("ok", None), K)
    elif op == "setdefault":
        k = akey()
        i = m.find(k)
        multi(i)
        if sym.bool("with_default"):
            d = aval("dflt")
            got = run(lambda: od.setdefault(k, d))
        else:
            d = None
            got = run(lambda: od.setdefault(k))
        if i >= 0:
            sym.cover("existing-key")
            agree(sym, got, ("ok", m.items[i][1][-1]), K)
        else:
            sym.cover("new-key")
            m.add(k, d)
            agree(sym, got, ("ok", d), K)
    elif op in ("pop", "poplist"):
        k = akey()
        i = m.find(k)
        multi(i)
        fn = od.pop if op == "pop" else od.poplist
        if sym.bool("with_default"):
            d = aval("dflt")
            got = run(lambda: fn(k, d))
            exp = ("ok", d)
        else:
            got = run(lambda: fn(k))
            exp = ("exc", "KeyError")
        if i >= 0:
            sym.cover("existing-key")
            vs = m.items[i][1]
            exp = ("ok", vs[-1] if op == "pop" else list(vs))
            del m.items[i]
        else:
            sym.cover("missing-key")
        agree(sym, got, exp, K)
    elif op in ("popitem", "poplistitem"):
        fn = od.popitem if op == "popitem" else od.poplistitem
        mode = sym.choice("last", 3)   # 0 default, 1 last=True, 2 last=False
        if mode == 0:
            got = run(lambda: fn())
        elif mode == 1:
            got = run(lambda: fn(last=True))
        else:
            got = run(lambda: fn(last=False))
        if not m.items:
            sym.cover("empty")
            agree(sym, got, ("exc", "KeyError"), K)
        else:
            sym.cover("nonempty")
            sym.cover("fifo" if mode == 2 else "lifo")
            k, vs = m.items.pop(0 if mode == 2 else -1)
            multi_v = vs[-1] if op == "popitem" else list(vs)
            agree(sym, got, ("ok", (k, multi_v)), K)
    elif op == "delitem":
        k = akey()
        i = m.find(k)

        def f():
            del od[k]
        got = run(f)
        if i < 0:
            sym.cover("missing-key")
            agree(sym, got, ("exc", "KeyError"), K)
        else:
            sym.cover("existing-key")
            del m.items[i]
            agree(sym, got, ("ok", None), K)
    elif op == "clear":
        got = run(lambda: od.clear())
        m.items = []
        agree(sym, got, ("ok", None), K)
        sym.cover("done")
    elif op in ("update", "construct"):
        if form is None:
            form = MFORMS[sym.choice("form", len(MFORMS))]
        sym.cover("form-" + form)
        ap = apairs()
        if form == "modict":
            am = MModel([])
            for k, v in ap:
                am.add(k, v)
            pa, kwa, order = [raw_build_modict(am.lists(), False)], {}, am.alls()
        else:
            pa, kwa, order = make_arg(sym, form, ap)
        if op == "construct":
            m = MModel([])
            got = run(lambda: modict(*pa, **kwa))
            must_ok(sym, got, K + "/" + form)
            od = got[1]
            chk(sym, type(od) is modict, K + "/wrong-type")
        else:
            got = run(lambda: od.update(*pa, **kwa))
            agree(sym, got, ("ok", None), K + "/" + form)
        for k, v in order:
            m.add(k, v)
    elif op == "fromkeys":
        ks = pick_seq(sym, "p", arg_keys, maxarg, distinct=False)
        d = aval("dflt")
        got = run(lambda: od.fromkeys(ks, d))
        must_ok(sym, got, K)
        em = MModel([])
        for k in ks:
            em.add(k, d)
        chk(sym, type(got[1]) is modict, K + "/wrong-type")
        same_modict(sym, got[1], em, K + "/result", universe)
        sym.cover("done")
    elif op in ("copy", "copy.copy", "deepcopy", "pickle"):
        if op == "copy":
            got = run(lambda: od.copy())
        elif op == "copy.copy":
            got = run(lambda: _copy.copy(od))
        elif op == "deepcopy":
            got = run(lambda: _copy.deepcopy(od))
        else:
            proto = protos[sym.choice("proto", len(protos))]
            for kv in m.items:
                kv[1] = [sym.realize(v) for v in kv[1]]
            od = raw_build_modict(m.lists(), rev)
            got = run(lambda: pickle.loads(pickle.dumps(od, proto)))
            if proto < 2:
                K = K + "/proto0-1"
                sym.cover("legacy-protocol")
        must_ok(sym, got, K)
        c = got[1]
        chk(sym, type(c) is modict and c is not od, K + "/wrong-type-or-same-object")
        usable = run(lambda: (c.listitems(), c.items(), c.keys(), len(c)))
        if usable[0] != "ok":
            fail(sym, K + "/duplicate-views-raise-" + usable[1], lambda: "original %r" % (m.lists(),))
        if any(len(vs) > 1 for k, vs in m.items):
            sym.cover("multi-valued-key")
        same_modict(sym, c, m, K + "/duplicate", universe)
        if op != "copy.copy":
            # independence (copy.copy is documented shallow: value lists may be shared)
            for k in list(m.keys()):
                c.append(k, 99)
            c.append("zz", 1)
        sym.cover("nonempty" if m.items else "empty")
    else:
        raise AssertionError(op)
    same_modict(sym, od, m, K, universe)
    return True


MODICT_OPS = {
    "views": [],
    "setitem": ["new-key", "existing-key"],
    "append": ["new-key", "existing-key"],
    "add": ["new-key", "existing-key"],
    "getitem": ["missing-key", "existing-key", "multi-valued-key"],
    "get": ["missing-key", "existing-key", "multi-valued-key"],
    "getlist": ["missing-key", "existing-key", "multi-valued-key"],
    "replace": ["new-key", "existing-key", "multi-valued-key"],
    "setdefault": ["new-key", "existing-key", "multi-valued-key"],
    "pop": ["missing-key", "existing-key", "multi-valued-key"],
    "poplist": ["missing-key", "existing-key", "multi-valued-key"],
    "popitem": ["empty", "nonempty", "fifo", "lifo"],
    "poplistitem": ["empty", "nonempty", "fifo", "lifo"],
    "delitem": ["missing-key", "existing-key"],
    "clear": ["done"],
    "update": ["form-pairs", "form-dict", "form-odict", "form-kw", "form-modict"],
    "construct": ["form-pairs", "form-dict", "form-odict", "form-kw", "form-modict"],
    "fromkeys": ["done"],
    "copy": ["nonempty", "empty", "multi-valued-key"],
    "copy.copy": ["nonempty", "empty", "multi-valued-key"],
    "deepcopy": ["nonempty", "empty", "multi-valued-key"],
    "pickle": ["nonempty", "empty", "multi-valued-key", "legacy-protocol"],
}
MODICT_MULTI = ("update", "construct", "fromkeys")


# ----------------------------------------------------------------------------- oset
def same_oset(sym, s, ml, key, universe):
    fw = list(s)
    chk(sym, fw == ml, key + "/iteration-differs-from-model", "real %r model %r" % (fw, ml))
    chk(sym, list(reversed(s)) == list(reversed(ml)), key + "/reversed-differs-from-model",
              "real %r model %r" % (list(reversed(s)), list(reversed(ml))))
    chk(sym, len(s) == len(ml), key + "/len-differs-from-model")
    for e in universe:
        chk(sym, (e in s) == (e in ml), key + "/contains-differs-from-model", "element %r" % (e,))
    chk(sym, sorted(s.map) == sorted(ml), key + "/invariant-map-vs-list", "map %r" % (sorted(s.map),))


def raw_oset(elems):
    """a valid oset built without any of the methods under test (sentinel ring + map)"""
    s = oset.__new__(oset)
    s.end = end = []
    end += [None, end, end]
    s.map = {}
    for e in elems:
        curr = end[1]
        node = [e, curr, end]
        curr[2] = node
        end[1] = node
        s.map[e] = node
    return s


def h_oset(sym, op, alphabet, maxn, maxother):
    K = "C39/oset/%s" % op
    universe = list(alphabet)
    pre = pick_seq(sym, "e", alphabet, maxn)
    s = raw_oset(pre)
    ml = list(pre)
    same_oset(sym, s, ml, "C39/oset/pre-state", universe)

    def elem():
        return alphabet[sym.int("ae", 0, len(alphabet) - 1)]

    def other():
        """second operand: (object, element list, is_oset, is_self)"""
        kind = sym.choice("okind", 4)    # 0 oset 1 set 2 frozenset 3 self
        if kind == 3:
            sym.cover("other-is-self")
            return s, list(ml), True, True
        seq = pick_seq(sym, "o", alphabet, maxother)
        if kind == 0:
            sym.cover("other-oset")
            return raw_oset(seq), seq, True, False
        sym.cover("other-builtin-set")
        return (set(seq) if kind == 1 else frozenset(seq)), seq, False, False

    if op == "views":
        sym.cover("nonempty" if pre else "empty")
        return True
    if op == "construct":
        seq = pick_seq(sym, "c", alphabet, maxother, distinct=False)
        form = sym.choice("form", 3)
        arg = [seq, tuple(seq), "".join(seq)][form]
        got = run(lambda: oset(arg))
        must_ok(sym, got, K)
        exp = []
        for e in seq:
            if e not in exp:
                exp.append(e)
        if len(exp) < len(seq):
            sym.cover("duplicates-in-input")
        sym.cover("done")
        same_oset(sym, got[1], exp, K + "/result", universe)
    elif op == "add":
        e = elem()
        sym.cover("existing" if e in ml else "new")
        got = run(lambda: s.add(e))
        if e not in ml:
            ml.append(e)
        agree(sym, got, ("ok", None), K)
    elif op in ("discard", "remove"):
        e = elem()
        got = run(lambda: getattr(s, op)(e))
        if e in ml:
            sym.cover("existing")
            ml.remove(e)
            agree(sym, got, ("ok", None), K)
        else:
            sym.cover("missing")
            agree(sym, got, ("exc", "KeyError") if op == "remove" else ("ok", None), K)
    elif op == "pop":
        mode = sym.choice("last", 3)
        if mode == 0:
            got = run(lambda: s.pop())
        elif mode == 1:
            got = run(lambda: s.pop(last=True))
        else:
            got = run(lambda: s.pop(last=False))
        if not ml:
            sym.cover("empty")
            agree(sym, got, ("exc", "KeyError"), K)
        else:
            sym.cover("first" if mode == 2 else "last")
            e = ml.pop(0 if mode == 2 else -1)
            agree(sym, got, ("ok", e), K + ("/first" if mode == 2 else "/last"))
    elif op == "clear":
        got = run(lambda: s.clear())
        ml = []
        agree(sym, got, ("ok", None), K)
        sym.cover("done")
    elif op in ("or", "and", "sub", "xor"):
        o, ol, o_is_oset, is_self = other()
        obefore = list(ol)
        fn = {"or": lambda: s | o, "and": lambda: s & o, "sub": lambda: s - o, "xor": lambda: s ^ o}[op]
        got = run(fn)
        must_ok(sym, got, K)
        r = got[1]
        exp = {"or": set(ml) | set(ol), "and": set(ml) & set(ol), "sub": set(ml) - set(ol), "xor": set(ml) ^ set(ol)}[op]
        chk(sym, type(r) is oset and r is not s, K + "/result-not-a-new-oset")
        rl = list(r)
        chk(sym, set(rl) == exp and len(rl) == len(exp) and len(r) == len(exp), K + "/wrong-content",
                  "%r op %r -> %r" % (ml, ol, rl))
        same_oset(sym, r, rl, K + "/result", universe)
        if o_is_oset and not is_self:
            same_oset(sym, o, obefore, K + "/operand-modified", universe)
    elif op in ("ior", "iand", "isub", "ixor"):
        o, ol, o_is_oset, is_self = other()
        obefore = list(ol)
        before = list(ml)
        s0 = s

        def f():
            t = s0
            if op == "ior":
                t |= o
            elif op == "iand":
                t &= o
            elif op == "isub":
                t -= o
            else:
                t ^= o
            return t
        got = run(f)
        must_ok(sym, got, K)
        chk(sym, got[1] is s, K + "/not-in-place")
        exp = {"ior": set(before) | set(ol), "iand": set(before) & set(ol), "isub": set(before) - set(ol),
               "ixor": set(before) ^ set(ol)}[op]
        rl = list(s)
        chk(sym, set(rl) == exp and len(rl) == len(exp), K + "/wrong-content", "%r op %r -> %r" % (before, ol, rl))
        surv = [e for e in before if e in exp]
        chk(sym, rl[:len(surv)] == surv, K + "/order-not-insertion-order", "%r op %r -> %r" % (before, ol, rl))
        ml = rl
        if o_is_oset and not is_self:
            same_oset(sym, o, obefore, K + "/operand-modified", universe)
    elif op == "compare":
        o, ol, o_is_oset, is_self = other()
        a, b = set(ml), set(ol)
        agree(sym, run(lambda: s <= o), ("ok", a <= b), K + "/le")
        agree(sym, run(lambda: s < o), ("ok", a < b), K + "/lt")
        agree(sym, run(lambda: s >= o), ("ok", a >= b), K + "/ge")
        agree(sym, run(lambda: s > o), ("ok", a > b), K + "/gt")
        agree(sym, run(lambda: s.isdisjoint(o)), ("ok", a.isdisjoint(b)), K + "/isdisjoint")
        eq = run(lambda: s == o)
        ne = run(lambda: s != o)
        chk(sym, eq[0] == "ok" and ne[0] == "ok", K + "/eq-raises")
        chk(sym, bool(eq[1]) != bool(ne[1]), K + "/eq-ne-inconsistent")
        if a != b:
            sym.cover("different-content")
            chk(sym, not eq[1], K + "/eq-true-for-different-content")
        elif (not o_is_oset) or ml == ol:
            sym.cover("equal")
            chk(sym, bool(eq[1]), K + "/eq-false-for-equal-sets")
        else:
            sym.cover("same-content-different-order")   # either answer accepted
    else:
        raise AssertionError(op)
    same_oset(sym, s, ml, K, universe)
    return True


_OTH = ["other-is-self", "other-oset", "other-builtin-set"]
OSET_OPS = {
    "views": [],
    "construct": ["done", "duplicates-in-input"],
    "add": ["existing", "new"],
    "discard": ["existing", "missing"],
    "remove": ["existing", "missing"],
    "pop": ["empty", "first", "last"],
    "clear": ["done"],
    "or": _OTH, "and": _OTH, "sub": _OTH, "xor": _OTH,
    "ior": _OTH, "iand": _OTH, "isub": _OTH, "ixor": _OTH,
    "compare": _OTH + ["different-content", "equal", "same-content-different-order"],
}
OSET_BINARY = ("or", "and", "sub", "xor", "ior", "iand", "isub", "ixor", "compare")


# ----------------------------------------------------------------------------- obligations
def _works(fn):
    try:
        fn()
        return True
    except Exception:   # noqa: BLE001
        return False


def obligations(tier):
    quick = tier == "quick"
    alpha = ALPHA["quick" if quick else "thorough"]
    protos = (0, 1, 2, pickle.HIGHEST_PROTOCOL) if quick else tuple(range(0, pickle.HIGHEST_PROTOCOL + 1))
    budget = 600 if quick else 3000
    out = []

    def dict_ob(name, fn, cls_name, op, covers, maxn, maxarg, pre_keys, arg_keys, **extra):
        bounds = dict(pre_state_keys=pre_keys, argument_keys=arg_keys, max_entries=maxn, max_argument_items=maxarg,
                      values=[VLO, VHI], steps="1 (inductive) from any valid pre-state")
        params = dict(op=op, maxn=maxn, maxarg=maxarg, pre_keys=pre_keys, arg_keys=arg_keys, **extra)
        if cls_name != "modict":
            params["cls_name"] = cls_name
        else:
            bounds["values_per_key"] = "1..2"
        if op == "pickle":
            params["protos"] = protos
            bounds["pickle_protocols"] = list(protos)
            bounds["values"] = [0, 1]
        out.append(Ob(name, fn, params, budget=budget, covers=covers, max_fail_keys=40, bounds=bounds))

    for cls_name in ("odict", "lodict"):
        pre_keys, arg_keys = alpha[cls_name]
        for op, covers in DICT_OPS.items():
            name = "%s/%s" % (cls_name, op)
            if op == "construct":                       # no pre-state
                dict_ob(name, h_dict, cls_name, op, covers, 0, 2 if quick else 3, pre_keys, arg_keys)
            elif op in ("create", "update"):            # one shard per argument spelling
                for form in FORMS:
                    cv = [c for c in covers if not c.startswith("form-")] + ["form-" + form]
                    dict_ob(name + "/" + form, h_dict, cls_name, op, cv, 2 if quick else 3, 2,
                            pre_keys[:2] if quick else pre_keys, arg_keys, form=form)
            elif op in ("sift", "reorder"):
                dict_ob(name, h_dict, cls_name, op, covers, 2 if quick else 3, 2,
                        pre_keys[:2] if quick else pre_keys, arg_keys)
            else:
                dict_ob(name, h_dict, cls_name, op, covers, 3, 2, pre_keys, arg_keys)

    pre_keys, arg_keys = alpha["modict"]
    # genuine defects that make EVERY path of an obligation fail leave its vacuity labels unreachable on
    # confirmed paths; the labels are required again as soon as the operation works at all
    popitem_works = _works(lambda: modict([("a", 1)]).popitem())
    dictform_works = _works(lambda: modict({"a": 1}))
    for op, covers in MODICT_OPS.items():
        name = "modict/%s" % op
        if op in ("popitem", "poplistitem") and not popitem_works:
            covers = []
        if op == "construct":
            cv = [c for c in covers if dictform_works or c != "form-dict"]
            dict_ob(name, h_modict, "modict", op, cv, 0, 2 if quick else 3, pre_keys, arg_keys)
        elif op == "update":
            for form in MFORMS:
                cv = [] if (form == "dict" and not dictform_works) else ["form-" + form]
                dict_ob(name + "/" + form, h_modict, "modict", op, cv, 2 if quick else 3, 2,
                        pre_keys[:2] if quick else pre_keys, arg_keys, form=form)
        elif op == "fromkeys":
            dict_ob(name, h_modict, "modict", op, covers, 1, 2 if quick else 3, pre_keys, arg_keys)
        elif op == "pickle":                        # the C pickler realises every value: keep the state small
            dict_ob(name, h_modict, "modict", op, covers, 2, 2, pre_keys, arg_keys)
        else:
            dict_ob(name, h_modict, "modict", op, covers, 2 if quick else 3, 2, pre_keys, arg_keys)

    alphabet = ["a", "b", "c"] if quick else ["a", "b", "c", "d"]
    for op, covers in OSET_OPS.items():
        if op == "construct":
            maxn, maxother = 0, (4 if quick else 5)
        elif op in OSET_BINARY:
            maxn, maxother = 3, (2 if quick else 3)
        else:
            maxn, maxother = (3 if quick else 4), 0
        out.append(Ob("oset/%s" % op, h_oset, dict(op=op, alphabet=alphabet, maxn=maxn, maxother=maxother),
                      budget=budget, covers=covers, max_fail_keys=40,
                      bounds=dict(elements=alphabet, max_size=maxn, max_other_operand_size=maxother,
                                  other_operand="oset | set | frozenset | self",
                                  steps="1 (inductive) from any valid pre-state")))
    return out
