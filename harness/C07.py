"""C07 -- framer runs agree with a reference interpreter of FloScript semantics (E1, differential).

A generator draws, from selectors, a structured program (frame forest, first
frame, per-frame body items from a menu: conditional transitions on store
values, on framer clocks (elapsed / recurred / timeout / repeat), on a counter
that the program itself modifies with put / inc / copy, entry guards, actions in
every context, a plain auxiliary, a stop bid) and emits it as FloScript text.
The text is built by the REAL Builder and run tick by tick by the real framer
code; the structured form is run by the independent reference interpreter
engine/floref.py (written from the documented semantics: tick = segue [update
clocks; aux segue; preacts top-down, first truthy interrupts] then recur).
Input share values are fresh symbolic integers every tick.
Oracle: per tick, the complete executed-action log (all contexts incl. transit),
the active outline, status, the framer clocks and the values of the shares the
program writes are equal in both.
"""
from engine import Ob
from engine import flostep, floref, flogen
from engine.flogen import FrameSpec, FramerSpec, Prog
from engine.flostep import START, RUN, STOP, ABORT

PROPERTY = "C07"
ENGINE = "E1"
FUNCTIONS = ["ioflo.base.skedding.Skedder.run (sked/ obligations: which ticks a framer with a period runs on)", "ioflo.base.building.Builder.build (concrete text: framer, frame, go, let, do, put, inc, copy, timeout, repeat, aux, done, bid)",
             "ioflo.base.framing.Framer.makeRunner/segue/recur/enter/exit", "ioflo.base.framing.Frame.*", "ioflo.base.acting.Transiter.action",
             "ioflo.base.needing.Need* (symbolic comparisons)", "ioflo.base.poking.Poke*/Inc*/Copy* actions", "ioflo.base.wanting.WantStop.action"]
ASSUMPTIONS = [
    "program family: 3 frames (quick; 4 thorough) in the forests chain / fork / two trees (all forests in thorough), arbitrary first frame; "
    "every frame gets one body item from the menu MENU (thorough: two), optional entry guards; one plain auxiliary of two frames when chosen",
    "the skeleton dimension is selector-symbolic (each path is one concrete program); genuinely symbolic: input shares x, g*, y* per tick in [0,1]",
    "ticks: start + 3 (quick) / 4 (thorough) runs, integer store time, tick = 1",
    "conditional auxiliaries are compared in C10, bids between framers in C04, clones in C12; not repeated here",
] + ["reference choice where the statement is silent: " + s for s in floref.SILENT]

MENU = ["none", "go-x", "go-elapsed", "go-recurred", "timeout", "repeat", "inc-recur", "put-enter", "go-cnt", "aux", "bid-stop", "copy-exit", "go-x-and-cnt"]


def draw(sym, n, parent, items_per_frame, guards, item0=None, menu=None):
    MENU_ = menu or MENU
    first = sym.choice("first", n)
    frames = []
    shares = ["x"]
    framers = []
    have_aux = False
    for i in range(n):
        items = [("rec", "precur")]
        for j in range(items_per_frame):
            m = MENU[item0] if (item0 is not None and i == 0 and j == 0) else MENU_[sym.choice("item%d_%d" % (i, j), len(MENU_))]
            far = "f%d" % sym.choice("far%d_%d" % (i, j), n) if m.startswith("go") else None
            if m == "go-x":
                items.append(("go", far, [("x", ">=", 1)]))
            elif m == "go-elapsed":
                items.append(("go", far, [("elapsed", ">=", 2)]))
            elif m == "go-recurred":
                items.append(("go", far, [("recurred", ">=", 2)]))
            elif m == "timeout":
                sym.assume(i < n - 1)
                items.append(("timeout", 1))
            elif m == "repeat":
                sym.assume(i < n - 1)
                items.append(("repeat", 2))
            elif m == "inc-recur":
                items.append(("inc", "cnt", 1, "recur"))
            elif m == "put-enter":
                items.append(("put", "cnt", 5, "enter"))
            elif m == "go-cnt":
                items.append(("go", far, [("cnt", ">=", 2)]))
            elif m == "go-x-and-cnt":
                items.append(("go", far, [("x", ">=", 1), ("cnt", "<", 4)]))
            elif m == "aux":
                sym.assume(not have_aux)
                have_aux = True
                items.append(("aux", "a0"))
            elif m == "bid-stop":
                items.append(("bid", "stop", "me"))
            elif m == "copy-exit":
                items.append(("copy", "cnt", "cpy", "exit"))
        g = [("g%d" % i, ">=", 1)] if guards else None
        if guards:
            shares.append("g%d" % i)
        frames.append(FrameSpec("f%d" % i, ("f%d" % parent[i]) if parent[i] >= 0 else None, g, items))
    if have_aux:
        framers.append(flostep.aux_framer("a0", "p"))
        shares += ["h_a0", "y_a0"]
    prog = Prog([FramerSpec("m", "active", "f%d" % first, frames)] + framers, shares)
    prog.state = {"cnt": 0, "cpy": 0}
    return prog


def h(sym, n, parent, items_per_frame, guards, ticks, item0=None, menu=None):
    prog = draw(sym, n, parent, items_per_frame, guards, item0, menu)
    controls = [START] + [RUN] * ticks
    text, out = flostep.run(sym, prog, controls, plan=[{"*": 1}])
    for k, (control, rlog, flog, robs, fobs, env) in enumerate(out):
        if rlog != flog:
            ra = [e for e in rlog if e[2] in ("transit", "enter", "exit", "rexit", "renter")]
            fa = [e for e in flog if e[2] in ("transit", "enter", "exit", "rexit", "renter")]
            if ra != fa:
                sym.fail("C07/transitions-differ-from-reference", lambda: "tick %d\nreal %s\nref  %s\n%s" % (k, rlog, flog, text))
            sym.fail("C07/action-sequence-differs-from-reference", lambda: "tick %d\nreal %s\nref  %s\n%s" % (k, rlog, flog, text))
        for name in robs:
            r, f = robs[name], fobs[name]
            sym.check(r["actives"] == f["actives"] and r["active"] == f["active"], "C07/active-outline-differs-from-reference",
                      lambda: "tick %d %s real %s ref %s\n%s" % (k, name, r["actives"], f["actives"], text))
            sym.check(r["status"] == f["status"], "C07/status-differs-from-reference",
                      lambda: "tick %d %s real %s ref %s\n%s" % (k, name, r["status"], f["status"], text))
            if r["status"] in (1, 2) or name != "m":
                sym.check(r["elapsed"] == f["elapsed"] and r["recurred"] == f["recurred"], "C07/clocks-differ-from-reference",
                          lambda: "tick %d %s elapsed %s/%s recurred %s/%s\n%s" % (k, name, r["elapsed"], f["elapsed"], r["recurred"], f["recurred"], text))
            sym.check(r["done"] == f["done"], "C07/done-flag-differs-from-reference", lambda: "tick %d %s\n%s" % (k, name, text))
        for s, v in env["__store__"].items():
            sym.check(v == env[s], "C07/store-value-differs-from-reference", lambda: "tick %d share %s real %s ref %s\n%s" % (k, s, v, env[s], text))
        if any(e[2] == "transit" for e in rlog):
            sym.cover("transition")
        # desire after a stop bid
        sym.check(robs["m"]["desire"] == fobs["m"]["desire"] or robs["m"]["status"] not in (1, 2), "C07/desire-differs-from-reference",
                  lambda: "tick %d desire %s/%s\n%s" % (k, robs["m"]["desire"], fobs["m"]["desire"], text))
    return True


def h_sked(sym, parent, ticks, period, tick, menu):
    """the same comparison with the framer run by the real Skedder: the framer has a period that is not a multiple
    of the scheduler tick (integer time: tick `tick`, period `period`), so WHICH ticks it runs on is part of what is
    compared.  Reference schedule (documented rule): due times 0, P, 2P, ...; run at the first tick whose time has
    reached the due time; the next due time is the previous due time plus P."""
    from ioflo.base import skedding
    from engine.flogen import LOG
    n = len(parent)
    prog = draw(sym, n, parent, 1, False, None, menu)
    prog.framers[0].period = period
    text = flogen.emit(prog)
    with flogen.notrace(sym):
        houses = flogen.build_text(text)
        house = houses[0]
        flogen.add_transit_recorders(house)
    store = house.store
    shares = dict((s_, store.create(s_)) for s_ in prog.shares)
    env = {}
    for s_, v in prog.state.items():
        shares[s_] = store.create(s_)
        shares[s_].value = v
        env[s_] = v
    world = floref.World(prog, env)
    rm = world.framers["m"]
    main = [f for f in house.framers if f.name == "m"][0]
    segs = []          # per tick: (stamp, real log, real obs)
    state = {"k": -1}

    def close():
        if state["k"] >= 0:
            segs.append((state["k"] * tick, list(LOG), flostep.observe_real(house, main, prog),
                         dict((s_, shares[s_].value) for s_ in prog.state)))

    inputs = []

    def changeStamp(stamp):
        close()
        state["k"] += 1
        if state["k"] >= ticks:
            raise KeyboardInterrupt()
        store.stamp = stamp
        store.timeShr.value = stamp
        del LOG[:]
        vals = {}
        for s_ in prog.shares:
            v = 1 if state["k"] == 0 else sym.int("t%d_%s" % (state["k"], s_), 0, 1)
            shares[s_].value = v
            vals[s_] = v
        inputs.append(vals)
    store.changeStamp = changeStamp
    sk = skedding.Skedder(name="s", period=float(tick), houses=houses)
    sk.period = tick
    sk.stamp = 0
    sk.run()
    sym.check(len(segs) == ticks, "C07/harness/ticks", lambda: "%d" % len(segs))
    due = 0
    desire = START
    for k, (stamp, rlog, robs, rstore) in enumerate(segs):
        env.update(inputs[k])
        del world.log[:]
        if due <= stamp:
            world.now = stamp
            world.send(rm, desire)
            desire = rm.desire
            due = due + period
            sym.cover("framer-ran")
        else:
            sym.cover("framer-not-due")
        flog = list(world.log)
        fobs = flostep.observe_ref(world)
        sym.check(bool(rlog) == bool(flog) or rlog == flog, "C07/sked/framer-ran-on-a-tick-it-is-not-due-or-missed-a-due-tick",
                  lambda: "tick %d (time %s) period %s\nreal %s\nref  %s\n%s" % (k, stamp, period, rlog, flog, text))
        sym.check(rlog == flog, "C07/action-sequence-differs-from-reference", lambda: "tick %d\nreal %s\nref  %s\n%s" % (k, rlog, flog, text))
        r, f = robs["m"], fobs["m"]
        sym.check(r["actives"] == f["actives"] and r["status"] == f["status"], "C07/active-outline-differs-from-reference",
                  lambda: "tick %d real %s/%s ref %s/%s\n%s" % (k, r["actives"], r["status"], f["actives"], f["status"], text))
        if r["status"] in (1, 2):
            sym.check(r["elapsed"] == f["elapsed"] and r["recurred"] == f["recurred"], "C07/clocks-differ-from-reference",
                      lambda: "tick %d elapsed %s/%s recurred %s/%s\n%s" % (k, r["elapsed"], f["elapsed"], r["recurred"], f["recurred"], text))
        for s_, v in rstore.items():
            sym.check(v == env[s_], "C07/store-value-differs-from-reference", lambda: "tick %d share %s real %s ref %s\n%s" % (k, s_, v, env[s_], text))
    return True


def obligations(tier):
    out = []
    small_s = ["none", "go-x", "inc-recur", "go-cnt", "go-elapsed", "go-recurred"]
    for (period, tick) in ([(3, 2)] if tier == "quick" else [(3, 2), (5, 2), (4, 3), (2, 2)]):
        out.append(Ob("sked/N2-chain-period%d-tick%d" % (period, tick), h_sked,
                      dict(parent=[-1, 0], ticks=6 if tier == "quick" else 8, period=period, tick=tick, menu=small_s), budget=900,
                      covers=["framer-ran", "framer-not-due"] if period != tick else ["framer-ran"],
                      bounds=dict(frames=2, forest=[-1, 0], menu=small_s, scheduler_ticks=6 if tier == "quick" else 8, period=period, tick=tick,
                                  inputs="[0,1]", driver="real Skedder.run")))
    if tier == "quick":
        cfgs = [(2, 1, True, 2, True)]
        forests = {2: [[-1, 0], [-1, -1]]}
    else:
        cfgs = [(2, 2, True, 4, False), (3, 1, True, 3, True), (3, 1, False, 4, True)]
        forests = {2: [[-1, 0], [-1, -1]], 3: flostep.all_forests(3)}
    if tier == "quick":   # three nested frames (two shared ancestors: renter/rexit order) with a reduced menu
        small = ["none", "go-x", "inc-recur", "go-cnt"]
        out.append(Ob("diff/N3-chain-smallmenu-t2", h, dict(n=3, parent=[-1, 0, 1], items_per_frame=1, guards=False, ticks=2, menu=small),
                      budget=900, covers=["transition"], bounds=dict(frames=3, forest=[-1, 0, 1], menu=small, ticks=2, inputs="[0,1]")))
        # a frame with two children: forced re-entry of the parent while the second child is active
        out.append(Ob("diff/N3-fork-smallmenu-t2", h, dict(n=3, parent=[-1, 0, 0], items_per_frame=1, guards=False, ticks=2, menu=small),
                      budget=900, covers=["transition"], bounds=dict(frames=3, forest=[-1, 0, 0], menu=small, ticks=2, inputs="[0,1]")))
    for (n, ipf, guards, ticks, shard_item0) in cfgs:
        for parent in forests[n]:
            for item0 in (range(len(MENU)) if shard_item0 else [None]):
                out.append(Ob("diff/N%d-items%d-%s-t%d/%s%s" % (n, ipf, "guards" if guards else "noguards", ticks,
                                                            "".join("r" if q < 0 else str(q) for q in parent),
                                                            "" if item0 is None else "/f0-" + MENU[item0]),
                              h, dict(n=n, parent=parent, items_per_frame=ipf, guards=guards, ticks=ticks, item0=item0),
                              budget=900 if tier == "quick" else 1500, covers=["transition"] if item0 is None else [],
                              bounds=dict(frames=n, forest=parent, items_per_frame=ipf, menu=MENU, ticks=ticks, inputs="[0,1]")))
    return out
