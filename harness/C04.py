"""C04 -- bids and fiats change a tasker's state at its next run, last bid wins (E1).

Part A (bids): the real `Skedder.run` drives a built house with an active worker
A, an inactive worker B and two bidder framers whose bids (verb and target are
selectors) fire at symbolic ticks.  Every tasker's generator is wrapped by a
recording runner; bids are recorded by a marker action just before the `bid`.
 oracle: the first control a target receives after a bid equals the verb of the
 most recent bid before that run; it arrives in the same tick iff the target is
 later in the declared order than the bidder, otherwise at the next tick (all
 periods zero); slaves never receive anything from the scheduler.
Part B (fiats): a master framer issues up to three fiats (verbs are selectors)
 on a slave framer whose first frame has an entry guard on a symbolic share.
 oracle: an independent model of the control/status machine (engine/floref.py
 `send`) gives the status reached; each fiat returns (status reached == requested);
 a start whose guard fails leaves the slave stopped; the slave's generator is only
 ever resumed from inside the master's run.
"""
from engine import Ob
from engine import flogen, floref
from engine.flogen import LOG, FrameSpec, FramerSpec, Prog

PROPERTY = "C04"
ENGINE = "E1"
FUNCTIONS = ["ioflo.base.wanting.Want*.action", "ioflo.base.fiating.Fiat*.action", "ioflo.base.skedding.Skedder.run",
             "ioflo.base.framing.Framer.makeRunner (control/status machine)", "ioflo.base.building.Builder.build (concrete text)"]
ASSUMPTIONS = [
    "part A: all periods zero (every scheduled tasker is due every tick); workers are single-frame framers; in the `guarded` shards the inactive worker B has an entry guard on a share that is fresh symbolic in [0,1] in ticks 0-4 and 1 afterwards (a start that fails must leave it stopped until the next bid); two bidders, each one bid at a symbolic tick in [1,3]; a framer Z that bids stop/abort/run on itself in its first frame (its own start tick); "
    "the run is ended by a controller bidding stop all at tick 5; the final abort sweep is excluded from 'controls received'",
    "part B: slave framer with two frames and a guarded first frame; up to three fiats in consecutive master frames (one per tick); guard share symbolic per tick",
    "selectors: bid verbs, targets (A, B, me), declaration positions; fiat verbs.  symbolic: bid ticks, guard values",
    "after a bid has been delivered the target's own follow-up desire is not constrained here (the statement only fixes the control of the NEXT run)",
]

STOP, START, RUN, ABORT, READY = 0, 1, 2, 3, 4
VERBS = ["start", "run", "stop", "abort", "ready"]
CTL = dict(stop=STOP, start=START, run=RUN, abort=ABORT, ready=READY)
EVENTS = []


class Rec:
    def __init__(self, tasker):
        self.t = tasker
        self.g = tasker.runner
        self.shadow = None

    def send(self, control):
        sweep = (control == ABORT and self.t.desire != ABORT)
        EVENTS.append(("begin", self.t.name, control, self.t.store.stamp, sweep))
        exp = self.shadow(control) if self.shadow else None    # reference machine stepped in lock-step
        st = self.g.send(control)
        EVENTS.append(("end", self.t.name, control, st, sweep, exp))
        return st


from ioflo.base import doing  # noqa: E402


@doing.doify('VerifBidMark')
def verifBidMark(self, **kwa):
    fr = self._act.frame
    EVENTS.append(("bid", fr.framer.name, fr.name, self.store.stamp, False))


def script_a(pos, bids, selfbid="stop", guarded=False):
    """pos: declaration order of the four framers; bids: {bidder: (verb, target)}"""
    L = ["house h"]
    for nm in pos:
        if nm == "A":
            L += ["  framer A be active first w", "    frame w", "      do verif record at recur"]
        elif nm == "B":
            L += ["  framer B be inactive first w", "    frame w"] + (["      let me if gB >= 1"] if guarded else []) + ["      do verif record at recur"]
        else:
            verb, target = bids[nm]
            L += ["  framer %s be active first b0" % nm, "    frame b0", "      go b1 if recurred >= goal_%s" % nm,
                  "    frame b1", "      do verif bid mark at enter", "      bid %s %s" % (verb, target)]
    L += ["  framer Z be active first z0", "    frame z0", "      do verif bid mark at enter", "      bid %s me" % selfbid]
    L += ["  framer S be slave first w", "    frame w", "      do verif record at recur"]
    L += ["  framer ctl be active in back first c0", "    frame c0", "      go c1 if recurred >= 5", "    frame c1", "      bid stop all"]
    return "\n".join(L) + "\n"


PERMS = [["X", "A", "B", "Y"], ["A", "X", "Y", "B"], ["X", "Y", "A", "B"], ["A", "B", "X", "Y"], ["B", "Y", "A", "X"], ["Y", "B", "X", "A"]]


def h_bids(sym, perm, vx=None, vy=None, tx=None, ty=None, guarded=False):
    from ioflo.base import skedding
    pos = PERMS[perm]
    vx = sym.choice("verb_X", 5) if vx is None else vx
    vy = sym.choice("verb_Y", 5) if vy is None else vy
    tx = sym.choice("target_X", 3) if tx is None else tx
    ty = sym.choice("target_Y", 3) if ty is None else ty
    targets = ["A", "B", "me"]
    bids = dict(X=(VERBS[vx], targets[tx]), Y=(VERBS[vy], targets[ty]))
    selfbid = ["stop", "abort", "run"][0 if guarded else sym.choice("selfbid", 3)]     # Z bids on itself in its first frame, i.e. in its own start tick
    bids["Z"] = (selfbid, "me")
    text = script_a(pos, bids, selfbid, guarded)
    with flogen.notrace(sym):
        houses = flogen.build_text(text)
    house = houses[0]
    store = house.store
    gx = sym.int("goal_X", 1, 3)
    gy = 1 if guarded else sym.int("goal_Y", 1, 3)
    store.create("goal_X").value = gx
    store.create("goal_Y").value = gy
    for t in house.taskables + house.slaves:
        t.runner = Rec(t)

    gB = store.create("gB")
    gB.value = sym.int("gB_t0", 0, 1) if guarded else 1

    def changeStamp(stamp):
        if stamp > 12:
            raise RuntimeError("run did not end by tick 12 (controller bids stop all at tick 5)")
        store.stamp = stamp
        if not guarded:
            pass
        elif 1 <= stamp <= 4:
            gB.value = sym.int("gB_t%d" % stamp, 0, 1)     # B's entry guard: fresh every tick
        elif stamp == 5:
            gB.value = 1        # concrete from here on: the store dump at the end of the run formats every value
    store.changeStamp = changeStamp
    sk = skedding.Skedder(name="s", period=1.0, houses=houses)
    sk.period = 1
    sk.stamp = 0
    del EVENTS[:]
    sk.run()
    order = [t.name for t in house.taskables]
    sym.check(order == pos + ["Z", "ctl"], "C04/harness/order", lambda: "%s" % order)
    # slaves get nothing from the skedder
    sym.check(not any(e[1] == "S" for e in EVENTS if e[0] in ("begin", "end")), "C04/slave-run-by-scheduler", lambda: "%s" % EVENTS)
    # for every bid: the target's next run
    pending = {}      # target -> (verb control, bidder, stamp)
    inside = []       # stack of taskers currently inside send
    failed_start = {}   # target -> True after a start whose entry conditions failed, until the next bid on it
    for e in EVENTS:
        kind = e[0]
        if kind == "begin":
            _, name, control, stamp, sweep = e
            inside.append(name)
            if failed_start.get(name) and not sweep and name not in pending:
                sym.cover("run-after-failed-start")
                sym.check(control != START, "C04/failed-start-retried-without-a-new-bid",
                          lambda: "target %s got START again at %s\n%s\n%s" % (name, stamp, EVENTS, text))
            if name in pending and not sweep:
                want, bidder, bstamp = pending.pop(name)
                sym.cover("bid-delivered")
                sym.check(control == want, "C04/next-run-control-differs-from-latest-bid",
                          lambda: "target %s got %s wanted %s (bid by %s at %s)\n%s\n%s" % (name, control, want, bidder, bstamp, EVENTS, text))
                later = order.index(name) > order.index(bidder)
                if later:
                    sym.cover("same-tick-delivery")
                    sym.check(stamp == bstamp, "C04/bid-to-later-tasker-not-delivered-in-same-tick",
                              lambda: "target %s bidder %s bid at %s delivered at %s\n%s" % (name, bidder, bstamp, stamp, text))
                else:
                    sym.check(stamp == bstamp + 1, "C04/bid-not-delivered-at-next-due-tick",
                              lambda: "target %s bidder %s bid at %s delivered at %s\n%s" % (name, bidder, bstamp, stamp, text))
            elif name in pending and sweep:
                pending.pop(name)
        elif kind == "end":
            inside.pop()
            _, name, control, st, sweep = e[:5]
            if not sweep:
                if control == START and st == STOP:
                    failed_start[name] = True
                    sym.cover("start-refused-by-entry-guard")
                elif failed_start.get(name):
                    sym.check(st == STOP, "C04/tasker-left-stopped-state-after-failed-start-without-a-bid",
                              lambda: "target %s status %s\n%s\n%s" % (name, st, EVENTS, text))
        elif kind == "bid":
            _, bidder, frame, stamp, _ = e
            verb, target = bids[bidder]
            tname = bidder if target == "me" else target
            failed_start.pop(tname, None)
            pending[tname] = (CTL[verb], bidder, stamp)    # the most recent bid wins
    return True


# ---- part B: fiats ---------------------------------------------------------------------------------
def script_b(fiats):
    L = ["house h", "  framer M be active first m0", "    frame m0", "      go next"]
    for i, v in enumerate(fiats):
        L += ["    frame m%d" % (i + 1), "      enter", "      %s S" % v, "      native", "      go next"]
    L += ["    frame mend", "      bid stop me"]
    L += ["  framer S be slave first s0", "    frame s0", "      let me if sg >= 1", "      do verif record at enter", "      do verif record at exit",
          "      do verif record at recur", "      go s1 if sx >= 1", "    frame s1", "      do verif record at enter", "      do verif record at exit",
          "      do verif record at recur"]
    return "\n".join(L) + "\n"


def h_fiats(sym, f0, f1=None, f2=None):
    from ioflo.base import skedding, fiating
    f1 = sym.choice("fiat1", 5) if f1 is None else f1
    f2 = sym.choice("fiat2", 5) if f2 is None else f2
    fiats = [VERBS[f0], VERBS[f1], VERBS[f2]]
    text = script_b(fiats)
    with flogen.notrace(sym):
        houses = flogen.build_text(text)
    house = houses[0]
    store = house.store
    sg = store.create("sg")
    sx = store.create("sx")
    M = [f for f in house.framers if f.name == "M"][0]
    S = [f for f in house.framers if f.name == "S"][0]
    results = []
    # wrap the fiat acts to see their return values
    for frame in M.frameNames.values():
        for lst in (frame.enacts, frame.beacts, frame.reacts, frame.exacts):
            for i, act in enumerate(lst):
                if isinstance(act.actor, fiating.Fiat):
                    def wrapped(act=act, fname=frame.name):
                        r = act()
                        results.append((fname, r, S.status))
                        return r
                    lst[i] = wrapped
    for t in house.taskables + house.slaves:
        t.runner = Rec(t)
    # reference slave
    prog = Prog([FramerSpec("S", "slave", "s0", [FrameSpec("s0", None, [("sg", ">=", 1)], [("go", "s1", [("sx", ">=", 1)])]),
                                              FrameSpec("s1", None, None, [])])], ["sg", "sx"])
    env = {}
    world = floref.World(prog, env)
    ref = world.framers["S"]
    tick = [0]

    def changeStamp(stamp):
        store.stamp = stamp
        world.now = stamp
        k = tick[0]
        tick[0] += 1
        if k > 12:
            raise RuntimeError("run did not end by tick 12")
        v = sym.int("sg%d" % k, 0, 1)
        x = sym.int("sx%d" % k, 0, 1)
        sg.value = v
        sx.value = x
        env["sg"] = v
        env["sx"] = x
    store.changeStamp = changeStamp
    S.runner.shadow = lambda control: world.send(ref, control)
    sk = skedding.Skedder(name="s", period=1.0, houses=houses)
    sk.period = 1
    sk.stamp = 0
    del EVENTS[:]
    del LOG[:]
    sk.run()
    # the slave is resumed only from inside the master's run (or the final sweep, which does not include slaves)
    depth = 0
    for e in EVENTS:
        if e[0] == "begin":
            if e[1] == "S":
                sym.check(depth >= 1, "C04/slave-run-by-scheduler", lambda: "%s" % EVENTS)
            depth += 1
        elif e[0] == "end":
            depth -= 1
    # replay the fiats on the reference machine, in order
    fi = 0
    for e in EVENTS:
        if e[0] == "end" and e[1] == "S":
            control, st, exp = e[2], e[3], e[5]
            sym.check(st == exp, "C04/slave-status-after-fiat-differs-from-model",
                      lambda: "fiat %s: status %s model %s\n%s\n%s" % (control, st, exp, EVENTS, text))
            want = {READY: READY, START: START, RUN: RUN, STOP: STOP, ABORT: ABORT}[control]
            sym.check(fi < len(results), "C04/harness/fiat-result-missing")
            fname, r, _ = results[fi]
            fi += 1
            sym.check(bool(r) == (st == want), "C04/fiat-return-value-differs-from-state-reached",
                      lambda: "fiat %s returned %s status %s" % (control, r, st))
            if control == START and st == STOP:
                sym.cover("start-refused-stays-stopped")
            if r:
                sym.cover("fiat-succeeded")
            else:
                sym.cover("fiat-failed")
    sym.check(fi == len(results), "C04/harness/fiat-count", lambda: "%s %s" % (fi, results))
    return True


def obligations(tier):
    out = []
    if tier == "quick":
        pairs = [(0, 2, 1, 1), (2, 0, 0, 0), (3, 1, 0, 0), (1, 3, 1, 0), (4, 0, 1, 1), (2, 2, 2, 0), (0, 3, 1, 2)]
        for perm in [0, 1, 4]:
            for (vx, vy, tx, ty) in pairs:
                out.append(Ob("bids/perm%d/%s-%s/%s-%s" % (perm, VERBS[vx], "AB."[tx], VERBS[vy], "AB."[ty]), h_bids,
                              dict(perm=perm, vx=vx, vy=vy, tx=tx, ty=ty), budget=300, covers=["bid-delivered"],
                              bounds=dict(order=PERMS[perm], bids=[(VERBS[vx], "AB."[tx]), (VERBS[vy], "AB."[ty])], bid_ticks="[1,3]")))
        for (a, b, c) in [(1, 2, 0), (4, 1, 2), (1, 3, 1), (2, 1, 0), (4, 0, 1)]:
            out.append(Ob("fiats/%s-%s-%s" % (VERBS[a], VERBS[b], VERBS[c]), h_fiats, dict(f0=a, f1=b, f2=c), budget=300, covers=[],
                          bounds=dict(fiats=[VERBS[a], VERBS[b], VERBS[c]], guard_values="[0,1] per tick")))
    # a start refused by the entry guard leaves the tasker stopped: it is not re-sent START without a new bid
    for perm in ((0, 4) if tier == "quick" else range(len(PERMS))):
        for vx in ((0,) if tier == "quick" else (0, 4)):       # start / ready
            out.append(Ob("guarded/perm%d/%s-B" % (perm, VERBS[vx]), h_bids, dict(perm=perm, vx=vx, vy=2, tx=1, ty=2, guarded=True),
                          budget=600, covers=["bid-delivered"] + (["start-refused-by-entry-guard", "run-after-failed-start"] if vx == 0 else []),
                          bounds=dict(order=PERMS[perm], bids=[(VERBS[vx], "B"), ("stop", "me")], bid_tick_X="[1,3]", guard_B="[0,1] fresh in ticks 0-4")))
    if tier != "quick":
        for perm in range(len(PERMS)):
            for vx in range(5):
                out.append(Ob("bids/perm%d/%s-any" % (perm, VERBS[vx]), h_bids, dict(perm=perm, vx=vx), budget=2400, covers=["bid-delivered"],
                              bounds=dict(order=PERMS[perm], bid_X=VERBS[vx], bid_Y="all 5 verbs", targets="all 9 pairs of {A,B,me}", bid_ticks="[1,3]")))
        for a in range(5):
            out.append(Ob("fiats/%s-any-any" % VERBS[a], h_fiats, dict(f0=a), budget=2400, covers=[],
                          bounds=dict(fiats=[VERBS[a], "any", "any"], guard_values="[0,1] per tick")))
    return out
