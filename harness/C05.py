"""C05 -- a running framer's active frames are exactly its active frame's outline (E1).

Real Builder + real Framer driven tick by tick; arbitrary frame forest, arbitrary
first frame (= arbitrary reachable pre-state), transitions and a conditional
auxiliary; fresh symbolic share values every tick decide which guards /
transition conditions / auxiliary conditions hold (the real Need code compares
symbolic ints, the solver partitions).  After every framer run the active-frame
list is compared with the chain computed independently from the forest: top of
the active frame's hierarchy -> active frame -> primary children -> leaf, cut at
the main frame while a conditional auxiliary runs; empty after stop/abort.
"""
from engine import Ob
from engine import flostep, floref
from engine.flostep import START, RUN, STOP, ABORT

PROPERTY = "C05"
ENGINE = "E1"
FUNCTIONS = ["ioflo.base.framing.Framer.makeRunner/segue/recur/enterAll/exitAll/activate/change/reactivate",
             "ioflo.base.framing.Framer.ExEn", "ioflo.base.framing.Frame.traceOutline/traceHead/precur/checkEnter",
             "ioflo.base.acting.Transiter.action", "ioflo.base.acting.Suspender.action",
             "ioflo.base.needing.Need (comparison on symbolic share values)", "ioflo.base.building.Builder.build (concrete text)"]
ASSUMPTIONS = [
    "program family: one framer, N frames in an arbitrary forest ('in' nesting; primary child = first declared), arbitrary first frame, "
    "1-2 transitions between arbitrary frames, entry guards on every frame, optionally one conditional auxiliary (2 frames, done on its 2nd)",
    "share values are integers in [0,1], fresh every tick; guards/conditions are 'share >= 1'",
    "selector-symbolic: forest shape, first frame, transition endpoints, auxiliary host frame; genuinely symbolic: every share value of every tick",
    "'under' primary-child overrides are exercised by harness/C07 program shapes, not here",
] + ["reference choice where the statement is silent: " + s for s in floref.SILENT]


def expected_chain(info, active_idx):
    return ["f%d" % i for i in flostep.chain(info["parent"], active_idx)]


def h(sym, n, ngo, auxes, symticks, end, parent, first, suspended, aux_frames=2):
    prog, info = flostep.family(sym, n, ngo=ngo, auxes=auxes, parent=parent, first=first,
                                near_in_cur=True, host_in_cur=True, aux_frames=aux_frames)
    controls = [START]
    plan = [{"*": 1}]
    if suspended:   # concrete prelude tick: conditional aux condition true, aux not completing, no transition
        controls.append(RUN)
        pre = {"*": 1}
        for (name, kind, host) in info["aux"]:
            pre["y_" + name] = 0
        for j in range(ngo):
            pre["x%d" % j] = 0
        plan.append(pre)
    controls += [RUN] * symticks
    if end == "restart":      # stop, start again, run: the outlines must be intact after an exit-all
        controls += [STOP, START, RUN]
        plan = plan + [None] * symticks + [{"*": 1}, {"*": 1}, None]
    elif end is not None:
        controls.append(end)
    def on_assumed(k, control, rlog, robs, fobs):
        # the reference is silent on transitions into frames below a running conditional auxiliary's main frame;
        # the statement itself still decides the outline: the chain of the active frame, cut at that main frame
        r = robs["m"]
        if r["status"] in (1, 2) and r["active"] is not None:
            full = expected_chain(info, int(r["active"][1:]))
            want = full
            for (name, kind, host) in info["aux"]:
                if kind == "cond" and robs[name]["actives"] and robs[name]["main"] in full:
                    want = full[:full.index(robs[name]["main"]) + 1]
            sym.check(r["actives"] == want, "C05/actives-differ-from-outline",
                      lambda: "tick %d real %s chain %s expected %s" % (k, r["actives"], full, want))

    text, out = flostep.run(sym, prog, controls, plan=plan, on_assumed=on_assumed)
    for k, (control, rlog, flog, robs, fobs, env) in enumerate(out):
        r, f = robs["m"], fobs["m"]
        if r["status"] in (1, 2):
            sym.cover("running")
            # independent chain from the forest and the real active frame
            act = r["active"]
            sym.check(act is not None, "C05/running-framer-without-active-frame", text)
            full = expected_chain(info, int(act[1:]))
            if f["actives"] != full:
                sym.cover("cut-at-cond-aux-main")
            sym.check(r["active"] == f["active"], "C05/active-frame-differs-from-reference",
                      "tick %d real %s ref %s\n%s" % (k, r["active"], f["active"], text))
            sym.check(r["actives"] == f["actives"], "C05/actives-differ-from-outline",
                      "tick %d real %s expected %s\n%s" % (k, r["actives"], f["actives"], text))
            if not any(a[1] == "cond" for a in info["aux"]):
                sym.check(r["actives"] == full, "C05/actives-differ-from-outline",
                          "tick %d real %s chain %s" % (k, r["actives"], full))
        else:
            sym.cover("not-running")
            sym.check(r["actives"] == [], "C05/stopped-framer-has-active-frames", "tick %d %s" % (k, r["actives"]))
        sym.check(r["status"] == f["status"], "C05/status-differs-from-reference",
                  "tick %d real %s ref %s\n%s" % (k, r["status"], f["status"], text))
        # auxiliaries (they are framers too)
        for name in robs:
            if name != "m":
                sym.check(robs[name]["actives"] == fobs[name]["actives"], "C05/aux-actives-differ",
                          "tick %d %s real %s ref %s\n%s" % (k, name, robs[name]["actives"], fobs[name]["actives"], text))
    return True


def obligations(tier):
    out = []
    if tier == "quick":
        cfgs = [(3, 1, (), 1, STOP, False), (3, 1, ("cond",), 1, None, True), (3, 1, ("cond",), 1, ABORT, False),
                (4, 0, (), 1, STOP, False), (3, 1, (), 1, "restart", False)]
    else:
        cfgs = [(3, 2, (), 2, STOP, False), (4, 1, (), 1, ABORT, False), (4, 2, (), 1, None, False),
                (3, 1, ("cond",), 2, STOP, True), (4, 1, ("cond",), 1, None, True), (3, 1, ("cond",), 2, ABORT, False),
                (3, 1, ("cond", "plain"), 1, None, True), (3, 1, (), 1, "restart", False), (4, 1, (), 1, "restart", False),
                (3, 1, ("cond",), 1, "restart", True)]
    # conditional auxiliaries that complete within their first iteration (one frame with 'done me')
    cfgs += [(3, 1, ("cond",), 1, None, False, 1)] + ([(4, 1, ("cond",), 1, STOP, False, 1), (3, 1, ("cond",), 2, None, False, 1)] if tier != "quick" else [])
    for cfg in cfgs:
        (n, ngo, auxes, symticks, end, suspended) = cfg[:6]
        aux_frames = cfg[6] if len(cfg) > 6 else 2
        covers = ["running"] + (["not-running"] if end is not None else [])
        for parent in flostep.all_forests(n):
            out.append(Ob("step/N%d-go%d-%s-%s-sym%d-%s/%s" % (
                              n, ngo, ("+".join(auxes) or "noaux") + ("-aux1" if aux_frames == 1 else ""), "suspended" if suspended else "fresh", symticks,
                              {None: "run", 0: "stop", 3: "abort", "restart": "restart"}[end],
                              "".join("r" if q < 0 else str(q) for q in parent)),
                          h, dict(n=n, ngo=ngo, auxes=auxes, symticks=symticks, end=end, parent=parent, first=None,
                                  suspended=suspended, aux_frames=aux_frames),
                          budget=400 if tier == "quick" else 1200, covers=covers,
                          bounds=dict(frames=n, forest=parent, first="any", transitions=ngo, auxes=list(auxes),
                                      symbolic_ticks=symticks, prelude="start" + ("+activate cond aux" if suspended else ""),
                                      share_values="[0,1]")))
    return out
