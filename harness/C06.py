"""C06 -- frame enter and exit actions are properly bracketed and ordered (E1).

Real Builder + real Framer/Frame/Transiter/Suspender code; recorder actions in
every context of every frame (main framer and auxiliaries) plus a recorder in
each transition's transit sub-context.  Arbitrary forest, arbitrary first frame,
transitions between arbitrary frames (self, ancestor, descendant, other tree),
plain and conditional auxiliaries; symbolic share values decide which guards and
conditions hold.  Checked per tick:
 (a) per frame, enter/exit alternate starting with enter (whole run);
 (b) at the tick boundary the frames entered-not-exited are exactly the full
     outlines of the running framer and of its active auxiliaries (suspended
     frames included) -- computed from the forest, not from ioflo's outlines;
 (c) the tick's sequence of transit/exit/rexit/renter/enter actions equals the
     sequence given by the specification function (engine/floref.py).
 (d) Framer.ExEn for ALL ordered (active, target) pairs of every forest.
"""
from engine import Ob
from engine import flostep, floref, flogen
from engine.flostep import START, RUN, STOP, ABORT

PROPERTY = "C06"
ENGINE = "E1"
FUNCTIONS = ["ioflo.base.framing.Framer.ExEn", "Framer.enter/exit/rexit/renter/enterAll/exitAll/segue/recur/makeRunner",
             "ioflo.base.framing.Frame.enter/exit/rexit/renter/precur/checkEnter", "ioflo.base.acting.Transiter.action",
             "ioflo.base.acting.Suspender.action/deactivize", "ioflo.base.needing.Need (symbolic comparisons)",
             "ioflo.base.building.Builder.build (concrete text)"]
ASSUMPTIONS = [
    "programs that attach one original auxiliary to two frames of one chain (or twice to one frame) are assumed away: that is C08's known finding",
    "program family: one framer of N frames in an arbitrary forest, arbitrary first frame, 1-2 transitions (source in the start outline for the first), "
    "entry guards on every frame, optional plain and/or conditional auxiliary (2 frames each, done on the 2nd frame; aux1 variant: one frame with done = completes in its first iteration)",
    "share values are integers in [0,1]; prelude ticks (start; optionally activating the conditional auxiliary) use concrete values, the following ticks are fully symbolic",
    "selector-symbolic: forest, first frame, transition endpoints, auxiliary hosts; genuinely symbolic: all share values of the symbolic ticks",
    "transit actions are observed through a recorder appended to each Transiter's/Suspender's transit list",
] + ["reference choice where the statement is silent: " + s for s in floref.SILENT]

KINDS = ("transit", "exit", "rexit", "renter", "enter")


def h(sym, n, ngo, auxes, symticks, end, parent, suspended, aux_frames=2):
    prog, info = flostep.family(sym, n, ngo=ngo, auxes=auxes, parent=parent, near_in_cur=True, host_in_cur=True,
                                aux_frames=aux_frames)
    # one original auxiliary attached to two frames of one chain (or twice to one frame) is entered under both when
    # that outline is entered in one go: C08's known finding, not this property's subject -- assumed away here
    hosts = {}
    for (name, kind, host) in info["aux"]:
        hosts.setdefault(host, []).append(name)
    owners = {}
    for f, names in hosts.items():
        for a in names:
            owners.setdefault(a, []).append(f)
    for a, fs_ in owners.items():
        if len(fs_) > 1:
            for i in range(n):
                ch = flostep.chain(info["parent"], i)
                sym.assume(sum(1 for x in fs_ if x in ch) <= 1)
    controls = [START]
    plan = [{"*": 1}]
    if suspended:
        controls.append(RUN)
        pre = {"*": 1}
        for (name, kind, host) in info["aux"]:
            pre["y_" + name] = 0
        for j in range(ngo):
            pre["x%d" % j] = 0
        plan.append(pre)
    controls += [RUN] * symticks
    if end == "restart":      # stop, then start again and run: outlines must be intact after an exit-all
        controls += [STOP, START, RUN]
        plan = plan + [None] * symticks + [{"*": 1}, {"*": 1}, None]
    elif end is not None:
        controls.append(end)
    text, out = flostep.run(sym, prog, controls, plan=plan)
    specs = {fs.name: fs for fs in prog.framers}
    state = {}   # (framer, frame) -> entered?
    prev_ref = None
    for k, (control, rlog, flog, robs, fobs, env) in enumerate(out):
        # (c) order of the structural actions of this tick
        rs = [e for e in rlog if e[2] in KINDS]
        fs = [e for e in flog if e[2] in KINDS]
        if rs != fs:
            susp = []
            if prev_ref is not None and prev_ref["m"]["active"] is not None:
                full = ["f%d" % i for i in flostep.chain(info["parent"], int(prev_ref["m"]["active"][1:]))]
                susp = [f for f in full if f not in prev_ref["m"]["actives"]]
            # plain auxiliaries hosted by a suspended frame are left entered with it (same root cause)
            susp_aux = [name for (name, kind, host) in info["aux"] if kind == "plain" and ("f%d" % host) in susp]
            if susp and rs == [e for e in fs if not (e[2] == "exit" and ((e[0] == "m" and e[1] in susp) or e[0] in susp_aux))]:
                what = {RUN: "transition", STOP: "stop", ABORT: "abort"}.get(control, "other")
                sym.fail("C06/suspended-frames-not-exited-on-" + what,
                         "tick %d: frames %s stay entered\nreal %s\nspec %s\n%s" % (k, susp, rs, fs, text))
            sym.fail("C06/action-order-differs-from-spec", "tick %d control %d\nreal %s\nspec %s\n%s" % (k, control, rs, fs, text))
        if any(e[2] == "transit" for e in rs):
            sym.cover("transition-taken")
        if any(e[2] == "rexit" for e in rs):
            sym.cover("rexit-renter")
        # (a) bracket discipline
        for (fr, f, c) in rlog:
            if c == "enter":
                sym.check(not state.get((fr, f)), "C06/frame-entered-twice-without-exit", "%s.%s tick %d\n%s" % (fr, f, k, text))
                state[(fr, f)] = True
            elif c == "exit":
                sym.check(state.get((fr, f)), "C06/frame-exited-without-enter", "%s.%s tick %d\n%s" % (fr, f, k, text))
                state[(fr, f)] = False
        # (b) tick boundary: entered-not-exited == full outlines of running framers / active auxes
        expect = set()
        for name, o in robs.items():
            if o["active"] is None:
                continue
            if name == "m":
                if o["status"] not in (1, 2):
                    continue
                for i in flostep.chain(info["parent"], int(o["active"][1:])):
                    expect.add(("m", "f%d" % i))
            else:
                fsx = specs[name].frames          # aux framers are flat: outline = the active frame
                expect.add((name, o["active"]))
        have = set(kf for kf, v in state.items() if v)
        sym.check(have == expect, "C06/entered-set-differs-from-outlines",
                  "tick %d entered %s expected %s\n%s" % (k, sorted(have), sorted(expect), text))
        prev_ref = fobs
    if end is not None:
        sym.cover("ended")
    return True


def h_exen(sym, n):
    """Framer.ExEn for all ordered pairs (active, target) of every forest of n frames."""
    from ioflo.base import framing
    parent = flostep.forest(sym, n)
    lines = ["house h", "  framer m be active first f0"]
    for i in range(n):
        lines.append("    frame f%d%s" % (i, (" in f%d" % parent[i]) if parent[i] >= 0 else ""))
    with flogen.notrace(sym):
        house = flogen.build_text("\n".join(lines) + "\n")[0]
    m = house.framers[0]
    frames = [m.frameNames["f%d" % i] for i in range(n)]
    a = sym.choice("active", n)
    t = sym.choice("target", n)
    nears = [frames[i] for i in flostep.chain(parent, a)]
    sym.check([f.name for f in frames[a].outline] == [f.name for f in nears], "C06/exen/outline-differs-from-chain", str(parent))
    exits, enters, common = framing.Framer.ExEn(nears, frames[t])
    fars = flostep.chain(parent, t)
    cur = flostep.chain(parent, a)
    i = 0
    while i < len(cur) and i < len(fars) and cur[i] == fars[i] and cur[i] != t:
        i += 1
    exp = (cur[i:], fars[i:], cur[:i])
    got = ([int(f.name[1:]) for f in exits], [int(f.name[1:]) for f in enters], [int(f.name[1:]) for f in common])
    sym.check(got == exp, "C06/exen/differs-from-spec", "forest %s active %d target %d got %s expected %s" % (parent, a, t, got, exp))
    return True


def obligations(tier):
    out = []
    if tier == "quick":
        cfgs = [(3, 1, (), 1, STOP, False), (3, 1, ("plain",), 1, ABORT, False), (3, 1, ("cond",), 1, STOP, True),
                (3, 1, (), 1, "restart", False), (3, 1, ("cond",), 1, STOP, False, 1)]
        exen = [3, 4]
    else:
        cfgs = [(3, 2, (), 2, STOP, False), (4, 1, (), 1, ABORT, False), (4, 2, (), 1, None, False),
                (3, 1, ("plain",), 2, STOP, False), (4, 1, ("plain",), 1, ABORT, False),
                (3, 1, ("cond",), 2, STOP, True), (3, 1, ("cond",), 2, ABORT, False), (4, 1, ("cond",), 1, STOP, True),
                (3, 1, ("plain", "cond"), 1, STOP, True), (3, 1, ("plain", "plain"), 1, STOP, False),
                (3, 1, (), 1, "restart", False), (4, 1, (), 1, "restart", False), (3, 1, ("plain",), 1, "restart", False),
                (3, 1, ("cond",), 2, STOP, False, 1), (4, 1, ("cond",), 2, ABORT, False, 1)]
        exen = [3, 4, 5]
    for n in exen:
        out.append(Ob("exen/N%d" % n, h_exen, dict(n=n), budget=600, bounds=dict(frames=n, pairs="all ordered (active, target)")))
    for cfg in cfgs:
        (n, ngo, auxes, symticks, end, suspended) = cfg[:6]
        aux_frames = cfg[6] if len(cfg) > 6 else 2
        covers = ["transition-taken"] + (["ended"] if end is not None else [])
        for parent in flostep.all_forests(n):
            out.append(Ob("step/N%d-go%d-%s%s-%s-sym%d-%s/%s" % (
                              n, ngo, "+".join(auxes) or "noaux", "-aux1" if aux_frames == 1 else "", "suspended" if suspended else "fresh", symticks,
                              {None: "run", 0: "stop", 3: "abort", "restart": "restart"}[end], "".join("r" if q < 0 else str(q) for q in parent)),
                          h, dict(n=n, ngo=ngo, auxes=auxes, symticks=symticks, end=end, parent=parent, suspended=suspended, aux_frames=aux_frames),
                          budget=400 if tier == "quick" else 1200, covers=covers,
                          bounds=dict(frames=n, forest=parent, first="any", transitions=ngo, auxes=list(auxes),
                                      symbolic_ticks=symticks, prelude="start" + ("+activate cond aux" if suspended else ""),
                                      share_values="[0,1]")))
    return out
