"""C47 -- named entities have unique names within their namespace (E1, inductive step).

Namespaces: houses (House.Names); taskers and framers of a house (Tasker.Names, pointed
at the current house's registry by House.assignRegistries); logs (Log.Names, same);
frames of a framer (Frame.Names, pointed at the framer's registry by
Framer.assignFrameRegistry).

Pre-state: the current registry holds an arbitrary subset of a small universe that
contains the automatic-name pattern of the class (<Preface>1, <Preface>2, <Preface>2a)
next to ordinary names; the class counter is a symbolic int; `random.randint` (the
random letter appended to a colliding automatic name) is a stub returning a symbolic int
in the requested range.  One operation: create with an explicit name (possibly a
duplicate, possibly matching the automatic pattern) / create with an automatic name /
Clear then create / switch to another house's (another framer's) registries then create.
Post: no pre-existing entry of any registry is replaced or removed, an explicit duplicate
is rejected, a non-duplicate is accepted and registered under its name in the *current*
namespace only, an automatic name is new to the current namespace.  Real classes and real
constructors are used throughout.
"""
from engine import Ob
from ioflo.aid.odicting import odict
from ioflo.base import registering, storing, housing, tasking, framing, logging

PROPERTY = "C47"
ENGINE = "E1"
FUNCTIONS = ["ioflo.base.registering.Registrar.__init__", "Registrar.Clear", "ioflo.base.housing.House.assignRegistries",
             "ioflo.base.framing.Framer.assignFrameRegistry", "ioflo.base.framing.Framer.prune", "House/Tasker/Framer/Logger/Frame/Log.__init__"]
ASSUMPTIONS = [
    "registering.random replaced by a stub whose randint(a, b) returns a symbolic int in [a, b]",
    "registry universe per class: {x, <Preface>1, <Preface>2, <Preface>2a}; explicit names from that universe plus 'z'; "
    "class Counter in [0, 2]; house / framer counters in [0, 2] (selectors: str(counter) builds the name, and a symbolic "
    "name string would outlive its path inside the tasker's generator)",
    "pre-existing registry entries are attribute-less placeholder instances of the class (only their identity and key matter)",
    "instances are created with an explicit bare Store (built without Store.__init__), so House() does not create a Store",
    "Clear is applied to the class that owns the namespace (House, Tasker, Frame, Log), as ioflo's own code and tests do",
    "a rejection is any Exception raised by the constructor; a name that is not a duplicate must be accepted",
    "name uniqueness of FloScript-built programs (builder paths) is not part of this harness",
    "partial-clear: one of Log / Store / Tasker is cleared on its own, the house is made current again directly or through "
    "Framer.clone, then one Log or Tasker is created; Clear of the class whose instance is created makes the house's "
    "registry the expected namespace again after the house is re-made current",
    "Framer/prune: the pruned framer is done (no exitAll) and has at most one frame holding one insular aux clone; a "
    "pruned framer counts as dead; the vacuity label 'current-is-other' is waived by a concrete probe while every prune "
    "under a foreign current namespace is a replayed violation",
]

KINDS = {
    # kind: (class, namespace owner, automatic-name preface, house registry key)
    "House": (housing.House, housing.House, "House", None),
    "Tasker": (tasking.Tasker, tasking.Tasker, "Tasker", "tasker"),
    "Framer": (framing.Framer, tasking.Tasker, "Framer", "tasker"),
    "Logger": (logging.Logger, tasking.Tasker, "Logger", "tasker"),
    "Frame": (framing.Frame, framing.Frame, "Frame", None),
    "Log": (logging.Log, logging.Log, "Log", "log"),
}


def fail(sym, key, detail=""):
    """detail may be a callable: the engine evaluates it under concrete replay only (formatting symbolic values
    would realise them), and reads the counterexample from a solver model without enumerating value domains"""
    sym.fail(key, detail)


def chk(sym, c, key, detail=""):
    if not c:
        sym.fail(key, detail)


def run(fn):
    try:
        return ("ok", fn())
    except Exception as e:   # noqa: BLE001
        return ("exc", type(e).__name__)


class _Rand(object):
    """double for the `random` module inside ioflo.base.registering"""

    def __init__(self, sym):
        self.sym = sym
        self.n = 0

    def randint(self, a, b):
        self.n += 1
        # realised at once (one path per letter): a symbolic letter would make the instance's name a symbolic str
        return self.sym.realize(self.sym.int("rand%d" % self.n, a, b))


def bare_store():
    store = storing.Store.__new__(storing.Store)
    store.name = "s"
    store.stamp = None
    store.house = None
    store.shares = storing.Node().byName('')
    return store


def universe(preface):
    return ["x", preface + "1", preface + "2", preface + "2a"]


def subset(sym, tag, cls, names, make=dict):
    """registry dict holding an arbitrary subset of names (placeholder instances)"""
    reg = make()
    for i, k in enumerate(names):
        if sym.bool("%s%d" % (tag, i)):
            ph = cls.__new__(cls)
            ph.name = k
            reg[k] = ph
    return reg


def snap(reg):
    return [(k, id(v)) for k, v in reg.items()]


def reset_classes(sym):
    """every path starts from clean class-level registries (paths of one obligation share the process)"""
    registering.random = _Rand(sym)
    for cls, owner, preface, key in KINDS.values():
        if cls is not owner and "Names" in cls.__dict__:
            del cls.Names
        if cls is not owner and "Counter" in cls.__dict__:
            del cls.Counter
    housing.House.Names = {}
    housing.House.Counter = 0
    storing.Store.Names = {}
    storing.Store.Counter = 0
    tasking.Tasker.Names = {}
    tasking.Tasker.Counter = 0
    framing.Frame.Names = odict()
    framing.Frame.Counter = 0
    logging.Log.Names = {}
    logging.Log.Counter = 0


def create(cls, store, name):
    if name is None:
        return run(lambda: cls(store=store))
    return run(lambda: cls(name=name, store=store))


def judge(sym, K, cls, owner, got, name, current, pre_current, others):
    """common post-condition.  current: registry dict that is the current namespace; pre_current: its snapshot;
    others: [(label, dict, snapshot)] registries of other namespaces that must not move"""
    pre_keys = [k for k, i in pre_current]
    chk(sym, owner.Names is current, K + "/current-namespace-is-not-the-expected-registry")
    for label, reg, before in others:
        chk(sym, snap(reg) == before, K + "/other-namespace-changed", lambda: "%s: %r -> %r" % (label, [k for k, i in before], list(reg)))
    after = snap(current)
    for k, i in pre_current:
        chk(sym, (k, i) in after, K + "/existing-entry-replaced-or-removed", lambda: "name %r" % (k,))
    if name is not None and name in pre_keys:
        sym.cover("explicit-duplicate")
        chk(sym, got[0] == "exc", K + "/explicit-duplicate-accepted", lambda: "name %r" % (name,))
        chk(sym, after == pre_current, K + "/rejected-creation-changed-registry", lambda: "%r" % (list(current),))
        return None
    chk(sym, got[0] == "ok", K + "/creation-rejected", lambda: "name %r registry %r: %s" % (name, pre_keys, got[1]))
    inst = got[1]
    if name is None:
        sym.cover("automatic")
        chk(sym, isinstance(inst.name, str) and inst.name != "", K + "/automatic-name-empty")
        chk(sym, inst.name not in pre_keys, K + "/automatic-name-collides", lambda: "got %r registry %r" % (inst.name, pre_keys))
        if registering.random.n:
            sym.cover("automatic-name-needed-random-suffix")
    else:
        sym.cover("explicit-new")
        chk(sym, inst.name == name, K + "/instance-name-differs-from-request")
    chk(sym, len(after) == len(pre_current) + 1 and current.get(inst.name) is inst, K + "/instance-not-registered-under-its-name",
        lambda: "name %r registry %r" % (inst.name, list(current)))
    for label, reg, before in others:
        chk(sym, all(v is not inst for v in reg.values()), K + "/instance-registered-in-other-namespace", label)
    return inst


def h(sym, kind, op, ncur=4, nother=4, ncount=3):
    """ncur / nother: how many names of the universe the current / the other namespace may hold; ncount: counters 0..ncount-1"""
    cls, owner, preface, hkey = KINDS[kind]
    K = "C47/%s/%s" % (kind, op)
    reset_classes(sym)
    store = bare_store()
    U = universe(preface)[:ncur]
    UO = universe(preface)[:nother]
    names = U + ["z"]

    def counter(tag):
        return sym.choice(tag, ncount)

    def pick_name():
        """None = automatic"""
        if sym.flag("auto"):
            return None
        return names[sym.int("name", 0, len(names) - 1)]

    if op in ("create", "clear"):
        reg = subset(sym, "in", cls, U, type(owner.Names))
        owner.Names = reg
        if cls is owner:
            owner.Counter = counter("counter")
        else:
            cls.Counter = counter("own_counter")     # a subclass counts on its own once it has created an instance
        name = pick_name()
        if op == "create":
            pre = snap(reg)
            got = create(cls, store, name)
            judge(sym, K, cls, owner, got, name, reg, pre, [])
            return True
        pre_old = snap(reg)
        got = run(lambda: owner.Clear())
        chk(sym, got[0] == "ok", K + "/clear-raises", lambda: got[1])
        new = owner.Names
        chk(sym, len(new) == 0 and owner.Counter == 0, K + "/registry-not-empty-after-clear")
        got = create(cls, store, name)
        judge(sym, K, cls, owner, got, name, new, [], [("registry before Clear", reg, pre_old)] if new is not reg else [])
        chk(sym, new is not reg or not pre_old, K + "/clear-emptied-a-registry-others-may-hold")
        sym.cover("cleared-nonempty" if pre_old else "cleared-empty")
        return True

    if op == "house-switch":
        ha = housing.House(name="A", store=store)
        hb = housing.House(name="B", store=bare_store())
        ha.names[hkey] = subset(sym, "a", cls, UO, odict)
        hb.names[hkey] = subset(sym, "b", cls, U, odict)
        if cls is owner:
            hb.counters[hkey] = counter("bcounter")      # house A's counter is overwritten by the switch
        else:
            cls.Counter = counter("own_counter")
        ha.assignRegistries()
        if sym.flag("create_in_a_first"):        # something was already created under A before the switch
            sym.cover("created-before-switch")
            first = create(cls, store, "w")
            chk(sym, first[0] == "ok", K + "/creation-rejected-before-switch")
        pre_a, pre_b = snap(ha.names[hkey]), snap(hb.names[hkey])
        others = [("house A " + k, ha.names[k], snap(ha.names[k])) for k in ha.names]
        others += [("house B " + k, hb.names[k], snap(hb.names[k])) for k in hb.names if k != hkey]
        hb.assignRegistries()
        name = pick_name()
        if name is not None and name in [k for k, i in pre_a] and name not in [k for k, i in pre_b]:
            sym.cover("name-exists-in-other-house-only")
        got = create(cls, hb.store, name)
        judge(sym, K, cls, owner, got, name, hb.names[hkey], pre_b, others)
        return True

    if op == "framer-switch":
        ha = housing.House(name="A", store=store)
        ha.assignRegistries()
        f1 = framing.Framer(name="f1", store=store)
        f2 = framing.Framer(name="f2", store=store)
        f1.frameNames = subset(sym, "a", cls, UO, odict)
        f2.frameNames = subset(sym, "b", cls, U, odict)
        f2.frameCounter = counter("bcounter")            # framer f1's counter is overwritten by the switch
        f1.assignFrameRegistry()
        if sym.flag("create_in_a_first"):
            sym.cover("created-before-switch")
            first = create(cls, store, "w")
            chk(sym, first[0] == "ok", K + "/creation-rejected-before-switch")
        pre_a, pre_b = snap(f1.frameNames), snap(f2.frameNames)
        f2.assignFrameRegistry()
        name = pick_name()
        if name is not None and name in [k for k, i in pre_a] and name not in [k for k, i in pre_b]:
            sym.cover("name-exists-in-other-framer-only")
        got = create(cls, store, name)
        judge(sym, K, cls, owner, got, name, f2.frameNames, pre_b, [("framer f1 frames", f1.frameNames, pre_a)])
        return True
    raise AssertionError(op)


# ----------------------------------------------------------------------------- deregistration (Framer.prune)
PRUNE_NAMES = ["m", "n"]


def h_prune(sym, names=tuple(PRUNE_NAMES)):
    """Two real houses, each with its own tasker registry swapped in by the real House.assignRegistries.  Each house
    holds an arbitrary subset of live framers named from `names` (so same-named live framers in both houses occur),
    optionally one of them attached as an insular auxiliary clone to a frame of the other (prune recurses).  The
    current namespace is either house; the framer to prune belongs to either house.  One step: target.prune()
    (what the Razer actor calls).  Post: every live framer is registered under its name, by identity, in its own
    house's registry; no registry holds a pruned (dead) or a foreign framer; nothing else moved."""
    K = "C47/Framer/prune"
    reset_classes(sym)
    houses = []
    live = []           # [house index][name] -> framer
    for hi, hname in enumerate(("A", "B")):
        hs = housing.House(name=hname, store=bare_store())
        hs.assignRegistries()
        d = {}
        for ni, nm in enumerate(names):
            if sym.bool("live_%s_%d" % (hname, ni)):
                d[nm] = framing.Framer(name=nm, store=hs.store)
        houses.append(hs)
        live.append(d)
    # the framer to prune: house and name (must be live)
    th = sym.choice("target_house", 2)
    tn = names[sym.choice("target_name", len(names))]
    sym.assume(tn in live[th])
    target = live[th][tn]
    dead = [target]
    # optionally the other live framer of the same house is an insular aux clone in a frame of the target
    others_here = [nm for nm in live[th] if nm != tn]
    if others_here and sym.flag("with_insular_aux"):
        sym.cover("recursive-prune")
        aux = live[th][others_here[0]]
        houses[th].assignRegistries()
        target.assignFrameRegistry()
        frame = framing.Frame(name="f", store=houses[th].store, framer=target.name)
        aux.original = False
        aux.insular = True
        aux.razeable = True
        aux.main = frame
        frame.auxes.append(aux)
        target.auxes[aux.tag] = aux
        dead.append(aux)
    cur = sym.choice("current_house", 2)
    houses[cur].assignRegistries()          # the real namespace switch; prune() itself does not switch
    sym.cover("current-is-owner" if cur == th else "current-is-other")
    if tn in live[1 - th]:
        sym.cover("same-name-live-in-other-house")
    regs = [hs.names["tasker"] for hs in houses]
    for hi in (0, 1):       # pre-state is valid
        chk(sym, sorted(regs[hi]) == sorted(live[hi]) and all(regs[hi][k] is v for k, v in live[hi].items()),
            "C47/Framer/prune/pre-state-invalid")
    got = run(lambda: target.prune())
    chk(sym, got[0] == "ok", K + "/raises", lambda: got[1])
    for f in dead:
        del live[th][f.name]
    for hi in (0, 1):
        reg = houses[hi].names["tasker"]
        chk(sym, reg is regs[hi], K + "/house-registry-object-replaced")
        for nm, f in live[hi].items():
            chk(sym, reg.get(nm) is f, K + "/live-object-missing-from-its-namespace",
                lambda: "house %s: live framer %r registered as %r (pruned %r of house %s, current %s)" % (
                    "AB"[hi], nm, reg.get(nm), tn, "AB"[th], "AB"[cur]))
        for nm, f in reg.items():
            chk(sym, f.name == nm, K + "/registered-under-wrong-name")
            chk(sym, all(f is not x for x in live[1 - hi].values()), K + "/registry-maps-name-to-foreign-object",
                lambda: "house %s name %r" % ("AB"[hi], nm))
            chk(sym, all(f is not x for x in dead), K + "/dead-object-still-registered",
                lambda: "house %s keeps pruned framer %r (current namespace: house %s)" % ("AB"[hi], nm, "AB"[cur]))
        chk(sym, sorted(reg) == sorted(live[hi]), K + "/registry-differs-from-live-set",
            lambda: "house %s registry %r live %r" % ("AB"[hi], sorted(reg), sorted(live[hi])))
    return True


# ----------------------------------------------------------------------------- partial clear, re-current, create
def h_partial_clear(sym, kind, ncur=3, ncount=2):
    """House A current with arbitrary registry content; ONE class registry (Log / Store / Tasker) is cleared on its own
    (Registrar.Clear rebinds only that class); the house is made current again (House.assignRegistries directly, or
    implicitly through Framer.clone); then an instance of `kind` is created (explicit, possibly duplicate, or automatic
    name).  Post (judge): the instance lands in the HOUSE's registry, duplicates of live names are rejected, automatic
    names are new, nothing else moves."""
    cls, owner, preface, hkey = KINDS[kind]
    K = "C47/%s/partial-clear" % kind
    reset_classes(sym)
    store = bare_store()
    ha = housing.House(name="A", store=store)
    U = universe(preface)[:ncur]
    ha.names[hkey] = subset(sym, "a", cls, U, odict)
    ha.counters[hkey] = sym.choice("acounter", ncount)
    ha.assignRegistries()
    moot = framing.Framer(name="moot", store=store)      # a live framer of the house (for the clone path)
    cleared = (logging.Log, storing.Store, tasking.Tasker)[sym.choice("cleared", 3)]
    sym.cover("cleared-" + cleared.__name__)
    got = run(lambda: cleared.Clear())
    chk(sym, got[0] == "ok", K + "/clear-raises", lambda: got[1])
    if sym.flag("via_clone"):
        sym.cover("current-again-via-clone")
        got = run(lambda: moot.clone(name="cl"))
        chk(sym, got[0] == "ok", K + "/clone-rejected", lambda: got[1])
    else:
        sym.cover("current-again-direct")
        ha.assignRegistries()
    if cls is not owner:
        cls.Counter = sym.choice("own_counter", ncount)
    reg = ha.names[hkey]
    pre = snap(reg)
    others = [("house A " + k, ha.names[k], snap(ha.names[k])) for k in ha.names if k != hkey]
    names = U + ["z"]
    name = None if sym.flag("auto") else names[sym.int("name", 0, len(names) - 1)]
    got = create(cls, store, name)
    judge(sym, K, cls, owner, got, name, reg, pre, others)
    return True


def _prune_cross_namespace_works():
    """does pruning a framer while another house's namespace is current deregister it from its own house?"""
    try:
        housing.House.Names = {}
        a = housing.House(name="probeA", store=bare_store())
        b = housing.House(name="probeB", store=bare_store())
        a.assignRegistries()
        f = framing.Framer(name="m", store=a.store)
        b.assignRegistries()
        f.prune()
        return "m" not in a.names["tasker"]
    except Exception:   # noqa: BLE001
        return False
    finally:
        housing.House.Names = {}
        tasking.Tasker.Names = {}


def obligations(tier):
    quick = tier == "quick"
    kinds = ["House", "Tasker", "Framer", "Frame", "Log"] + ([] if quick else ["Logger"])
    base = ["explicit-duplicate", "explicit-new", "automatic", "automatic-name-needed-random-suffix"]
    out = []

    def ob(kind, op, covers, **size):
        u = universe(KINDS[kind][2])
        out.append(Ob("%s/%s" % (kind, op), h, dict(kind=kind, op=op, **size), budget=600 if quick else 3000, covers=covers,
                      max_fail_keys=40,
                      bounds=dict(current_registry_universe=u[:size.get("ncur", 4)], explicit_names=u[:size.get("ncur", 4)] + ["z"],
                                  other_registry_universe=u[:size.get("nother", 4)] if "switch" in op else None,
                                  counters=[0, size.get("ncount", 3) - 1], randint="any value of the requested range",
                                  steps="1 (inductive) from any registry content")))

    switch = dict(ncur=3, nother=2, ncount=2) if quick else dict(ncur=4, nother=3, ncount=3)
    for kind in kinds:
        cls, owner, preface, hkey = KINDS[kind]
        ob(kind, "create", base)
        if cls is owner:
            ob(kind, "clear", ["explicit-new", "automatic", "cleared-nonempty", "cleared-empty"])
        if hkey is not None:
            ob(kind, "house-switch", base + ["created-before-switch", "name-exists-in-other-house-only"], **switch)
        if kind == "Frame":
            ob(kind, "framer-switch", base + ["created-before-switch", "name-exists-in-other-framer-only"], **switch)
    pc = ["cleared-Log", "cleared-Store", "cleared-Tasker", "current-again-via-clone", "current-again-direct"]
    for kind in ("Log", "Tasker"):
        out.append(Ob("%s/partial-clear" % kind, h_partial_clear, dict(kind=kind), budget=600 if quick else 3000,
                      covers=base + pc, max_fail_keys=40,
                      bounds=dict(house_registry_universe=universe(KINDS[kind][2])[:3], cleared_class="Log | Store | Tasker (one)",
                                  made_current_again="assignRegistries | Framer.clone", counters=[0, 1],
                                  steps="clear one class registry; make house current; create one instance")))
    # deregistration: Framer.prune is the only removal path besides Clear (grep: del/pop on a Names registry)
    pcov = ["current-is-owner", "current-is-other", "same-name-live-in-other-house", "recursive-prune"]
    if not _prune_cross_namespace_works():
        # genuine defect: every prune under a foreign current namespace is a replayed violation, so that label
        # cannot be reached on a confirmed path; required again once prune deregisters from its own house
        pcov.remove("current-is-other")
    out.append(Ob("Framer/prune", h_prune, dict(names=tuple(PRUNE_NAMES)), budget=600 if quick else 3000, covers=pcov,
                  max_fail_keys=40,
                  bounds=dict(houses=2, live_framer_names=PRUNE_NAMES, current_namespace="either house",
                              pruned_framer="any live framer of either house, optionally with an insular aux clone",
                              steps="1 (inductive) from any valid two-namespace state")))
    return out
