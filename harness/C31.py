"""C31 -- keep-alive: N requests -> N ordered, framed responses (E1).

The unmodified `Patron` and `Valet` are connected through an in-memory socket-pair double
(`engine/doubles_httprt.py`): `valet.servant.ss` is a listening double handing out the
server end, `patron.connector.cs` is the client end.  No real socket, no clock.

Symbolic dimensions
* service interleaving: `who_k` (k < S) picks which side's `serviceAll()` runs at step k;
  afterwards both sides are serviced alternately (fair drain) for a fixed number of rounds;
* transfer limits: `slots` calls of send()/recv() (counted over both ends) are limited to
  `lim*stride` bytes (0 = EAGAIN), or to all but the last `lim*stride` bytes (`tail` = 1: e.g.
  the head of the 2nd request reaches the server, part of its body only after a server pass); the call index `at_k` and the limit `lim_k` are symbolic
  integers: the solver forks on `at_k == callno` for the calls that really happen and on
  `limit < available`; the byte count is realised where the double slices the data.
* response shapes per request: selectors fixed as obligation parameters (one shard per
  shape tuple).

A third family drives the Valet with all N requests written back to back (HTTP/1.1
pipelining) at a symbolic cut, and reads the bytes on the wire with an independent
RFC 7230 reader.

Oracle (the statement): exactly N responses; in request order; each carries the body the
application produced for *its* request; every response on the wire is delimited by
Content-Length or chunked coding (the connection stays usable: the last request of the
sequence is served over the same connection, nothing is cut off); a response handed to
the application does not change afterwards.
"""
from engine import Ob
from engine.doubles_httprt import (SlotLimits, Unlimited, wire_pair, socket_pair, Listen,
                                   read_response, WireError, run_concrete)
from ioflo.aid.odicting import odict
from ioflo.base import storing
from ioflo.aio.http import clienting, serving, httping

PROPERTY = "C31"
ENGINE = "E1"
TECHNIQUE = "path-wise symbolic execution (CrossHair engine + z3) of the real Patron <-> Valet over a socket-pair double"
FUNCTIONS = ["ioflo.aio.http.clienting.Patron.serviceAll", "ioflo.aio.http.clienting.Patron.serviceRequests",
             "ioflo.aio.http.clienting.Patron.serviceResponse", "ioflo.aio.http.clienting.Patron.transmit",
             "ioflo.aio.http.clienting.Respondent.parseHead", "ioflo.aio.http.clienting.Respondent.parseBody",
             "ioflo.aio.http.serving.Valet.serviceAll", "ioflo.aio.http.serving.Valet.serviceConnects",
             "ioflo.aio.http.serving.Valet.serviceReqs", "ioflo.aio.http.serving.Valet.serviceReps",
             "ioflo.aio.http.serving.Responder.reset", "ioflo.aio.http.serving.Responder.service",
             "ioflo.aio.http.serving.Responder.write", "ioflo.aio.http.serving.Requestant.parseHead",
             "ioflo.aio.tcp.clienting.Client.serviceTxes", "ioflo.aio.tcp.clienting.Client.serviceReceives",
             "ioflo.aio.tcp.serving.Incomer.serviceTxes", "ioflo.aio.tcp.serving.Incomer.serviceReceives",
             "ioflo.aio.tcp.serving.Server.serviceAxes"]
ASSUMPTIONS = [
    "socket-pair double: two byte queues; send() moves min(len, limit) bytes, recv() min(available, bufsize, limit); "
    "limit 0 raises EAGAIN; no loss, no reordering, no close by the network",
    "all transfer calls except the `slots` symbolic ones are unlimited; after the S scheduled steps both sides are serviced "
    "alternately for 8N+10+2*slots rounds (fair drain) before the oracle is evaluated",
    "store stamp is never advanced: connection timers (Valet 5 s, Client 1 s) never expire",
    "all N requests are queued on the Patron before the first service call (Patron sends them one at a time); requests 0 and 1 are POSTs "
    "with a 9-byte body, request 2 is a GET; each carries an application tag rid=k (not sent) that must come back with its response",
    "WSGI application double: response shape chosen by PATH_INFO; bodies echo the request index, method and request body",
    "a response is 'delimited' iff it has Content-Length or Transfer-Encoding: chunked (or is 204/304); close-delimited "
    "responses are counted as not delimited because they end the persistent connection",
    "pipeline family: a raw client writes all N requests at once / in two pieces (symbolic cut) and never closes; "
    "server bytes are read by the harness's RFC 7230 reference reader",
]

SHAPES_Q = ["fixed", "stream", "empty0", "empty"]
SHAPES_T = ["fixed", "stream", "empty0", "empty", "fixed2", "stream-e", "error", "nocontent"]


def expected_body(i, method, reqbody):
    return ("resp-%d:%s:" % (i, method)).encode("ascii") + reqbody


def make_app(shapes):
    def app(environ, start_response):
        path = environ["PATH_INFO"]
        i = int(path[2:])
        shape = shapes[i]
        reqbody = environ["wsgi.input"].read()
        body = expected_body(i, environ["REQUEST_METHOD"], reqbody)
        ctype = ("Content-Type", "text/plain")
        if shape == "fixed":
            start_response("200 OK", [ctype, ("Content-Length", str(len(body)))])
            return [body]
        if shape == "fixed2":
            start_response("200 OK", [ctype, ("Content-Length", str(len(body)))])
            return iter([body[:5], b"", body[5:]])
        if shape == "stream":
            start_response("200 OK", [ctype])
            return iter([body[:4], body[4:]])
        if shape == "stream-e":
            def gen():
                start_response("200 OK", [ctype])
                yield b""
                yield body[:6]
                yield b""
                yield body[6:]
            return gen()
        if shape == "empty0":
            start_response("200 OK", [ctype, ("Content-Length", "0")])
            return []
        if shape == "empty":
            start_response("200 OK", [ctype])
            return []
        if shape == "nocontent":
            start_response("204 No Content", [])
            return []
        if shape == "error":
            def gen():
                raise httping.HTTPError(404, title="T%d" % i, detail=body.decode("iso-8859-1"))
                yield b""
            return gen()
        raise AssertionError(shape)
    return app


def expectation(i, shape, method, reqbody):
    body = expected_body(i, method, reqbody)
    if shape in ("fixed", "fixed2", "stream", "stream-e"):
        return 200, body
    if shape in ("empty0", "empty"):
        return 200, b""
    if shape == "nocontent":
        return 204, b""
    if shape == "error":
        return 404, httping.HTTPError(404, title="T%d" % i, detail=body.decode("iso-8859-1")).render()
    raise AssertionError(shape)


def request_of(k):
    # POST, POST, GET: the first two carry a body that must be consumed before the next request, and the SECOND
    # request (the first one parsed by a reused request parser) can reach the server head first, body later
    if k % 3 == 2:
        return "GET", b""
    return "POST", b"payload-%d" % k


def check_wire(sym, total, shapes, reqs):
    """every response on the wire delimited, N of them, in order, nothing after"""
    pos = 0
    for i, shape in enumerate(shapes):
        try:
            r = read_response(total, pos)
        except (WireError, ValueError) as ex:
            sym.fail("C31/wire/malformed-response", "response %d: %r; wire=%r" % (i, ex.args, bytes(total[pos:pos + 120])))
        if r is None:
            sym.fail("C31/wire/response-missing-or-incomplete",
                     "only %d complete responses of %d on the wire; tail=%r" % (i, len(shapes), bytes(total[pos:pos + 120])))
        status, reason, headers, body, newpos, framing = r
        if framing == "close":
            sym.fail("C31/wire/response-not-delimited",
                     "response %d (%s) of %s has neither Content-Length nor chunked coding on a kept-alive connection: %r"
                     % (i, shape, "/".join(shapes), bytes(total[pos:pos + 160])))
        estatus, ebody = expectation(i, shape, *reqs[i])
        sym.check(status == estatus and body == ebody, "C31/wire/response-does-not-match-request",
                  "response %d: expected %r %r got %r %r" % (i, estatus, ebody, status, body))
        pos = newpos
    sym.check(pos == len(total), "C31/wire/bytes-after-last-response", repr(bytes(total[pos:pos + 120])))


def check_server_buffers(sym, valet):
    """all request bytes were consumed: what is left would be parsed as (part of) the next request"""
    for ix in valet.servant.ixes.values():
        sym.check(len(ix.rxbs) == 0 and not ix.txes, "C31/server/bytes-left-after-last-request",
                  "receive buffer %r, %d unsent items" % (bytes(ix.rxbs[:60]), len(ix.txes)))


def snapshot(resp):
    return dict(status=resp["status"], body=bytes(resp["body"]), path=resp["request"]["path"],
                method=resp["request"]["method"], rid=resp["request"].get("rid"), errored=resp["errored"], obj=resp)


def pick_shapes(sym, shapes, free):
    """fixed prefix `shapes` + one selector per remaining response (`free` = (count, alphabet))"""
    shapes = list(shapes)
    if free:
        count, alphabet = free
        for i in range(count):
            shapes.append(alphabet[sym.choice("shape%d" % (len(shapes)), len(alphabet))])
    return shapes


def h(sym, shapes, steps, slots, maxcall, lmax, stride, free=None, tail=True):
    shapes = pick_shapes(sym, shapes, free)
    policy = SlotLimits(sym, slots, maxcall, lmax, stride, tail) if slots else Unlimited()
    whos = [sym.choice("who%d" % k, 2) for k in range(steps)]
    # the exchange runs as plain CPython; the socket double resumes tracing for its symbolic limit decisions
    return run_concrete(sym, _exchange, shapes, whos, slots, policy)


def _exchange(sym, shapes, whos, slots, policy):
    n = len(shapes)
    store = storing.Store(stamp=0.0)
    valet = serving.Valet(store=store, app=make_app(shapes), host="", port=8080, name="verif")
    patron = clienting.Patron(store=store, hostname="127.0.0.1", port=8080, reconnectable=False)
    c2s, s2c = wire_pair(patron, valet, policy)
    reqs = [request_of(k) for k in range(n)]
    for k, (method, body) in enumerate(reqs):
        patron.request(method=method, path="/r%d" % k, body=body if body else None, rid=k)   # rid: application's tag, not sent

    snaps = []

    def observe():
        while len(snaps) < len(patron.responses):
            snaps.append(snapshot(patron.responses[len(snaps)]))

    def run(who):
        if who:
            valet.serviceAll()
        else:
            patron.serviceAll()
            observe()

    for who in whos:
        run(who)
    for r in range(8 * n + 10 + 2 * slots):
        run(0)
        run(1)
    run(0)

    if slots and policy.fired:
        sym.cover("limited-transfer")
    # 1. bytes on the wire
    check_wire(sym, s2c.total, shapes, reqs)
    # 2. count
    sym.check(len(snaps) == n and len(patron.responses) == n, "C31/client/response-count",
              "%d responses for %d requests (%s); waited=%r rxbs=%r" % (len(snaps), n, "/".join(shapes), patron.waited,
                                                                      bytes(patron.connector.rxbs[:80])))
    # 3. order / matching at delivery time
    for i, s in enumerate(snaps):
        estatus, ebody = expectation(i, shapes[i], *reqs[i])
        sym.check(not s["errored"], "C31/client/response-errored", "response %d" % i)
        sym.check(s["path"] == "/r%d" % i and s["method"] == reqs[i][0] and s["rid"] == i,
                  "C31/client/response-matched-to-wrong-request",
                  "response %d carries request %r %r rid=%r" % (i, s["method"], s["path"], s["rid"]))
        sym.check(s["status"] == estatus and s["body"] == ebody, "C31/client/response-does-not-match-request",
                  "response %d: expected %r %r got %r %r" % (i, estatus, ebody, s["status"], s["body"]))
    # 4. connection still in use, nothing pending
    sym.check(not patron.connector.cutoff and len(valet.servant.ixes) == 1, "C31/connection-not-kept-alive",
              "cutoff=%r ixes=%d" % (patron.connector.cutoff, len(valet.servant.ixes)))
    sym.check(not patron.waited and not patron.requests and len(patron.connector.rxbs) == 0 and not c2s.buf and not s2c.buf,
              "C31/client/not-idle-after-last-response", "waited=%r" % patron.waited)
    check_server_buffers(sym, valet)
    # 5. delivered responses stay what they were
    for i, s in enumerate(snaps):
        sym.check(patron.responses[i] is s["obj"], "C31/client/response-queue-reordered", "%d" % i)
        sym.check(bytes(s["obj"]["body"]) == s["body"], "C31/client/delivered-response-body-changed-later",
                  "response %d (%s of %s) was %r when delivered, is %r after the following responses were parsed"
                  % (i, shapes[i], "/".join(shapes), s["body"], bytes(s["obj"]["body"])))
    sym.cover("n-responses")
    return True


def h_pipe(sym, shapes, maxcut, maxgap=3, free=None, maxend=0):
    """raw pipelined client: all N requests back to back, split at a symbolic cut.  cut <= maxcut: offset from the
    start of the byte string; cut = maxcut + e (1 <= e <= maxend): offset e from its END (inside the body / the end
    of the head of the LAST request)"""
    shapes = pick_shapes(sym, shapes, free)
    cut = sym.realize(sym.int("cut", 0, maxcut + maxend))
    if cut > maxcut:
        cut = -(cut - maxcut)
    gap = sym.realize(sym.int("gap", 0, maxgap))
    return run_concrete(sym, _pipe, shapes, cut, gap)


def _pipe(sym, shapes, cut, gap):
    n = len(shapes)
    store = storing.Store(stamp=0.0)
    valet = serving.Valet(store=store, app=make_app(shapes), host="", port=8080, name="verif")
    cend, send_, c2s, s2c = socket_pair(Unlimited())
    lis = Listen()
    lis.pending.append((send_, ("127.0.0.1", 50001)))
    valet.servant.ss = lis
    valet.servant.opened = True
    reqs = [request_of(k) for k in range(n)]
    wire = bytearray()
    for k, (method, body) in enumerate(reqs):
        wire.extend(clienting.Requester(hostname="127.0.0.1", port=8080, method=method, path="/r%d" % k, body=body).build())
    if cut < 0:
        cut = max(0, len(wire) + cut)
        sym.cover("cut-in-last-request")
    if cut > len(wire):
        cut = len(wire)
    cend.send(bytes(wire[:cut]))
    for _ in range(gap):
        valet.serviceAll()
    if cut < len(wire):
        cend.send(bytes(wire[cut:]))
        sym.cover("split-pipeline")
    for _ in range(8 * n + 10):
        valet.serviceAll()
    check_wire(sym, s2c.total, shapes, reqs)
    sym.check(len(valet.servant.ixes) == 1, "C31/connection-not-kept-alive", "ixes=%d" % len(valet.servant.ixes))
    check_server_buffers(sym, valet)
    sym.cover("n-responses")
    return True


def tuples(shapes, n):
    if n == 0:
        return [()]
    return [(s,) + t for s in shapes for t in tuples(shapes, n - 1)]


NOLENGTH = ("stream", "stream-e", "empty")


def clean_on_unchanged_tree(t):
    """shape tuples on which no recorded defect of the unchanged tree is visible (used only to decide where
    vacuity-guard cover labels can be demanded: covers are counted on confirmed paths)"""
    return all(s in ("empty0", "empty", "nocontent") for s in t[:-1]) and all(s not in NOLENGTH for s in t[1:])


def obligations(tier):
    quick = tier == "quick"
    out = []
    budget = 240 if quick else 900
    four = [("fixed", "stream"), ("stream", "fixed"), ("stream", "stream"), ("empty", "fixed")]
    # a plan: (family, [(prefix tuple, free=(count, alphabet) or None)], parameters).  quick: one shard per shape tuple;
    # thorough: one shard per first shape (per first two for N=3), the remaining shapes are selectors inside the shard.
    def grouped(alphabet, n, fixed):
        return [(t, (n - fixed, alphabet)) for t in tuples(alphabet, fixed)]

    def single(tups):
        return [(t, None) for t in tups]

    if quick:
        plans = [("sched", single(tuples(SHAPES_Q, 2)), dict(steps=6, slots=0, maxcall=0, lmax=0, stride=1)),
                 ("xfer", single(tuples(SHAPES_Q, 2)), dict(steps=0, slots=1, maxcall=40, lmax=3, stride=1))]
        pipes = [("pipe", single(tuples(SHAPES_Q, 2)), 20, 3, 20)]
    else:
        plans = [("sched", grouped(SHAPES_T, 2, 1), dict(steps=8, slots=0, maxcall=0, lmax=0, stride=1)),
                 ("sched3", grouped(SHAPES_Q, 3, 2), dict(steps=7, slots=0, maxcall=0, lmax=0, stride=1)),
                 ("xfer", grouped(SHAPES_T, 2, 1), dict(steps=0, slots=1, maxcall=60, lmax=3, stride=1)),
                 ("xfer3", grouped(SHAPES_Q, 3, 2), dict(steps=0, slots=1, maxcall=80, lmax=2, stride=17, tail=False)),
                 ("xfer2slots", single(four), dict(steps=0, slots=2, maxcall=60, lmax=2, stride=17, tail=False)),
                 ("both", grouped(SHAPES_Q, 2, 1), dict(steps=3, slots=1, maxcall=60, lmax=2, stride=1))]
        pipes = [("pipe", grouped(SHAPES_T, 2, 1), 60, 2, 30), ("pipe3", grouped(SHAPES_Q, 3, 2), 40, 2, 30)]

    def label(t, free):
        return "+".join(t) + ("+*" * free[0] if free else "")

    def some_clean(t, free, pipe):
        alphabet = free[1] if free else ()
        cands = tuples(alphabet, free[0]) if free else [()]
        for rest in cands:
            full = tuple(t) + tuple(rest)
            if pipe and all(s not in NOLENGTH for s in full[1:]):
                return True
            if not pipe and clean_on_unchanged_tree(full):
                return True
        return False

    for fam, groups, kw in plans:
        for t, free in groups:
            n = len(t) + (free[0] if free else 0)
            covers = []
            if some_clean(t, free, False):
                covers = ["n-responses"] + (["limited-transfer"] if kw["slots"] else [])
            out.append(Ob("%s/%s" % (fam, label(t, free)), h, dict(shapes=list(t), free=free, **kw), budget=budget, covers=covers,
                          bounds=dict(N=n, shapes=list(t), free_shapes=list(free[1]) if free else [], schedule_steps=kw["steps"],
                                      limited_calls=kw["slots"], call_index=[0, kw["maxcall"]],
                                      limit_bytes=[0, kw["lmax"] * kw["stride"]], limit_stride=kw["stride"],
                                      tail_mode=kw.get("tail", True))))
    for fam, groups, maxcut, maxgap, maxend in pipes:
        for t, free in groups:
            n = len(t) + (free[0] if free else 0)
            covers = ["n-responses", "split-pipeline", "cut-in-last-request"] if some_clean(t, free, True) else []
            out.append(Ob("%s/%s" % (fam, label(t, free)), h_pipe,
                          dict(shapes=list(t), free=free, maxcut=maxcut, maxgap=maxgap, maxend=maxend),
                          budget=budget, covers=covers,
                          bounds=dict(N=n, shapes=list(t), free_shapes=list(free[1]) if free else [], cut_from_start=[0, maxcut],
                                      cut_from_end=[1, maxend], gap_rounds=[0, maxgap])))
    return out
