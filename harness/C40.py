"""C40 -- bit, byte and hex codecs round-trip (engine E2, source -> SMT over bit-vectors).

`ioflo.aid.byting` is translated from source on every run.  Obligations:

pack/sIIofKK   for EVERY bit-field format (every composition of the total width into field
               widths) of total width <= T, fields 40-bit symbolic (wider than any field, so the
               masking is exercised), `reverse` both ways:
                 * unpackify(packify(fields)) returns each field masked to its width (truthiness
                   bit for one-bit fields: int 0/1, or a bool when boolean=True) plus the zero
                   padding field; packed length == size, packed bytes in 0..255;
                 * packify(reverse=True) is the mirror image of packify(reverse=False);
                 * packifyInto(b, offset in 0..2) into a symbolic pre-filled buffer (long enough /
                   too short -> extended) writes exactly packify's bytes at the offset and leaves
                   every other pre-existing byte untouched (return value, new length and gap
                   fill are not in the statement and not demanded).
               bytify's `while n:` is shape-forked (<= size+1 forks; exhaustiveness proved).
bytes          unbytify(bytify(n, size, reverse, strict), reverse) == n on the domain
               (n >= 0; strict: n < 256^size), bytify(unbytify(b), len(b)) == b, size <= 4.
signext        signExtend(x, n) is the two's complement value of the n-bit x, n = 1..64.
hex            unhexify(hexify(b)) == b (len <= 3 / 4); hexify(unhexify(h)) == h up to digit case for
               even-length strings of hex digits (a small string model: characters are 8-bit code points);
               the same for the bytes-based twins hexize / unhexize.
bin            unbinize(binize(n, size)) == n, binize(unbinize(u), len(u)) == u, size <= 8 / 12.
"""
import struct

import z3

from engine import Ob
from engine import astsmt as A
from ioflo.aid import byting as B

PROPERTY = "C40"
ENGINE = "E2"
TECHNIQUE = "source->SMT translation (bit-vectors), value merging + shape forking, all formats enumerated"
LEVEL_TEXT = "source->SMT, bit-vectors: every bit-field format of total width <= 8 plus 117 multi-byte formats (quick) / every format of total width <= 14 (thorough) with symbolic 40-bit field values and buffer contents; bytify/unbytify size <= 4; signExtend n <= 64; hex (<= 3 / 4 bytes) and binary (<= 8 / 12 bits) strings via a small string model; every query unsat, shape forks proved exhaustive"
LEVEL_NOTE = "oracle = the statement: one-bit fields accept truthiness or low bit, packifyInto return value / new length / gap fill and hex digit case are not demanded; trusted: astsmt translator and its models of str.format, int(s,16), str.replace, struct.pack (validated every run against the real functions incl. the repo test vectors), z3 5.1"
FUNCTIONS = ["ioflo.aid.byting." + n for n in
             ("packify", "packifyInto", "unpackify", "bytify", "unbytify", "signExtend", "hexify", "unhexify",
              "hexize", "unhexize", "binize", "unbinize")]
ASSUMPTIONS = [
    "python ints are signed bit-vectors (40 bits for pack/bytes, 72 for signExtend); every + << carries a checked no-overflow side condition",
    "bytearray is modelled as a python list of byte terms; a byte handed to bytearray() must be provably in 0..255 (part of each claim)",
    "format strings are concrete (every composition of every total width up to the stated bound); field values, buffer "
    "contents, n, x and the bytes / characters of the hex and binary strings are symbolic",
    "field values range over all 40-bit signed integers (negative values are masked like python does)",
    "bytify/unbytify inverse claimed on the domain n >= 0 (and n < 256^size when strict); the truncation of negative or "
    "over-long n is not part of the statement and is not checked",
    "string model for hexify/unhexify/binize/unbinize: '{0:02x}'.format(byte) for 0..255, str(d) for a digit 0..9, "
    "int(s, 16), int(ch), str.replace(c, ''), ''.join, + , slicing, `in` on characters, ord of a one-byte slice, "
    "struct.pack('!B', x) for 0..255; validated against the real functions on every run",
    "the quantifier's 'random wider formats' is replaced by the solver-exhausted bound on the total format width",
]

W = 40
KEY_RT = "C40/packify-unpackify/roundtrip"
KEY_MIRROR = "C40/packify/reverse-not-mirror-image"
KEY_INTO = "C40/packifyInto/window-or-rest-wrong"
KEY_BYTES = "C40/bytify-unbytify/not-inverse"
KEY_SIGN = "C40/signExtend/not-twos-complement"
KEY_HEX = "C40/hexify-unhexify/not-inverse"
KEY_BIN = "C40/binize-unbinize/not-inverse"


def compositions(n):
    if n == 0:
        yield []
        return
    for first in range(1, n + 1):
        for rest in compositions(n - first):
            yield [first] + rest


def formats(tmax, tmin=0):
    for total in range(tmin, tmax + 1):
        for comp in compositions(total):
            yield comp


def bv(c):
    return c if A.is_sym(c) else (z3.BoolVal(c) if isinstance(c, bool) else z3.BitVecVal(c, W))


def eqv(a, b):
    """z3 Bool: python-level values a and b are equal and of the same kind (bool vs int)"""
    a, b = bv(a), bv(b)
    if z3.is_bool(a) != z3.is_bool(b):
        return z3.BoolVal(False)
    if z3.is_bv(a) and z3.is_bv(b) and a.size() != b.size():
        n = max(a.size(), b.size())
        a = z3.SignExt(n - a.size(), a) if a.size() < n else a
        b = z3.SignExt(n - b.size(), b) if b.size() < n else b
    return a == b


def is_byte(x):
    x = bv(x)
    if z3.is_bool(x):
        return z3.BoolVal(False)
    return z3.And(x >= 0, x <= 255)


def list_eq(xs, ys):
    if not isinstance(xs, (list, tuple)) or not isinstance(ys, (list, tuple)) or len(xs) != len(ys):
        return z3.BoolVal(False)
    return z3.And([eqv(x, y) for x, y in zip(xs, ys)]) if len(xs) else z3.BoolVal(True)


def pack_byte(I, args, kw):
    """struct.pack('!B', x): one byte, ValueError-like struct.error outside 0..255"""
    if len(args) != 2 or args[0] != "!B" or kw:
        raise A.Unsupported("struct.pack form %r" % (args[:1],))
    x = args[1]
    if A.is_sym(x):
        I.add_side("struct.pack('!B', x) needs 0 <= x <= 255", z3.And(x >= 0, x <= 255))
        return [x]
    return list(struct.pack("!B", x))


def interp(sess):
    return sess.interp(num="bv", bvw=W, intrinsics={struct.pack: pack_byte})


def expected_fields(comp, fields, boolean, size=None):
    """what unpacking must return for packed `fields`: list of alternatives (tuples of z3 terms).
    A field of width > 1 comes back masked.  For a one-bit field the code packs the truthiness of
    the value while the statement says "masked to its width": both readings are accepted (they
    differ only for values outside {0, 1})."""
    total = sum(comp)
    size = (total + 7) // 8 if size is None else size
    one, zero = z3.BitVecVal(1, W), z3.BitVecVal(0, W)
    exp = []
    for w, f in zip(comp, fields):
        if w == 1:
            truthy, low = f != 0, (f & 1) != 0
            exp.append((truthy, low) if boolean else (z3.If(truthy, one, zero), z3.If(low, one, zero)))
        else:
            exp.append((f & z3.BitVecVal((1 << w) - 1, W),))
    pad = 8 * size - total
    if pad:
        exp.append((z3.BoolVal(False) if (pad == 1 and boolean) else zero,))
    return exp


def fields_ok(un, exp):
    if not isinstance(un, (list, tuple)) or len(un) != len(exp):
        return z3.BoolVal(False)
    return z3.And([z3.Or([eqv(u, a) for a in alts]) for u, alts in zip(un, exp)]) if exp else z3.BoolVal(True)


# ----------------------------------------------------------------------------- pack obligations

def prove_paths(sess, key, paths, claim_of, wrong_of, vals_of, what):
    if not sess.prove_exhaustive(paths, what):
        return
    for p in paths:
        sess.prove(key, claim_of(p.result), assume=p.assume, defs=p.interp.defs, side=p.interp.side,
                   wrong=wrong_of(p.result), vals=vals_of, what=what)


def check_format(sess, comp, into_variants):
    try:
        check_format_(sess, comp, into_variants)
    except A.PyRaise as e:
        # the translated code raises on a concrete path of a valid format: a candidate violation,
        # confirmed (or refuted -> harness error) by running the real functions in the replay
        fmt = " ".join(str(x) for x in comp)
        sess.res["paths"] += 1
        sess.fail(KEY_RT, dict(op="roundtrip", fmt=fmt, fields=[0] * len(comp), reverse=False),
                  "translated code raises for fmt=%r: %s" % (fmt, e))


def check_format_(sess, comp, into_variants):
    fmt = " ".join(str(x) for x in comp)
    total = sum(comp)
    size = (total + 7) // 8
    fields = [z3.BitVec("f%d" % i, W) for i in range(len(comp))]

    def fvals(m):
        return [A.model_value(m, f) for f in fields]

    # roundtrip, both byte orders
    for rev in (False, True):
        def thunk(I, rev=rev):
            packed = I.call(B.packify, [fmt, list(fields)], dict(reverse=rev))
            if not isinstance(packed, list):
                raise A.Unsupported("packify result is not a bytearray model")
            un0 = I.call(B.unpackify, [fmt, list(packed)], dict(boolean=False, reverse=rev))
            un1 = I.call(B.unpackify, [fmt, list(packed)], dict(boolean=True, reverse=rev))
            return packed, un0, un1

        def claim(res):
            packed, un0, un1 = res
            cs = [z3.BoolVal(len(packed) == size)] + [is_byte(x) for x in packed]
            cs.append(fields_ok(un0, expected_fields(comp, fields, False)))
            cs.append(fields_ok(un1, expected_fields(comp, fields, True)))
            return z3.And(cs)

        def wrong(res):
            packed, un0, un1 = res
            e = expected_fields(comp, fields, False)
            if not e or len(un0) != len(e):
                return z3.BoolVal(len(packed) == size + 1)
            return eqv(un0[0], e[0][0] ^ 2)

        paths = A.explore(lambda: interp(sess), thunk)
        prove_paths(sess, KEY_RT, paths, claim, wrong,
                    lambda m, rev=rev: dict(op="roundtrip", fmt=fmt, fields=fvals(m), reverse=rev),
                    "fmt=%r reverse=%s" % (fmt, rev))

    # explicit size one byte larger than needed: the padding field grows by eight zero bits
    if total <= 24:
        big = size + 1

        def thunk_s(I):
            packed = I.call(B.packify, [fmt, list(fields)], dict(size=big))
            return packed, I.call(B.unpackify, [fmt, list(packed)], dict(boolean=True, size=big))
        paths = A.explore(lambda: interp(sess), thunk_s)
        prove_paths(sess, KEY_RT, paths,
                    lambda r: z3.And([z3.BoolVal(len(r[0]) == big)] + [is_byte(x) for x in r[0]] +
                                     [fields_ok(r[1], expected_fields(comp, fields, True, big))]),
                    lambda r: z3.BoolVal(len(r[0]) == big + 1),
                    lambda m: dict(op="roundtrip", fmt=fmt, fields=fvals(m), reverse=False, size=big),
                    "fmt=%r size=%d" % (fmt, big))

    # byte-order variants are mirror images
    def thunk2(I):
        return (I.call(B.packify, [fmt, list(fields)], dict(reverse=False)),
                I.call(B.packify, [fmt, list(fields)], dict(reverse=True)))
    paths = A.explore(lambda: interp(sess), thunk2)
    prove_paths(sess, KEY_MIRROR, paths,
                lambda r: list_eq(r[1], list(reversed(r[0]))),
                lambda r: z3.BoolVal(len(r[1]) == len(r[0]) + 1) if not r[0] else eqv(r[1][0], bv(r[0][-1]) ^ 1),
                lambda m: dict(op="mirror", fmt=fmt, fields=fvals(m)), "fmt=%r mirror" % fmt)

    # packing into a pre-filled buffer
    for offset, room, rev in into_variants:
        L = offset + size + 1 if room else max(0, offset - 1)
        buf = [z3.BitVec("g%d" % j, 8) for j in range(L)]

        def thunk3(I, offset=offset, rev=rev, buf=buf):
            b = [z3.ZeroExt(W - 8, g) for g in buf]
            ret = I.call(B.packifyInto, [b, fmt, list(fields)], dict(offset=offset, reverse=rev))
            packed = I.call(B.packify, [fmt, list(fields)], dict(reverse=rev))
            return ret, b, packed

        def claim3(res, offset=offset, buf=buf, L=L):
            # the statement: the same bytes as packify at the offset, no other (pre-existing) byte disturbed.
            # Not demanded (statement silent): the return value, the exact new length, the fill of a created gap.
            ret, b, packed = res
            if not isinstance(b, list) or len(b) < max(L, offset + size):
                return z3.BoolVal(False)
            cs = [list_eq(b[offset:offset + size], packed)] + [is_byte(x) for x in b]
            for j in range(L):
                if not (offset <= j < offset + size):
                    cs.append(eqv(b[j], z3.ZeroExt(W - 8, buf[j])))
            return z3.And(cs)

        paths = A.explore(lambda: interp(sess), thunk3)
        prove_paths(sess, KEY_INTO, paths, claim3,
                    lambda r, offset=offset: (eqv(r[1][offset], bv(r[2][0]) ^ 1) if size and len(r[1]) > offset and r[2]
                                              else z3.BoolVal(len(r[1]) == 99)),
                    lambda m, offset=offset, rev=rev, buf=buf: dict(
                        op="into", fmt=fmt, fields=fvals(m), reverse=rev, offset=offset,
                        buf=[A.model_value(m, g) & 0xff for g in buf]),
                    "fmt=%r into offset=%d len(b)=%d reverse=%s" % (fmt, offset, L, rev))


INTO_FULL = [(0, True, False), (1, True, True), (2, True, False), (0, False, True), (1, False, False), (2, False, True)]
INTO_LIGHT = [(1, True, False), (2, False, True)]

# the repo's own vectors (ioflo/aid/test/test_byting.py: testPackifyUnpackify, testPackifyInto)
REPO_VECTORS = [("3 2 1 1", [6, 2, True, False]), ("3 1", [5, True]), ("8 6 7 3", [0xA5, 0x38, 0x08, 0x01]),
                ("4 3 1", [0, 5, 1]), ("", []), ("1 3 2 2", [True, 4, 0, 3])]


def validate_pack(sess, comps):
    """translator validation of packify / unpackify / packifyInto on the repo's test vectors and
    seeded random formats and values"""
    r = A.rng(sess.params, 40)
    vectors = [([int(x) for x in f.split()], [int(v) for v in vs]) for f, vs in REPO_VECTORS]
    pool = list(comps)
    for _ in range(min(10, len(pool))):
        comp = pool[r.randrange(len(pool))]
        vectors.append((comp, [r.choice([0, 1, -1, r.getrandbits(39), -r.getrandbits(20), r.getrandbits(8)]) for _ in comp]))
    for comp, vs in vectors:
        try:
            validate_vector(sess, r, comp, vs)
        except A.PyRaise as e:
            fmt = " ".join(str(x) for x in comp)
            try:
                B.unpackify(fmt, B.packify(fmt, list(vs)))
                b = bytearray(4)
                B.packifyInto(b, fmt, list(vs), offset=1)
            except Exception:
                continue        # the real code raises as well: reported by check_format as a violation candidate
            raise A.TranslationMismatch("translation of fmt=%r raises (%s) but the real functions do not" % (fmt, e))


def validate_vector(sess, r, comp, vs):
    fmt = " ".join(str(x) for x in comp)
    fields = [z3.BitVec("f%d" % i, W) for i in range(len(comp))]
    for rev in (False, True):
        paths = A.explore(lambda: interp(sess), lambda I: I.call(B.packify, [fmt, list(fields)], dict(reverse=rev)))
        for p in paths:
            sess.absorb(p.interp)
        sess.validate("packify(%r, reverse=%s)" % (fmt, rev), paths, fields, [tuple(vs)],
                      lambda *c: list(B.packify(fmt, list(c), reverse=rev)))
        size = (sum(comp) + 7) // 8
        bs = [z3.BitVec("b%d" % i, 8) for i in range(size)]
        try:
            data = tuple(B.packify(fmt, list(vs), reverse=rev))
        except Exception:
            data = tuple([0x5a] * size)
        for boolean in (False, True):
            I = interp(sess)
            un = I.call(B.unpackify, [fmt, [z3.ZeroExt(W - 8, b) for b in bs]], dict(boolean=boolean, reverse=rev))
            sess.validate("unpackify(%r, boolean=%s, reverse=%s)" % (fmt, boolean, rev), [A.Path([], un, I)], bs,
                          [data], lambda *c: B.unpackify(fmt, bytearray(c), boolean=boolean, reverse=rev))
        buf = [z3.BitVec("g%d" % j, 8) for j in range(size + 2)]

        def thunk(I):
            b = [z3.ZeroExt(W - 8, g) for g in buf]
            ret = I.call(B.packifyInto, [b, fmt, list(fields)], dict(offset=1, reverse=rev))
            return [ret] + b

        def real(*c):
            b = bytearray(c[len(fields):])
            ret = B.packifyInto(b, fmt, list(c[:len(fields)]), offset=1, reverse=rev)
            return [ret] + list(b)
        paths = A.explore(lambda: interp(sess), thunk)
        for p in paths:
            sess.absorb(p.interp)
        sess.validate("packifyInto(%r)" % fmt, paths, fields + buf,
                      [tuple(vs) + tuple(r.randrange(256) for _ in buf)], real)


def wide_sample():
    """multi-byte formats for the quick tier (the exhaustive widths <= 8 are all single-byte):
    every format of total width 9..16 with at most two fields, and a few 3..4-byte formats
    (the first one is the repo's own test vector)"""
    out = []
    for total in range(9, 17):
        out.append([total])
        out.extend([a, total - a] for a in range(1, total))
    out += [[8, 6, 7, 3], [8, 8, 8], [12, 12], [1, 7, 8, 8], [16, 16], [3, 29], [32], [1, 1, 1, 22, 7], [10, 11, 11]]
    return out


def ob_pack(sess, params):
    k, K = params["shard"], params["shards"]
    allf = list(formats(params["tmax"], params.get("tmin", 0))) + (wide_sample() if params.get("wide") else [])
    comps = [c for i, c in enumerate(allf) if i % K == k]
    validate_pack(sess, comps if comps else [[8]])
    n = 0
    for comp in comps:
        if sess.over_budget():
            sess.res["stopped"] = "budget"
            sess.inconclusive("budget exhausted after %d of %d formats" % (n, len(comps)))
            return
        light = sum(comp) > params.get("full_upto", 99)
        check_format(sess, comp, INTO_LIGHT if light else INTO_FULL)
        n += 1
    sess.res["extra"]["formats"] = n


# ----------------------------------------------------------------------------- bytify / unbytify

def ob_bytes(sess, params):
    r = A.rng(sess.params, 41)
    n = z3.BitVec("n", W)
    for size in range(0, params["smax"] + 1):
        for rev in (False, True):
            for strict in (False, True):
                def thunk(I, size=size, rev=rev, strict=strict):
                    b = I.call(B.bytify, [n], dict(size=size, reverse=rev, strict=strict))
                    return b, I.call(B.unbytify, [list(b)], dict(reverse=rev))
                paths = A.explore(lambda: interp(sess), thunk)
                what = "bytify(n, size=%d, reverse=%s, strict=%s)" % (size, rev, strict)
                cases = [(0,), (1,), (255,), (256,), (0x010203,), (-1,), (-256,), (r.getrandbits(39),), (-r.getrandbits(30),)]
                sess.validate(what, paths, [n], cases,
                              lambda c, size=size, rev=rev, strict=strict:
                              [list(B.bytify(c, size, rev, strict)), B.unbytify(B.bytify(c, size, rev, strict), rev)])
                if not sess.prove_exhaustive(paths, what):
                    continue
                dom = [n >= 0] + ([z3.ULT(n, 1 << (8 * size))] if strict else [])
                for p in paths:
                    b, back = p.result
                    claim = z3.And([is_byte(x) for x in b] + [eqv(back, n)])
                    sess.prove(KEY_BYTES, claim, assume=p.assume + dom, defs=p.interp.defs, side=p.interp.side,
                               wrong=eqv(back, n + 1),
                               vals=lambda m, size=size, rev=rev, strict=strict: dict(
                                   op="bytify", n=A.model_value(m, n), size=size, reverse=rev, strict=strict), what=what)
    # the other direction: bytes -> int -> bytes of the same length
    for k in range(0, params["smax"] + 1):
        bs = [z3.BitVec("b%d" % i, 8) for i in range(k)]
        for rev in (False, True):
            def thunk(I, k=k, rev=rev):
                v = I.call(B.unbytify, [[z3.ZeroExt(W - 8, b) for b in bs]], dict(reverse=rev))
                return I.call(B.bytify, [v], dict(size=k, reverse=rev))
            paths = A.explore(lambda: interp(sess), thunk)
            what = "bytify(unbytify(b, reverse=%s), size=%d)" % (rev, k)
            sess.validate(what, paths, bs, [tuple(r.randrange(256) for _ in bs) for _ in range(4)] + [tuple([0] * k)],
                          lambda *c: list(B.bytify(B.unbytify(bytearray(c), rev), k, rev)))
            if not sess.prove_exhaustive(paths, what):
                continue
            for p in paths:
                want = [z3.ZeroExt(W - 8, b) for b in bs]
                sess.prove(KEY_BYTES, list_eq(p.result, want), assume=p.assume, defs=p.interp.defs, side=p.interp.side,
                           wrong=eqv(p.result[0], want[0] ^ 1) if (k and len(p.result)) else z3.BoolVal(len(p.result) == k + 1),
                           vals=lambda m, rev=rev: dict(op="unbytify", b=[A.model_value(m, b) & 0xff for b in bs], reverse=rev),
                           what=what)


# ----------------------------------------------------------------------------- signExtend

def ob_signext(sess, params):
    WS = 72
    r = A.rng(sess.params, 42)
    for nbits in range(1, params["nmax"] + 1):
        x = z3.BitVec("x", nbits)
        I = sess.interp(num="bv", bvw=WS)
        res = I.call(B.signExtend, [z3.ZeroExt(WS - nbits, x), nbits])
        sess.absorb(I)
        if not A.is_sym(res) or not z3.is_bv(res):
            raise A.Unsupported("signExtend result")
        cases = [(0,), ((1 << nbits) - 1,), (1 << (nbits - 1),), (r.getrandbits(nbits),)]
        sess.validate("signExtend(x, %d)" % nbits, [A.Path([], res, I)], [x], cases, lambda c: B.signExtend(c, nbits))
        want = z3.SignExt(WS - nbits, x)
        sess.prove(KEY_SIGN, res == want, side=I.side, wrong=res == z3.ZeroExt(WS - nbits, x),
                   vals=lambda m, nbits=nbits: dict(op="signext", x=A.model_value(m, z3.ZeroExt(8, x)), n=nbits),
                   what="n=%d" % nbits)


# ----------------------------------------------------------------------------- hexify / unhexify

def hex_digit(c):
    return z3.Or(z3.And(z3.UGE(c, 48), z3.ULE(c, 57)), z3.And(z3.UGE(c, 97), z3.ULE(c, 102)),
                 z3.And(z3.UGE(c, 65), z3.ULE(c, 70)))


def lower(c):
    return z3.If(z3.And(z3.UGE(c, 65), z3.ULE(c, 70)), c + 32, c)


def ob_hex(sess, params):
    for enc, dec, conv in ((B.hexify, B.unhexify, bytearray), (B.hexize, B.unhexize, bytes)):
        ob_hex_pair(sess, params, enc, dec, conv)


def ob_hex_pair(sess, params, HEXIFY, UNHEXIFY, conv):
    r = A.rng(sess.params, 43)
    for k in range(0, params["kmax"] + 1):
        bs = [z3.BitVec("b%d" % i, 8) for i in range(k)]

        def thunk(I):
            h = I.call(HEXIFY, [[z3.ZeroExt(W - 8, b) for b in bs]])
            back = I.call(UNHEXIFY, [h])
            return h, (list(back) if isinstance(back, (bytes, bytearray)) else back)
        paths = A.explore(lambda: interp(sess), thunk)
        what = "%s(%s(b)), len(b)=%d" % (UNHEXIFY.__name__, HEXIFY.__name__, k)
        sess.validate(what, paths, bs, [tuple(r.randrange(256) for _ in bs) for _ in range(6)] + [tuple([0xab] * k)],
                      lambda *c: [HEXIFY(conv(c)), list(UNHEXIFY(HEXIFY(conv(c))))])
        if sess.prove_exhaustive(paths, what):
            for p in paths:
                h, back = p.result
                want = [z3.ZeroExt(W - 8, b) for b in bs]
                sess.prove(KEY_HEX, z3.And([is_byte(x) for x in back] + [list_eq(back, want)]) if isinstance(back, list) else False,
                           assume=p.assume, defs=p.interp.defs, side=p.interp.side,
                           wrong=eqv(back[0], want[0] ^ 1) if (k and len(back)) else z3.BoolVal(len(back) == k + 1),
                           vals=lambda m: dict(op="hexify", fn=HEXIFY.__name__, b=[A.model_value(m, b) & 0xff for b in bs]), what=what)
        # the other direction on the canonical domain: lower-case hex digits, even length
        cs = [z3.BitVec("c%d" % i, 8) for i in range(2 * k)]
        dom = [hex_digit(c) for c in cs]

        def thunk2(I):
            b = I.call(UNHEXIFY, [A.SymStr(list(cs)) if cs else ""])
            return I.call(HEXIFY, [b])
        make = lambda: _with_assume(interp(sess), dom)
        paths = A.explore(make, thunk2)
        what = "%s(%s(h)), len(h)=%d" % (HEXIFY.__name__, UNHEXIFY.__name__, 2 * k)
        hexd = "0123456789abcdefABCDEF"
        sess.validate(what, paths, cs, [tuple(ord(r.choice(hexd)) for _ in cs) for _ in range(6)],
                      lambda *c: HEXIFY(UNHEXIFY("".join(chr(x) for x in c))))   # exact (case included) vs the real code
        if not sess.prove_exhaustive(paths, what, given=dom):
            continue
        for p in paths:
            h2 = p.result
            ok = isinstance(h2, (str, A.SymStr)) and len(h2) == 2 * k
            # equal up to the case of the hex digits (which case hexify emits is not in the statement)
            claim = z3.And([lower(A.SymStr.of(h2).code(i)) == lower(cs[i]) for i in range(2 * k)]) if ok and k else z3.BoolVal(ok)
            sess.prove(KEY_HEX, claim, assume=p.assume, defs=p.interp.defs, side=p.interp.side,
                       wrong=(lower(A.SymStr.of(h2).code(0)) == lower(cs[0]) + 1) if ok and k else z3.BoolVal(not ok),
                       vals=lambda m: dict(op="unhexify", fn=HEXIFY.__name__, h="".join(chr(A.model_value(m, c) & 0xff) for c in cs)), what=what)


def _with_assume(I, dom):
    """domain assumptions are part of every path condition (so that forks outside the domain are infeasible)"""
    I.assume.extend(dom)
    return I


# ----------------------------------------------------------------------------- binize / unbinize

def ob_bin(sess, params):
    r = A.rng(sess.params, 44)
    for size in range(1, params["smax"] + 1):
        n = z3.BitVec("n", W)
        dom = [n >= 0, z3.ULT(n, 1 << size)]

        def thunk(I):
            u = I.call(B.binize, [n, size])
            return u, I.call(B.unbinize, [u])
        paths = A.explore(lambda: _with_assume(interp(sess), dom), thunk)
        what = "unbinize(binize(n, %d))" % size
        sess.validate(what, paths, [n], [(0,), ((1 << size) - 1,), (r.getrandbits(size),), (r.getrandbits(size),)],
                      lambda c: [B.binize(c, size), B.unbinize(B.binize(c, size))])
        if sess.prove_exhaustive(paths, what, given=dom):
            for p in paths:
                u, back = p.result
                ok = isinstance(u, (str, A.SymStr)) and len(u) == size
                sess.prove(KEY_BIN, z3.And(z3.BoolVal(ok), eqv(back, n)), assume=p.assume, defs=p.interp.defs,
                           side=p.interp.side, wrong=eqv(back, n ^ 1),
                           vals=lambda m, size=size: dict(op="binize", n=A.model_value(m, n), size=size), what=what)
        cs = [z3.BitVec("c%d" % i, 8) for i in range(size)]
        dom2 = [z3.Or(c == 48, c == 49) for c in cs]

        def thunk2(I):
            v = I.call(B.unbinize, [A.SymStr(list(cs))])
            return I.call(B.binize, [v, size])
        paths = A.explore(lambda: _with_assume(interp(sess), dom2), thunk2)
        what = "binize(unbinize(u), %d)" % size
        sess.validate(what, paths, cs, [tuple(r.choice((48, 49)) for _ in cs) for _ in range(4)],
                      lambda *c: B.binize(B.unbinize("".join(chr(x) for x in c)), size))
        if not sess.prove_exhaustive(paths, what, given=dom2):
            continue
        for p in paths:
            u2 = p.result
            ok = isinstance(u2, (str, A.SymStr)) and len(u2) == size
            claim = z3.And([A.SymStr.of(u2).code(i) == cs[i] for i in range(size)]) if ok else z3.BoolVal(False)
            sess.prove(KEY_BIN, claim, assume=p.assume, defs=p.interp.defs, side=p.interp.side,
                       wrong=(A.SymStr.of(u2).code(0) == cs[0] ^ 1) if ok else z3.BoolVal(True),
                       vals=lambda m: dict(op="unbinize", u="".join(chr(A.model_value(m, c) & 0xff) for c in cs)), what=what)


# ----------------------------------------------------------------------------- replay on the real functions

def ref_unpacked(comp, fields, boolean, size=None):
    """per field the set of admissible results (both readings of a one-bit field, see expected_fields)"""
    total = sum(comp)
    size = (total + 7) // 8 if size is None else size
    out = []
    for w, f in zip(comp, fields):
        if w == 1:
            out.append([bool(f), bool(f & 1)] if boolean else [1 if f else 0, f & 1])
        else:
            out.append([f & ((1 << w) - 1)])
    pad = 8 * size - total
    if pad:
        out.append([False if (pad == 1 and boolean) else 0])
    return out


def replay(vals, params):
    vals = A.unjson(vals)
    op = vals["op"]
    try:
        if op in ("roundtrip", "mirror", "into"):
            fmt, fields = vals["fmt"], vals["fields"]
            comp = [int(x) for x in fmt.split()]
            size = (sum(comp) + 7) // 8
        if op == "roundtrip" and vals.get("size") is not None:
            big = vals["size"]
            packed = B.packify(fmt, list(fields), size=big)
            if len(packed) != big:
                return ("fail", KEY_RT, "packify(%r, %r, size=%d) has %d bytes" % (fmt, fields, big, len(packed)))
            for boolean in (False, True):
                un = B.unpackify(fmt, packed, boolean=boolean, size=big)
                want = ref_unpacked(comp, fields, boolean, big)
                if len(un) != len(want) or not all(any(A.same_value(u, a) for a in alts) for u, alts in zip(un, want)):
                    return ("fail", KEY_RT, "unpackify(%r, packify(%r, %r, size=%d)=%s, boolean=%s, size=%d) -> %r, masked fields are %r"
                            % (fmt, fmt, fields, big, list(packed), boolean, big, un, want))
            return ("pass", KEY_RT, "")
        if op == "roundtrip":
            rev = vals["reverse"]
            packed = B.packify(fmt, list(fields), reverse=rev)
            if len(packed) != size:
                return ("fail", KEY_RT, "packify(%r, %r, reverse=%s) has %d bytes, size is %d" % (fmt, fields, rev, len(packed), size))
            for boolean in (False, True):
                un = B.unpackify(fmt, packed, boolean=boolean, reverse=rev)
                want = ref_unpacked(comp, fields, boolean)
                if len(un) != len(want) or not all(any(A.same_value(u, a) for a in alts) for u, alts in zip(un, want)):
                    return ("fail", KEY_RT, "unpackify(%r, packify(%r, %r, reverse=%s)=%s, boolean=%s, reverse=%s) -> %r, masked fields are %r"
                            % (fmt, fmt, fields, rev, list(packed), boolean, rev, un, want))
            return ("pass", KEY_RT, "")
        if op == "mirror":
            a, b = B.packify(fmt, list(fields), reverse=False), B.packify(fmt, list(fields), reverse=True)
            if list(b) != list(reversed(a)):
                return ("fail", KEY_MIRROR, "packify(%r, %r): reverse=False %s, reverse=True %s" % (fmt, fields, list(a), list(b)))
            return ("pass", KEY_MIRROR, "")
        if op == "into":
            buf, offset, rev = vals["buf"], vals["offset"], vals["reverse"]
            b = bytearray(buf)
            ret = B.packifyInto(b, fmt, list(fields), offset=offset, reverse=rev)
            packed = B.packify(fmt, list(fields), reverse=rev)
            ok = len(b) >= max(len(buf), offset + size) and list(b[offset:offset + size]) == list(packed) and \
                all(b[j] == buf[j] for j in range(len(buf)) if not (offset <= j < offset + size))
            if not ok:
                return ("fail", KEY_INTO, "packifyInto(bytearray(%s), %r, %r, offset=%d, reverse=%s) -> %r, buffer %s; packify gives %s"
                        % (buf, fmt, fields, offset, rev, ret, list(b), list(packed)))
            return ("pass", KEY_INTO, "")
        if op == "bytify":
            n, size, rev, strict = vals["n"], vals["size"], vals["reverse"], vals["strict"]
            b = B.bytify(n, size, rev, strict)
            back = B.unbytify(b, rev)
            if back != n:
                return ("fail", KEY_BYTES, "unbytify(bytify(%d, %d, %s, %s)=%s) -> %d" % (n, size, rev, strict, list(b), back))
            return ("pass", KEY_BYTES, "")
        if op == "unbytify":
            b, rev = vals["b"], vals["reverse"]
            back = B.bytify(B.unbytify(bytearray(b), rev), len(b), rev)
            if list(back) != list(b):
                return ("fail", KEY_BYTES, "bytify(unbytify(%s, %s), %d, %s) -> %s" % (b, rev, len(b), rev, list(back)))
            return ("pass", KEY_BYTES, "")
        if op == "signext":
            x, n = vals["x"], vals["n"]
            got = B.signExtend(x, n)
            want = x - (1 << n) if x >> (n - 1) else x
            if got != want:
                return ("fail", KEY_SIGN, "signExtend(%d, %d) -> %d, two's complement value is %d" % (x, n, got, want))
            return ("pass", KEY_SIGN, "")
        if op in ("hexify", "unhexify"):
            ize = vals.get("fn") == "hexize"
            enc, dec, conv = (B.hexize, B.unhexize, bytes) if ize else (B.hexify, B.unhexify, bytearray)
        if op == "hexify":
            b = vals["b"]
            back = dec(enc(conv(b)))
            if list(back) != list(b):
                return ("fail", KEY_HEX, "%s(%s(%s)=%r) -> %s" % (dec.__name__, enc.__name__, b, enc(conv(b)), list(back)))
            return ("pass", KEY_HEX, "")
        if op == "unhexify":
            h = vals["h"]
            back = enc(dec(h))
            if back.lower() != h.lower():
                return ("fail", KEY_HEX, "%s(%s(%r)=%s) -> %r" % (enc.__name__, dec.__name__, h, list(dec(h)), back))
            return ("pass", KEY_HEX, "")
        if op == "binize":
            n, size = vals["n"], vals["size"]
            back = B.unbinize(B.binize(n, size))
            if back != n:
                return ("fail", KEY_BIN, "unbinize(binize(%d, %d)=%r) -> %d" % (n, size, B.binize(n, size), back))
            return ("pass", KEY_BIN, "")
        if op == "unbinize":
            u = vals["u"]
            back = B.binize(B.unbinize(u), len(u))
            if back != u:
                return ("fail", KEY_BIN, "binize(unbinize(%r)=%d, %d) -> %r" % (u, B.unbinize(u), len(u), back))
            return ("pass", KEY_BIN, "")
    except Exception as e:
        return ("fail", "C40/%s/raises" % op, "%s on %r raised %r" % (op, vals, e))
    return ("pass", None, "unknown op")


# ----------------------------------------------------------------------------- obligations

def obligations(tier):
    obs = []
    run = lambda f: A.run_obligation(f, "QF_BV", 20000)
    if tier == "quick":
        K, tmax, full = 14, 8, 8
        packs = [("pack/s%02dof%02d" % (k, K), dict(shard=k, shards=K, tmax=tmax, full_upto=full, wide=True)) for k in range(K)]
    else:
        # all formats of total width <= 12 with every variant; widths 13..14 with the reduced packifyInto set
        K1, K2 = 16, 32
        packs = [("pack/w00-12/s%02dof%02d" % (k, K1), dict(shard=k, shards=K1, tmax=12, full_upto=12)) for k in range(K1)]
        packs += [("pack/w13-14/s%02dof%02d" % (k, K2), dict(shard=k, shards=K2, tmin=13, tmax=14, full_upto=12)) for k in range(K2)]
    x = dict(xcheck=(tier == "thorough"), xcheck_max=2)
    for name, prm in packs:
        obs.append(Ob(name, run(ob_pack), params=dict(x, **prm), kind="e2", replay=replay, budget=900 if tier == "quick" else 3000,
                      bounds=dict(total_width=(prm.get("tmin", 0), prm["tmax"]), fields="40-bit symbolic", reverse="both",
                                  plus="117 multi-byte formats (all of width 9..16 with <= 2 fields, nine of 3..4 bytes)" if prm.get("wide") else "",
                                  boolean="both", into_offsets="0..2 (reduced set above width %d)" % prm["full_upto"])))
    t = tier == "thorough"
    obs.append(Ob("bytes", run(ob_bytes), params=dict(x, smax=4), kind="e2", replay=replay, budget=600,
                  bounds=dict(size="0..4", n="40-bit symbolic (domain n >= 0; strict: n < 256^size)", reverse="both", strict="both")))
    obs.append(Ob("signext", run(ob_signext), params=dict(x, nmax=64), kind="e2", replay=replay, budget=300,
                  bounds=dict(n="1..64", x="all n-bit values")))
    obs.append(Ob("hex", run(ob_hex), params=dict(x, kmax=4 if t else 3), kind="e2", replay=replay, budget=600,
                  bounds=dict(bytes="0..%d" % (4 if t else 3), hex_string="hex digits of either case, even length up to %d" % (8 if t else 6))))
    obs.append(Ob("bin", run(ob_bin), params=dict(x, smax=12 if t else 8), kind="e2", replay=replay, budget=600,
                  bounds=dict(size="1..%d" % (12 if t else 8))))
    return obs
