"""C28 -- idle timeouts drop only idle server-side HTTP connections (E1).

Real Valet / Porter over a real Server / ServerTls whose listening socket and
accepted connection are doubles.  One connection; a schedule of K service passes
(`serviceAll`), before each of which the store stamp advances by a genuinely
symbolic integer.  Per pass a selector decides what happens on the connection:
nothing, the client delivers the next piece of its request, the WSGI application
yields the next chunk of a streamed response, or the application finishes.

Oracle ("only if" direction, written from the statement): when the server closes
the connection in a pass at stamp `now`, then either the response of a
non-persistent request has completely gone out (normal end of the exchange), or
timeout > 0 and now - (stamp of the last pass in which bytes moved on the socket,
or of the accept) >= timeout and the connection was not marked persistent by a
parsed HTTP/1.1 (or keep-alive) request.
"""
import errno

from engine import Ob
from engine import doubles_aio as D
from ioflo.aio.http import serving as httpserving

PROPERTY = "C28"
ENGINE = "E1"
LEVEL_TEXT = "bounded model checking of service-pass schedules with symbolic stamp increments"
TECHNIQUE = "E1 symx: symbolic integer time against the real Incomer timers; activity selectors"
FUNCTIONS = [
    "ioflo.aio.http.serving.Valet.serviceAll", "Valet.serviceConnects", "Valet.serviceReqs", "Valet.serviceReps",
    "Valet.closeConnection", "ioflo.aio.http.serving.Porter.serviceAll", "Porter.serviceConnects",
    "Porter.serviceStewards", "ioflo.aio.http.serving.Requestant.checkPersisted", "Responder.service",
    "ioflo.aio.tcp.serving.Server.serviceConnects", "ServerTls.serviceAxes", "ServerTls.serviceCxes",
    "ioflo.aio.tcp.serving.Incomer.receive", "Incomer.send", "Incomer.refresh", "Incomer.serviceReceives",
    "Incomer.serviceTxes", "ioflo.aio.tcp.serving.IncomerTls.receive", "IncomerTls.send", "IncomerTls.handshake",
    "ioflo.aid.timing.StoreTimer.expired", "StoreTimer.restart",
]
ASSUMPTIONS = [
    "listening socket and accepted connection are doubles (engine/doubles_aio.py); TLS servers get an ssl-context "
    "double whose wrap_socket returns the connection double and whose handshake succeeds at once",
    "one connection, accepted in the first pass; the client never closes or resets (closures for cut off are excluded)",
    "integer time: stamp += delta (symbolic int in [0,D]) before every pass; the timeout is a selector (a symbolic "
    "timeout meets the float literal in `ix.timeout > 0.0`: mixed Int/Real queries)",
    "requests are concrete byte strings delivered in pieces: 'trickle' never completes; 'persist' is a complete "
    "HTTP/1.1 GET and 'persist10' an HTTP/1.0 GET with Connection: keep-alive (both persistent); 'stream' is a "
    "complete HTTP/1.0 GET and 'close11' an HTTP/1.1 GET with Connection: close (both not persistent), answered by a "
    "streamed body without content-length",
    "the WSGI app double yields b'' (no output this pass), a chunk, or finishes, as the schedule selects",
    "the socket double accepts every send completely",
    "activity = a recv that returned data or a send that accepted >=1 byte during the pass",
    "only the 'closed only if idle long enough' direction is demanded; that an idle connection is eventually "
    "closed is not part of the statement",
]

CA = ("127.0.0.1", 50001)
EHA = ("127.0.0.1", 8080)

REQS = {
    "trickle": [b"GE", b"T ", b"/a", b" H", b"TT", b"P/", b"1.", b"1\r", b"\nH", b"os", b"t:", b" h"],
    "persist": [b"GET /a HTTP/1.1\r\nHo", b"st: h\r\n\r\n"],
    "stream": [b"GET /a HTTP/1.0\r\nHo", b"st: h\r\n\r\n"],
    # HTTP/1.0 made persistent by keep-alive, and HTTP/1.1 made non-persistent by close
    "persist10": [b"GET /a HTTP/1.0\r\nConnection: keep-alive\r\nHo", b"st: h\r\n\r\n"],
    "close11": [b"GET /a HTTP/1.1\r\nConnection: close\r\nHo", b"st: h\r\n\r\n"],
}
NONPERSISTENT = ("stream", "close11")


class Listen(D.SockBase):
    def __init__(self, pending):
        D.SockBase.__init__(self, local=("0.0.0.0", 8080), peer=None)
        self.pending = pending

    def accept(self):
        if not self.pending:
            raise D.would_block()
        return self.pending.pop(0)


def h(sym, front, tls, req, K, Dmax, timeouts):
    key = "C28/%s%s/" % (front, "Tls" if tls else "")
    T = timeouts[sym.choice("T", len(timeouts))]
    clock = D.Clock(0)
    ctl = dict(inbox=None, chunk=False, end=False, started=False, finished=False)

    def on_recv(bs):
        data = ctl["inbox"]
        if data is None:
            raise D.would_block(tls)
        ctl["inbox"] = None
        return data

    sock = D.ScriptSock(on_send=lambda data: len(data), on_recv=on_recv, local=EHA, peer=CA)

    def app(environ, start_response):
        ctl["started"] = True
        start_response("200 OK", [("Content-Type", "text/plain")])

        def gen():
            while True:
                if ctl["end"]:
                    ctl["finished"] = True
                    return
                if ctl["chunk"]:
                    ctl["chunk"] = False
                    yield b"data"
                else:
                    yield b""
        return gen()

    kwa = dict(store=clock, ha=("", 8080), timeout=T, bufsize=64)
    if tls:
        kwa.update(scheme="https", context=D.TlsContext())
    if front == "Valet":
        srv = httpserving.Valet(app=app, **kwa)
    else:
        srv = httpserving.Porter(**kwa)
    servant = srv.servant
    servant.ss = Listen([(sock, CA)])
    servant.opened = True
    sym.check(servant.timeout == T and servant.eha == EHA, "C28/harness/servant-not-configured")

    pieces = list(REQS[req])
    last = None                # stamp of the accept / of the last pass in which bytes moved
    persisted = False          # a persistent request had been parsed before the current pass
    for k in range(K):
        clock.stamp = clock.stamp + sym.int("d%d" % k, 0, Dmax)
        now = clock.stamp
        if k == 0:
            act = 0
        else:
            act = sym.choice("act%d" % k, 4 if (front == "Valet" and req != "trickle") else 2)
        if act == 1:
            sym.assume(len(pieces) > 0)
            ctl["inbox"] = pieces.pop(0)
        elif act == 2:
            sym.assume(ctl["started"] and not ctl["end"])
            ctl["chunk"] = True
        elif act == 3:
            sym.assume(ctl["started"] and not ctl["end"])
            ctl["end"] = True
        moved0 = (len(sock.accepted), len([x for x in sock.delivered if x]))
        srv.serviceAll()
        moved = (len(sock.accepted), len([x for x in sock.delivered if x])) != moved0
        if k == 0:
            sym.check(sock.blocking is not None and (CA in servant.ixes or sock.closed), "C28/harness/not-accepted")
            last = now
        if sock.closed:
            sym.check(CA not in servant.ixes, key + "closed-socket-still-listed")
            exchange_over = (req in NONPERSISTENT and ctl["finished"])
            if not exchange_over:
                sym.check(T > 0, key + "closed-with-timeout-disabled", "pass %d" % k)
                sym.check(not persisted, key + "persistent-connection-dropped-by-idle-timer",
                          "pass %d now=%s last activity=%s timeout=%s" % (k, now, last, T))
                sym.check(now - last >= T, key + "closed-before-idle-for-timeout",
                          "pass %d now=%s last activity=%s timeout=%s" % (k, now, last, T))
                sym.cover("idle-close")
            else:
                sym.cover("exchange-over-close")
            return True
        if moved:
            last = now
            if k > 0:
                sym.cover("activity")
        ix = servant.ixes.get(CA)
        sym.check(ix is not None, key + "connection-unlisted-without-close")
        if req != "trickle" and not pieces:
            reqt = srv.reqs[CA] if front == "Valet" else srv.stewards[CA].requestant
            if reqt.persisted:
                if not persisted:
                    sym.cover("persisted")
                persisted = True
    sym.cover("survived")
    return True


def obligations(tier):
    quick = tier == "quick"
    K = 5 if quick else 6
    Dmax = 3 if quick else 4
    timeouts = [0, 3] if quick else [0, 3, 5]
    out = []
    for front in ("Valet", "Porter"):
        for tls in (False, True):
            for req in ("trickle", "persist", "persist10", "stream", "close11"):
                if front == "Porter" and req in NONPERSISTENT:
                    continue        # Porter answers with a complete message (no streamed bodies)
                covers = {"trickle": ["idle-close", "activity", "survived"],
                          "persist": ["persisted", "activity", "survived"],
                          "persist10": ["persisted", "activity", "survived"],
                          "stream": ["exchange-over-close", "activity", "idle-close"],
                          "close11": ["exchange-over-close", "activity", "idle-close"]}[req]
                out.append(Ob("%s%s/%s" % (front, "Tls" if tls else "", req), h,
                              dict(front=front, tls=tls, req=req, K=K, Dmax=Dmax, timeouts=timeouts),
                              budget=600 if quick else 3600, covers=covers,
                              bounds=dict(passes=K, delta="0..%d per pass (symbolic)" % Dmax,
                                          timeout="%s (selector)" % timeouts, request=req,
                                          activity="idle | rx piece | response chunk | response end (selector)")))
    return out
