"""C27 -- reconnectable clients and stacks eventually reconnect (E1, bounded liveness).

`socket` inside ioflo.aio.tcp.clienting is replaced by a factory of connecting
doubles.  Every connect_ex result is decided by a small model of a nonblocking
TCP connect whose nondeterminism is symbolic:

  attempt started while the server listens : 0 at once | EINPROGRESS, <=A x EALREADY, then 0|EISCONN
  attempt started while the server is down : ECONNREFUSED at once | EINPROGRESS, <=A x EALREADY, ECONNREFUSED
                                             | EINPROGRESS then EALREADY for ever (black-holed SYN)
  connect_ex again on a refused socket      : a fresh attempt (Linux) | EINVAL for ever (BSD)   [selector]

The server listens from service call u on (symbolic); the store stamp advances by a
symbolic integer delta before every service call; the reconnect timeout T is a
selector.  Schedules: 'fail' (never connected yet) for Client / Patron /
TcpClientStack, 'loss' (connected, then reset by the peer at a symbolic call) for
Patron and TcpClientStack, 'noreopen' (not reconnectable, cut off) for all three.

Oracle (bounded liveness): let e be the first call index >= u whose stamp is >= the
stamp of call u plus T.  A reconnectable client must have been connected at some
call <= e + A + 4 and must then report the live double's getsockname()/getpeername().
A client that is not reconnectable constructs no socket after a cut off.
"""
import errno

from engine import Ob
from engine import doubles_aio as D
from ioflo.aio.tcp import clienting
from ioflo.aio.http import clienting as httpclienting
from ioflo.aio.proto import stacking

PROPERTY = "C27"
ENGINE = "E1"
LEVEL_TEXT = "bounded model checking of reconnection schedules against a symbolic nonblocking-connect model"
TECHNIQUE = "E1 symx: symbolic connect_ex results, stamp increments, timeout and server-up call"
FUNCTIONS = [
    "ioflo.aio.tcp.clienting.Client.serviceConnect", "Client.connect", "Client.accept", "Client.reopen",
    "Client.open", "Client.close", "Client.receive", "Client.serviceReceives",
    "ioflo.aio.http.clienting.Patron.serviceAll",
    "ioflo.aio.proto.stacking.TcpClientStack.serviceConnect", "TcpClientStack.serviceAll",
    "ioflo.aid.timing.StoreTimer.expired", "StoreTimer.restart",
]
ASSUMPTIONS = [
    "clienting.socket is replaced by a factory of connect doubles (engine/doubles_aio.py ConnSock); every double has its "
    "own local address; no real sockets ('with real loopback sockets' is outside: a solver cannot drive the kernel)",
    "connect model as in the module docstring; A = max EALREADY answers per attempt (bounds); an attempt's fate is fixed "
    "by whether the server listens when the attempt starts; a black-holed attempt never completes",
    "integer time; the stamp advances by delta in [0,D] before each service call and a connect attempt is faster "
    "than the reconnect timeout (otherwise the timer-driven reopen starves every attempt): (A+2)*D < T in the "
    "A=1 shards, and the tight (A+1)*D < T in the '-wide' shards (A=0, D=T-1: service period up to T-1)",
    "liveness bound: connected at some call <= e + A + 4 where e = first call >= u with stamp >= stamp(u) + T; "
    "schedules too short to contain that call make no liveness claim",
    "a bare tcp Client is only exercised with failed connection attempts: reacting to a cut off of an established "
    "connection is done by its owner (Patron.serviceAll, TcpClientStack.serviceConnect), which are exercised with both",
    "TcpClientStack builds its Client without a reconnectable argument; the harness sets handler.reconnectable",
    "loss = the peer resets the established connection: recv on the live double raises ECONNRESET or returns b'' (selector)",
]

HA = ("127.0.0.1", 8080)


class Model(object):
    """symbolic nonblocking-connect model + factory of doubles"""
    def __init__(self, sym, A, u):
        self.sym = sym
        self.A = A
        self.u = u
        self.k = 0                 # index of the current service call
        self.socks = []
        self.n = 0
        self.bsd = sym.flag("bsd")
        self.lost = False          # the established connection has been reset by the peer
        self.setup = False         # True while the harness establishes the initial connection (no choices)
        self.losskind = 0
        self.module = D.FakeSocketModule(self.make)

    def up(self):
        return self.k >= self.u

    def make(self, *pa, **kwa):
        i = len(self.socks)
        s = D.ConnSock(self.result, local=("127.0.0.1", 50000 + i), peer=HA)
        s.phase = "fresh"
        s.alreadys = 0
        s.recv = lambda bs, s=s: self.recv(s, bs)
        s.send = lambda data, s=s: self.send(s, data)
        self.socks.append(s)
        return s

    def uniq(self, tag):
        self.n += 1
        return "%s%d" % (tag, self.n)

    def result(self, s, ha):
        sym = self.sym
        if s.closed:
            raise OSError(errno.EBADF, "closed double")
        if s.phase == "connected":
            return errno.EISCONN
        if s.phase == "failed":
            if self.bsd:
                return errno.EINVAL
            s.phase = "fresh"
            s.alreadys = 0
        if s.phase == "fresh":
            if self.up():
                if self.setup or sym.bool(self.uniq("now")):
                    s.phase = "connected"
                    return 0
                s.phase = "pending-ok"
                return errno.EINPROGRESS
            mode = sym.int(self.uniq("down"), 0, 2)
            if mode == 0:
                s.phase = "failed"
                return errno.ECONNREFUSED
            s.phase = "pending-fail" if mode == 1 else "stuck"
            return errno.EINPROGRESS
        if s.phase == "stuck":
            return errno.EALREADY
        # pending-ok / pending-fail
        if s.alreadys < self.A and sym.bool(self.uniq("already")):
            s.alreadys += 1
            return errno.EALREADY
        if s.phase == "pending-ok":
            s.phase = "connected"
            return 0 if sym.bool(self.uniq("zero")) else errno.EISCONN
        s.phase = "failed"
        return errno.ECONNREFUSED

    def recv(self, s, bs):
        if s.closed or s.phase != "connected":
            raise OSError(errno.ENOTCONN, "double not connected")
        if self.lost and s is self.victim:
            if self.losskind == 0:
                raise ConnectionResetError(errno.ECONNRESET, "reset by peer")
            return b""
        raise D.would_block()

    def send(self, s, data):
        if s.closed or s.phase != "connected":
            raise OSError(errno.ENOTCONN, "double not connected")
        return len(data)

    def live(self):
        return [s for s in self.socks if s.phase == "connected" and not s.closed]


def build(who, clock, T, reconnectable):
    """returns (service callable, client object)"""
    if who == "Client":
        c = clienting.Client(ha=HA, bufsize=64, store=clock, timeout=T, reconnectable=reconnectable)
        c.reopen()

        def service():
            c.serviceConnect()
            c.serviceReceives()
            c.serviceTxes()
        return service, c
    if who == "Patron":
        p = httpclienting.Patron(store=clock, hostname="127.0.0.1", port=8080, bufsize=64,
                                 timeout=T, reconnectable=reconnectable)
        p.connector.reopen()
        return p.serviceAll, p.connector
    if who == "Stack":
        st = stacking.TcpClientStack(ha=HA, stamper=clock, bufsize=64, timeout=T)
        st.handler.reconnectable = reconnectable
        return st.serviceAll, st.handler
    raise AssertionError(who)


def check_connected(sym, who, c, model, when):
    live = model.live()
    key = "C27/%s/" % who
    sym.check(c.cs is not None and c.cs in live, key + "connected-flag-without-live-socket", when)
    sym.check(c.ca == c.cs.getsockname(), key + "local-address-not-from-live-socket",
              "ca=%r socket=%r" % (c.ca, c.cs.getsockname()))
    sym.check(c.ha == c.cs.getpeername(), key + "peer-address-not-from-live-socket",
              "ha=%r socket=%r" % (c.ha, c.cs.getpeername()))


def h(sym, who, scenario, N, A, D_, Tmax, umax, idle=None, Tmin=None):
    key = "C27/%s/" % who
    # T is a selector: a symbolic T meets the float literal in `self.timeout > 0.0` and gave mixed Int/Real
    # queries that z3 left unknown; the stamp increments stay genuinely symbolic
    if Tmin is None:
        Tmin = (A + 2) * D_ + 1
    # an attempt (EINPROGRESS, <=A x EALREADY, 0) spans A+1 stamp increments: it must fit into one timeout
    sym.check((A + 1) * D_ < Tmin, "C27/harness/attempt-not-faster-than-timeout")
    T = Tmin + sym.choice("T", Tmax - Tmin + 1)
    clock = D.Clock(0)
    reconn = scenario != "noreopen"
    u = 0 if scenario == "noreopen" else sym.int("u", 0, umax)
    model = Model(sym, A, 0 if scenario != "fail" else u)
    clienting.socket = model.module
    service, c = build(who, clock, T, reconn)
    sym.check(c.timeout == T and c.reconnectable == reconn, "C27/harness/not-configured")

    first_call = 0
    if scenario != "fail":
        # establish a connection with the server up, then let the peer reset it
        model.setup = True
        service()
        model.setup = False
        sym.check(c.connected, key + "never-connected-with-server-up")
        check_connected(sym, who, c, model, "initial")
        # time since the timer was last restarted: none, half a timeout, more than a timeout
        clock.stamp = clock.stamp + [0, T // 2, T + 1][idle if idle is not None else sym.choice("idle", 3)]
        model.victim = c.cs
        model.lost = True
        model.losskind = sym.choice("losskind", 2)
        model.u = u                 # server down until call u (counted from here)
        created0 = model.module.created
        if scenario == "noreopen":
            for k in range(N):
                clock.stamp = clock.stamp + sym.int("d%d" % k, 0, Tmax)
                service()               # the first call notices the loss
                sym.check(model.module.created == created0, key + "not-reconnectable-client-reopened",
                          "call %d" % k)
            sym.check(c.cutoff, key + "loss-not-noticed")
            sym.cover("noreopen")
            return True

    # liveness schedule
    tu = None
    e = None
    done = None
    for k in range(N):
        model.k = k
        clock.stamp = clock.stamp + sym.int("d%d" % k, 0, D_)
        if k == u:
            tu = clock.stamp
        if e is None and tu is not None and clock.stamp >= tu + T:
            e = k
        service()
        if c.connected and not c.cutoff and done is None:
            done = k
            check_connected(sym, who, c, model, "call %d" % k)
        if e is not None and k >= e + A + 4:
            break
    if e is not None and e + A + 4 < N:
        sym.cover("deadline-inside-schedule")
        sym.check(done is not None and done <= e + A + 4, key + "not-reconnected-within-bound",
                  "u=%s e=%s done=%s sockets=%d" % (u, e, done, len(model.socks)))
    if done is not None:
        sym.cover("reconnected")
        if len(model.socks) > 1:
            sym.cover("reopened")
    return True


def obligations(tier):
    quick = tier == "quick"
    A, D_ = 1, 1
    Tmax = 4 if quick else 5
    umax = 1 if quick else 2
    N = umax + Tmax + A + 6
    out = []
    bounds = dict(service_calls=N, max_EALREADY=A, delta="0..%d per call (symbolic)" % D_,
                  timeout="%d..%d (selector)" % ((A + 2) * D_ + 1, Tmax), server_up_call="0..%d (symbolic)" % umax,
                  bound="connected by call e+A+4")
    for who in ("Client", "Patron", "Stack"):
        out.append(Ob("%s/fail" % who, h, dict(who=who, scenario="fail", N=N, A=A, D_=D_, Tmax=Tmax, umax=umax),
                      budget=600 if quick else 3600, covers=["deadline-inside-schedule", "reconnected", "reopened"],
                      bounds=bounds))
        if who != "Client":
            for idle in range(3):
                out.append(Ob("%s/loss-idle%d" % (who, idle), h,
                              dict(who=who, scenario="loss", N=N, A=A, D_=D_, Tmax=Tmax, umax=umax, idle=idle),
                              budget=600 if quick else 3600,
                              covers=["deadline-inside-schedule", "reconnected", "reopened"],
                              bounds=dict(bounds, time_since_timer_restart=["0", "T//2", "T+1"][idle])))
        # wide increments: connect needs exactly two connect_ex calls (A=0) and the service period ranges up to
        # T-1, so a reopen that costs a service call of its own (period in [T/2, T)) starves every attempt
        wT = 4
        wu = 2 if who == "Patron" else umax     # Patron reopens and connects in one call: the server must still
        wN = wu + 8                             # be down then for an attempt to be left hanging
        wb = dict(service_calls=wN, max_EALREADY=0, delta="0..%d per call (symbolic)" % (wT - 1),
                  timeout="%d (selector)" % wT, server_up_call="0..%d (symbolic)" % wu, bound="connected by call e+4")
        wkw = dict(who=who, scenario="fail" if who == "Client" else "loss", N=wN, A=0, D_=wT - 1,
                   Tmax=wT, Tmin=wT, umax=wu)
        wcov = ["deadline-inside-schedule", "reconnected", "reopened"]
        if who == "Client":
            out.append(Ob("Client/fail-wide", h, wkw, budget=600 if quick else 3600, covers=wcov, bounds=wb))
        else:
            for idle in range(3):
                out.append(Ob("%s/loss-wide-idle%d" % (who, idle), h, dict(wkw, idle=idle),
                              budget=600 if quick else 3600, covers=wcov,
                              bounds=dict(wb, time_since_timer_restart=["0", "T//2", "T+1"][idle])))
        out.append(Ob("%s/noreopen" % who, h, dict(who=who, scenario="noreopen", N=3 if quick else 5, A=A, D_=D_,
                                                  Tmax=Tmax, umax=0),
                      budget=300 if quick else 1800, covers=["noreopen"],
                      bounds=dict(service_calls_after_cutoff=3 if quick else 5, delta="0..%d" % Tmax,
                                  timeout=bounds["timeout"])))
    return out
