"""C10 -- a conditional auxiliary suspends the frames below its main frame (E1).

Real Builder + real Suspender/Framer code.  A conditional auxiliary (two frames,
'done' on the second, guarded first frame) hangs on an arbitrary frame of an
arbitrary forest; one transition from a frame of the start outline to an
arbitrary frame.  The auxiliary's condition, its first-frame guard, its own
transition condition (so: completes immediately / later / never) and the main
framer's transition condition are fresh symbolic integers every tick.
Oracle: the per-tick sequence of ALL recorded actions (enter, exit, recur,
precur, renter, rexit, transit of the framer's frames and of the auxiliary's
frames), the active outline and the auxiliary's running/done state equal those of
the specification function written from the statement (engine/floref.py):
entered and run once when its condition holds; then every tick regardless of the
condition until done; frames below the main frame get no recur and no transition
evaluation meanwhile and the main frame's later clauses are skipped; on
completion it is fully exited and the suspended frames recur in the same tick
without enter actions; exited with its main frame.
"""
from engine import Ob
from engine import flostep, floref, flogen
from engine.flostep import START, RUN, STOP, ABORT

PROPERTY = "C10"
ENGINE = "E1"
FUNCTIONS = ["ioflo.base.acting.Suspender.action/deactivize/deactivate", "ioflo.base.framing.Framer.segue/recur/change/reactivate",
             "ioflo.base.framing.Frame.precur/exit", "ioflo.base.acting.Transiter.action", "ioflo.base.completing.CompleteDone.action",
             "ioflo.base.needing.Need (symbolic comparisons)", "ioflo.base.building.Builder.build (concrete text)"]
ASSUMPTIONS = [
    "program family: one framer of N frames (arbitrary forest, arbitrary first), one conditional auxiliary on a frame of the start outline "
    "(2 frames: q0 --y>=1--> q1 'done me'; or 1 frame with 'done me' = completes immediately; `reuse` shards: the same auxiliary is also named by a second frame and has completed once before the symbolic ticks), one transition from a frame of the start outline",
    "share values integers in [0,1]; prelude concrete (start; for the `running` shards one more tick that activates the auxiliary), the following 1-3 ticks fully symbolic",
    "`reuse` shards: entry guards of the main framer's frames are 1 in the symbolic ticks",
    "exit actions of frames that were suspended when the framer left them are ignored in the comparison (their absence is C06's known finding)",
] + ["reference choice where the statement is silent: " + s for s in floref.SILENT]


def h(sym, n, symticks, parent, aux_frames, end, running=False, reuse=False, first=None):
    prog, info = flostep.family(sym, n, ngo=1, auxes=("cond",), parent=parent, near_in_cur=True, host_in_cur=True,
                                aux_frames=aux_frames, cond_second_host=reuse, first=first)
    controls = [START]
    plan = [{"*": 1}]
    if running:     # concrete prelude tick: the auxiliary's condition holds, it does not complete, no transition
        controls.append(RUN)
        pre = {"*": 1, "x0": 0}
        for (name, kind, host) in info["aux"]:
            pre["y_" + name] = 0
        plan.append(pre)
    if reuse:       # second concrete prelude tick: the auxiliary completes by itself while its first main frame stays active
        controls.append(RUN)
        pre2 = {"*": 0}
        for (name, kind, host) in info["aux"]:
            pre2["y_" + name] = 1
            pre2["h_" + name] = 1
        for i in range(n):
            pre2["g%d" % i] = 1
        plan.append(pre2)
        plan += [dict(("g%d" % i, 1) for i in range(n))] * symticks     # entry guards are not this shard's subject
    controls += [RUN] * symticks + ([end] if end is not None else [])
    auxname = "a0"
    mainidx = None

    def on_assumed(k, control, rlog, robs, fobs):
        # the reference does not decide a transition INTO a frame suspended below the main frame; the statement
        # still says those frames stay suspended while the auxiliary runs: if the auxiliary is still running after
        # this tick, no frame below its main frame may have recurred or evaluated transitions in it
        host = "f%d" % info["aux"][0][2]
        if robs[auxname]["actives"] and robs["m"]["active"] is not None:
            full = ["f%d" % i for i in flostep.chain(info["parent"], int(robs["m"]["active"][1:]))]
            if host in full:
                below = full[full.index(host) + 1:]
                for e in rlog:
                    sym.check(not (e[0] == "m" and e[1] in below and e[2] in ("recur", "precur")),
                              "C10/frame-below-main-ran-while-auxiliary-active", lambda: "tick %d %s\n%s" % (k, rlog, text_holder[0]))
    text_holder = [""]
    text_holder[0] = flogen.emit(prog)
    text, out = flostep.run(sym, prog, controls, plan=plan, on_assumed=on_assumed)
    prev = None
    for k, (control, rlog, flog, robs, fobs, env) in enumerate(out):
        susp = []
        if prev is not None and prev["m"]["active"] is not None:
            full = ["f%d" % i for i in flostep.chain(info["parent"], int(prev["m"]["active"][1:]))]
            susp = [f for f in full if f not in prev["m"]["actives"]]
        drop = lambda log: [e for e in log if not (e[0] == "m" and e[2] == "exit" and e[1] in susp)]
        rl, fl = drop(rlog), drop(flog)
        if susp:
            sym.cover("suspended-tick")
            for e in rlog:
                sym.check(not (e[0] == "m" and e[1] in susp and e[2] in ("precur", "transit")),
                          "C10/suspended-frame-evaluated-transitions", "tick %d %s\n%s" % (k, e, text))
        if rl != fl:
            # classify the commonest ways to be wrong
            ra = [e for e in rl if e[0] != "m"]
            fa = [e for e in fl if e[0] != "m"]
            if ra != fa:
                sym.fail("C10/auxiliary-actions-differ-from-spec", "tick %d\nreal %s\nspec %s\n%s" % (k, rl, fl, text))
            sym.fail("C10/main-framer-actions-differ-from-spec", "tick %d\nreal %s\nspec %s\n%s" % (k, rl, fl, text))
        sym.check(robs["m"]["actives"] == fobs["m"]["actives"], "C10/active-outline-differs-from-spec",
                  "tick %d real %s spec %s\n%s" % (k, robs["m"]["actives"], fobs["m"]["actives"], text))
        a = info["aux"][0][0]
        sym.check(robs[a]["done"] == fobs[a]["done"] and robs[a]["actives"] == fobs[a]["actives"],
                  "C10/auxiliary-state-differs-from-spec", "tick %d real %s spec %s\n%s" % (k, robs[a], fobs[a], text))
        if prev is not None and prev[a]["actives"] and not fobs[a]["actives"] and fobs["m"]["status"] in (1, 2) \
                and fobs["m"]["active"] == prev["m"]["active"]:
            sym.cover("completed-and-resumed")
        if fobs[a]["actives"]:
            sym.cover("aux-running")
        prev = fobs
    return True


def script2(bplace, bframes):
    """outline top > mid > low; conditional auxiliary A (two frames) on mid; a second conditional auxiliary B on top
    (bplace 'above') or as an earlier clause of mid (bplace 'same'); B has one frame ('done me': completes in its
    first run) or two."""
    L = ["house h", "  framer m be active first top"]
    rec = ["      do verif record at enter", "      do verif record at exit", "      do verif record at recur", "      do verif record at precur"]
    L += ["    frame top"] + rec + (["      aux b if c_b >= 1"] if bplace == "above" else [])
    L += ["    frame mid in top"] + rec + (["      aux b if c_b >= 1"] if bplace == "same" else []) + ["      aux a if c_a >= 1"]
    L += ["    frame low in mid"] + rec
    L += ["  framer a be aux first p0", "    frame p0"] + rec[:3] + ["      go p1 if y_a >= 1", "    frame p1"] + rec[:3] + ["      done me"]
    if bframes == 1:
        L += ["  framer b be aux first q0", "    frame q0"] + rec[:3] + ["      done me"]
    else:
        L += ["  framer b be aux first q0", "    frame q0"] + rec[:3] + ["      go q1 if y_b >= 1", "    frame q1"] + rec[:3] + ["      done me"]
    return "\n".join(L) + "\n"


def h2(sym, bplace, bframes, symticks):
    """two conditional auxiliaries whose activity overlaps: checked directly against the statement (the reference
    interpreter models one suspension at a time): while an auxiliary that was running before a tick is still running
    after it, no frame below its main frame has run recur actions or evaluated transitions in that tick"""
    from engine.flogen import LOG
    text = script2(bplace, bframes)
    with flogen.notrace(sym):
        house = flogen.build_text(text)[0]
    store = house.store
    sh = dict((n, store.create(n)) for n in ("c_a", "c_b", "y_a", "y_b"))
    fr = dict((f.name, f) for f in house.framers)
    m, a, b = fr["m"], fr["a"], fr["b"]
    below = {"mid": ["low"], "top": ["mid", "low"]}

    def tick(k, control, vals):
        store.stamp = k
        for n, v in vals.items():
            sh[n].value = v
        del LOG[:]
        return m.runner.send(control)

    tick(0, START, dict(c_a=0, c_b=0, y_a=0, y_b=0))
    tick(1, RUN, dict(c_a=1, c_b=0, y_a=0, y_b=0))        # concrete prelude: A fires and keeps running, low is suspended
    sym.check((not a.done) and [f.name for f in m.actives] == ["top", "mid"], "C10/harness/prelude", lambda: text)
    for k in range(2, 2 + symticks):
        before = dict((x.name, (not x.done, x.main.name if x.main else None)) for x in (a, b))
        vals = dict((n, sym.int("t%d_%s" % (k, n), 0, 1)) for n in ("c_a", "c_b", "y_a", "y_b"))
        b_was_done = b.done
        tick(k, RUN, vals)
        log = list(LOG)
        for x in (a, b):
            was, main0 = before[x.name]
            if was and not x.done and x.main is not None and x.main.name == main0:
                sym.cover("aux-%s-running-through-tick" % x.name)
                other = b if x is a else a
                how = "none"
                if before[other.name][0] and other.done:
                    how = "other-completed-later"
                elif (not before[other.name][0]) and any(e[0] == other.name and e[2] == "enter" for e in log):
                    how = "other-completed-in-first-run" if other.done else "other-started"
                if how != "none":
                    sym.cover(how)
                for e in log:
                    sym.check(not (e[0] == "m" and e[1] in below[main0] and e[2] in ("recur", "precur")),
                              "C10/two-auxiliaries/frame-below-main-of-running-auxiliary-ran/" + how,
                              lambda: "tick %d aux %s (main %s) still running; %s\n%s\n%s" % (k, x.name, main0, e, log, text))
                sym.check(all(f.name not in below[main0] for f in m.actives),
                          "C10/two-auxiliaries/outline-not-cut-at-main-of-running-auxiliary/" + how,
                          lambda: "tick %d aux %s main %s actives %s\n%s" % (k, x.name, main0, [f.name for f in m.actives], text))
    return True


def obligations(tier):
    out = []
    for bplace in ("above", "same"):
        for bframes in (1, 2):
            st = 2 if tier == "quick" else 3
            out.append(Ob("two-aux/%s/b%d/sym%d" % (bplace, bframes, st), h2, dict(bplace=bplace, bframes=bframes, symticks=st), budget=600,
                          covers=["aux-a-running-through-tick"] + (["other-completed-in-first-run"] if bframes == 1 else []),   # b2: every such path ends in the known finding
                          bounds=dict(outline="top>mid>low", aux_a="on mid, two frames, running since the prelude tick",
                                      aux_b="on top" if bplace == "above" else "earlier clause of mid", aux_b_frames=bframes,
                                      symbolic_ticks=st, share_values="[0,1]")))
    if tier == "quick":
        cfgs = [(3, 1, 2, None, False), (3, 1, 1, STOP, False), (3, 2, 2, None, True), (3, 1, 2, STOP, True),
                (3, 2, 2, None, True, True)]
    else:
        cfgs = [(3, 3, 2, STOP, False), (3, 2, 1, ABORT, False), (3, 3, 2, None, True), (3, 2, 2, ABORT, True),
                (4, 2, 2, None, False), (4, 2, 2, STOP, True), (3, 3, 2, None, True, True), (4, 2, 2, None, True, True)]
    for cfg in cfgs:
        (n, symticks, aux_frames, end, running) = cfg[:5]
        reuse = cfg[5] if len(cfg) > 5 else False
        for parent in (flostep.QUICK_FORESTS[n] if tier == "quick" else flostep.all_forests(n)):
            covers = []
            if aux_frames == 2 and not reuse:
                covers = ["aux-running"] + (["suspended-tick"] if (running or symticks >= 2) else [])
                if running and symticks >= 2:
                    covers.append("completed-and-resumed")
            if reuse:
                covers = ["aux-running"]
            firsts = list(range(n)) if (reuse and tier == "quick") else [None]      # the reuse shards are the largest: one shard per first frame
            for first in firsts:
              out.append(Ob("step/N%d-%s-sym%d-aux%d-%s/%s%s" % (n, ("reuse" if reuse else "running") if running else "fresh", symticks, aux_frames,
                                                          {None: "run", 0: "stop", 3: "abort"}[end],
                                                          "".join("r" if q < 0 else str(q) for q in parent), "" if first is None else "/first%d" % first),
                          h, dict(n=n, symticks=symticks, parent=parent, aux_frames=aux_frames, end=end, running=running, reuse=reuse, first=first),
                          budget=600 if tier == "quick" else 2400, covers=covers if first is None else [],
                          bounds=dict(frames=n, forest=parent, first="any" if first is None else first, aux_frames=aux_frames, symbolic_ticks=symticks,
                                      prelude="start" + (" + one tick activating the conditional auxiliary" if running else ""),
                                      share_values="[0,1]")))
    return out
