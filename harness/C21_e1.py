"""E1 part of C21: conditions end-to-end through Builder.makeNeed / NeedDirect / NeedIndirect /
framer needs / boolean needs / Nact (negation) and conjunctions, on the real framer.

One frame `a` with `go b if <condition>`; after the start one run is made with symbolic integer
share values (x, y, z, indirect goals) and a symbolic time step (so `elapsed` is symbolic); the
transition is taken iff the written formula holds.  Clause shapes, operators, negation, literal
goals and tolerances are selectors (realised into the script text); values are symbolic.
"""
from engine import Ob
from engine import flogen

OPS = ["==", "!=", "<", "<=", ">=", ">"]
LITS = [-1, 0, 2]
TOLS = [0, 1, -2]
VARS = ["x", "y", "z"]
FORMS = ["direct", "direct-tol", "indirect", "indirect-tol", "elapsed", "recurred", "bare"]
START, RUN = 1, 2


def cmp(op, s, g, t):
    at = t if t >= 0 else -t
    if op == "==":
        return g - at <= s and s <= g + at
    if op == "!=":
        return not (g - at <= s and s <= g + at)
    return {"<": s < g, "<=": s <= g, ">=": s >= g, ">": s > g}[op]


def h(sym, nclauses, forms, vr=3):
    clauses = []
    for k in range(nclauses):
        form = forms[k] if forms[k] is not None else FORMS[sym.choice("form%d" % k, len(FORMS))]
        neg = sym.flag("not%d" % k)
        op = OPS[sym.choice("op%d" % k, len(OPS))] if form != "bare" else None
        lit = LITS[sym.choice("lit%d" % k, len(LITS))] if form in ("direct", "direct-tol", "elapsed", "recurred") else None
        tol = TOLS[sym.choice("tol%d" % k, len(TOLS))] if form.endswith("-tol") else 0
        clauses.append((form, neg, op, lit, tol, VARS[k]))
    parts = []
    for (form, neg, op, lit, tol, v) in clauses:
        if form == "bare":
            t = v
        else:
            state = {"elapsed": "elapsed", "recurred": "recurred"}.get(form, v)
            goal = ("g" + v) if form.startswith("indirect") else str(lit)
            t = "%s %s %s" % (state, op, goal)
            if form.endswith("-tol"):
                t += " +- %s" % tol
        parts.append(("not " if neg else "") + t)
    text = "\n".join(["house h", "  framer m be active first a", "    frame a", "      go b if " + " and ".join(parts), "    frame b"]) + "\n"
    with flogen.notrace(sym):
        house = flogen.build_text(text)[0]
    store = house.store
    m = house.framers[0]
    vals = {}
    store.stamp = 0
    for v in VARS[:nclauses]:
        store.create(v).value = 0
        store.create("g" + v).value = 0
    st = m.runner.send(START)
    sym.check(st == 1, "C21/harness/start")
    d = sym.int("dt", 0, 3)
    store.stamp = d
    for v in VARS[:nclauses]:
        vals[v] = sym.int(v, -vr, vr)
        vals["g" + v] = sym.int("g" + v, -vr, vr)
        store.fetch(v).value = vals[v]
        store.fetch("g" + v).value = vals["g" + v]
    m.runner.send(RUN)
    taken = m.active.name == "b"
    exp = True
    for (form, neg, op, lit, tol, v) in clauses:
        if form == "bare":
            c = bool(vals[v])
        else:
            s = d if form == "elapsed" else (1 if form == "recurred" else vals[v])
            g = vals["g" + v] if form.startswith("indirect") else lit
            c = cmp(op, s, g, tol)
        if neg:
            c = not c
        if not c:
            exp = False
            break
    if exp:
        sym.cover("condition-true")
    else:
        sym.cover("condition-false")
    sym.check(taken == exp, "C21/condition-differs-from-written-comparison",
              lambda: "taken %s expected %s values %s dt %s\n%s" % (taken, exp, vals, d, text))
    return True


def e1_obligations(tier):
    out = []
    vr = 2 if tier == "quick" else 3
    for f in FORMS:
        out.append(Ob("e1/one-clause/%s" % f, h, dict(nclauses=1, forms=[f], vr=vr), budget=900 if tier == "quick" else 2400,
                      covers=["condition-true", "condition-false"],
                      bounds=dict(clauses=1, form=f, operators=OPS, literals=LITS, tolerances=TOLS, values="[-%d,%d]" % (vr, vr), dt="[0,3]")))
    pairs = [("direct", "bare"), ("bare", "elapsed"), ("recurred", "direct")] if tier == "quick" else \
        [(a, b) for a in FORMS for b in FORMS]
    for (a, b) in pairs:
        out.append(Ob("e1/two-clauses/%s+%s" % (a, b), h, dict(nclauses=2, forms=[a, b], vr=2), budget=900 if tier == "quick" else 2400,
                      covers=["condition-true", "condition-false"],
                      bounds=dict(clauses=2, forms=[a, b], values="[-2,2]")))
    if tier != "quick":
        for (a, b, c) in [("direct", "indirect", "bare"), ("indirect-tol", "elapsed", "direct"), ("bare", "bare", "direct-tol")]:
            out.append(Ob("e1/three-clauses/%s+%s+%s" % (a, b, c), h, dict(nclauses=3, forms=[a, b, c], vr=1), budget=2400,
                          covers=["condition-true"], bounds=dict(clauses=3, forms=[a, b, c], values="[-1,1]")))
    return out


PROPERTY = "C21"


def obligations(tier):      # allows `./check C21_e1` while developing
    return e1_obligations(tier)
