"""C23 -- log rotation, flushing and crash durability (E1 + in-memory file-system double).

The unmodified Logger / Log (runner START, RUN, STOP; reopen, prepare, log, flush, cycle, close) and
the real `ocfn` run against engine/doubles_fs.py, which keeps three levels of content per file:
text still in the Python file object, text the kernel has (`os`), durable text (`disk`, := `os` at
the last fsync).  One 'always' Log whose loggee value is a fresh record id before every logger run,
so the record stream is r1, r2, ... and every record can be located in the files.

rotate/...   no crash.  After every runner call the retained files (slot keep .. slot 1, main) are read:
             each non-placeholder file starts with one header, their records concatenated oldest to
             newest are a contiguous, duplicate-free stretch of the stream that ends with the latest
             record, the main file holds every record since the last rotation, no generation inside
             the keep window is missing, and main was only renamed away when its size had reached
             the threshold.
fault/...    rotate/ (and, thorough, crash/) histories with one environment fault: one os.rename call (symbolic number)
             raises OSError(EIO), or one retained copy (symbolic slot, symbolic tick) is deleted by another actor.
             Demanded afterwards: only the clauses that do not depend on the keep window (see ASSUMPTIONS).
kill/...     logs that write rarely (rule once; update / change with an idle loggee): the process is killed (no close) after
             any runner call; every record written before the most recent firing of the Logger's flush timer must be in the files.
crash/...    the process dies right after file-system operation number `crash` (symbolic).  Every record
             that had been written to a file before a completed fsync of that file must be in the
             durable view, and every record that had been flushed to the kernel must be in the kernel
             view -- except records of generations that rotation has (begun to) discard by design.
"""
import io
from engine import Ob
from engine.doubles_fs import MemFS, install, ProcessKilled
from ioflo.base import logging as L, tasking
from ioflo.base.storing import Store, Node
from ioflo.base.globaling import ALWAYS, ONCE, UPDATE, CHANGE, START, RUN, STOP

PROPERTY = "C23"
ENGINE = "E1"
FUNCTIONS = ["ioflo.base.logging.Logger.log", "Logger.reopen", "Logger.prepare", "Logger.cycle", "Logger.flush",
             "Logger.close", "Logger.createPath", "Logger.makeRunner",
             "ioflo.base.logging.Log.reopen", "Log.prepare", "Log.log", "Log.always", "Log.flush", "Log.close",
             "Log.cycle", "Log.createPath", "Log.buildHeader", "ioflo.aid.filing.ocfn"]
ASSUMPTIONS = [
    "file system = in-memory double engine/doubles_fs.py (installed as ioflo.base.logging.os and ioflo.aid.filing.os/open; the real ocfn runs on it): "
    "create and rename are atomic and durable at once, rename replaces its destination, written text reaches the kernel at file.flush()/close() "
    "and the disk at os.fsync(), a truncating open empties the kernel copy at once and the disk copy at the next fsync, no I/O errors, text == bytes; "
    "real-kernel durability (directory fsync, torn writes) is outside the claim",
    "'flush' in the crash clause := a completed os.fsync of the file (durable view) resp. a completed file.flush()/close() (kernel view)",
    "the crash clause is also read at the Logger level: 'the most recent flush' := the most recent firing of Logger.log's flush timer (observed as a change "
    "of Logger.flushStamp during a runner call); every record handed to file.write before it must be in the kernel view of the files when the process is "
    "killed between two runner calls (kill/... and crash/... obligations); store and flushStamp start at stamp 0",
    "records of a generation older than (rotations begun - keep) are discarded by design and exempt from the crash clause",
    "a rotate slot that no rotation has reached yet may be an empty placeholder (Log.reopen trial-creates the slots)",
    "exact integer time: store.stamp assigned directly, Logger.cycleStamp/flushStamp start at int 0, cyclePeriod/flushPeriod/fileSize are assigned after "
    "Logger.__init__ within its own clamps (flushPeriod >= 1, cyclePeriod >= 1 when keep > 0, fileSize >= 0)",
    "one 'always' Log with one loggee per Logger; Store built without bookkeeping shares; store.house is a stub with a name; "
    "datetime.now() in Logger.createPath is a fixed clock",
    "reuse=True pre-state: the directory holds a consistent result of an earlier session (main and older slots with header + records, remaining slots empty)",
    "fault/...: at most one environment fault per history (one os.rename raises OSError(EIO) and changes nothing / one retained copy is deleted by another "
    "actor between two ticks); after a fault only the clauses that do not depend on the keep window are demanded (header, every file an in-order "
    "contiguous stretch, no duplicates, newest file holds every record since the main file was last renamed away, flushed records present after a crash "
    "unless their generation was discarded by a started rename chain or they were in the deleted file)",
]

class _House(object):
    name = "h"


class _Plain(object):
    def __enter__(self):
        return self

    def __exit__(self, *a):
        return False


def _untraced(sym):
    if sym.symbolic:
        from crosshair.tracers import NoTracing
        return NoTracing()
    return _Plain()


def _ids(text):
    """record ids (2nd column, 'r..'/'p..') of the complete and partial lines of text, in order"""
    out = []
    for ln in text.split("\n"):
        parts = ln.split("\t")
        if len(parts) == 2 and parts[1][:1] in ("r", "p") and parts[1][1:].isdigit():
            out.append(parts[1])
    return out


MODES = {"always": ALWAYS, "once": ONCE, "update-idle": UPDATE, "change-idle": CHANGE}


def _mklog(store, share, rule=ALWAYS):
    log = L.Log(name="lg", store=store, kind="text", rule=rule)
    log.addLoggee("v", share)
    return log


def _probe_header(store, share, rule=ALWAYS):
    """header text the real code builds for this Log configuration (for the files of the earlier session)"""
    log = _mklog(store, share, rule)
    log.file = io.StringIO()
    log.prepare()
    L.Log.Clear()
    return log.header


class Ghost(object):
    """observer of the double's events: generations, rotation counters, flush promises"""
    def __init__(self, sym, fs, paths, keep):
        self.sym, self.fs, self.paths, self.keep = sym, fs, paths, keep
        self.gen = {}            # id -> generation
        self.stream = []         # ids in stream order
        self.cur_gen = 0
        self.mark = 0            # index in stream of the first record of the newest generation
        self.rot_started = 0     # renames into the oldest slot
        self.rot_done = 0        # renames of the main file
        self.promise_disk = []   # ids written to a file before a completed fsync of it
        self.promise_os = []     # ids that reached the kernel
        self.written = []        # ids handed to file.write so far
        self.promise_timer = []  # ids written before the most recent firing of the Logger's flush timer
        self.size_fail = None
        self.size_limit = 0
        self.faulted = False     # an injected environment fault has happened
        self.partial_chain = False   # ... a rename failed after an earlier rename of the same chain had succeeded
        self.chain_len = 0       # successful renames since the last runner call
        self.external_lost = []  # ids that were in a file somebody else deleted

    def hook(self, fs, event, info):
        if event == "write":
            with _untraced(self.sym):
                for i in _ids(info["text"]):
                    if i not in self.written:
                        self.written.append(i)
                    if i not in self.gen:          # rules other than 'always': records are registered when written
                        self.gen[i] = self.cur_gen
                        self.stream.append(i)
            return
        if event == "rename-failed":
            self.faulted = True
            if self.chain_len > 0:
                self.partial_chain = True
            return
        if event == "external-remove":
            with _untraced(self.sym):
                self.external_lost.extend(_ids(info["replaced"].os))
            return
        if event == "rename":
            self.chain_len += 1
            if self.keep > 0 and info["dst"] == self.paths[self.keep]:
                self.rot_started += 1
            if info["src"] == self.paths[0]:
                self.rot_done += 1
                self.cur_gen += 1
                self.mark = len(self.stream)
                size = len(fs.files[info["dst"]].os)
                if not (size >= self.size_limit):     # size_limit may be symbolic: traced comparison
                    self.size_fail = size
            return
        with _untraced(self.sym):
            if event == "fsync":
                h = info["handle"]
                for i in _ids(h.inode.os + "".join(h.pending)):
                    if i not in self.promise_disk:
                        self.promise_disk.append(i)
            if event in ("flush", "close", "flushed", "fsync"):
                h = info["handle"]
                for i in _ids(h.inode.os):
                    if i not in self.promise_os:
                        self.promise_os.append(i)

    def new_record(self, rid):
        self.stream.append(rid)
        self.gen[rid] = self.cur_gen


def _check_crash(sym, gh, crash):
    with _untraced(sym):
        floor = gh.rot_started - gh.keep if gh.keep > 0 else None
        for level, promised in (("disk", gh.promise_disk), ("os", gh.promise_os), ("timer", gh.promise_timer)):
            timer = level == "timer"
            if timer:
                level = "os"          # "the process dies": what the kernel has survives
            have = set()
            for text in crash[level].values():
                have.update(_ids(text))
            for rid in promised:
                if rid in have:
                    continue
                if floor is not None and gh.gen[rid] < floor:
                    continue                      # generation discarded by design
                if rid in gh.external_lost:
                    continue                      # was in a file another actor deleted
                return ("C23/crash/record-written-before-flush-timer-fired-not-in-files" if timer
                        else "C23/crash/flushed-record-not-durable" if level == "disk"
                        else "C23/crash/flushed-record-lost-from-kernel-view",
                        "record %s (generation %d) absent after dying at fs op %d (%s); rotations begun %d, keep %d; files %r"
                        % (rid, gh.gen[rid], crash["nops"], crash["event"], gh.rot_started, gh.keep,
                           {p.rsplit("/", 1)[-1]: t for p, t in crash[level].items()}))
    return None


def _check_retained(sym, fs, gh, header, pre_older, when):
    """the no-crash clauses, on the content a reader of the files would get.
    After an injected environment fault (failed rename, file deleted by another actor) the keep window is
    no longer well defined, so only the clauses that do not depend on it are demanded: header, every file a
    contiguous in-order stretch, no duplicates, files in stream order, newest file holds every record since
    the last rotation (= the last time the main file was renamed away)."""
    with _untraced(sym):
        paths, keep = gh.paths, gh.keep
        main = fs.logical(paths[0])
        if main is None:
            return ("C23/rotate/main-file-missing", when)
        seq = []
        filled = min(keep, pre_older + gh.rot_done)
        short = lambda p: p.rsplit("/", 1)[-1]
        pos = {rid: i for i, rid in enumerate(gh.stream)}
        for k in range(keep, -1, -1):
            text = fs.logical(paths[k])
            if k > 0 and (text is None or text == ""):
                if k <= filled and not gh.faulted:
                    return ("C23/rotate/retained-generation-missing",
                            "%s: slot %s is empty after %d rotation(s) (+%d older generation(s) before start)"
                            % (when, short(paths[k]), gh.rot_done, pre_older))
                continue
            if not text.startswith(header):
                return ("C23/rotate/file-does-not-start-with-header", "%s: %s = %r" % (when, short(paths[k]), text[:50]))
            body = text[len(header):]
            hl = header.split("\n")[:-1]
            lines = body.split("\n")
            if lines[-1] != "":
                return ("C23/rotate/partial-record", "%s: %s ends with %r" % (when, short(paths[k]), lines[-1]))
            for ln in lines[:-1]:
                if ln in hl:
                    return ("C23/rotate/header-repeated", "%s: %s" % (when, short(paths[k])))
            ids = _ids(body)
            if len(ids) != len(lines) - 1:
                return ("C23/rotate/unparsable-record", "%s: %s = %r" % (when, short(paths[k]), body))
            if k == 0:
                since = gh.stream[gh.mark:]
                if len(ids) < len(since) or (since and ids[-len(since):] != since):
                    return ("C23/rotate/newest-file-lacks-records-since-rotation",
                            "%s: main holds %r, written since last rotation %r" % (when, ids, since))
            idx = [pos.get(i) for i in ids]
            if None in idx or any(b != a + 1 for a, b in zip(idx, idx[1:])):
                return ("C23/rotate/file-not-a-contiguous-stretch-of-the-stream",
                        "%s: %s holds %r, stream %r" % (when, short(paths[k]), ids, gh.stream))
            seq.extend(ids)
        if len(set(seq)) != len(seq):
            return ("C23/rotate/record-duplicated", "%s: %r" % (when, seq))
        order = [pos[i] for i in seq]
        if any(b <= a for a, b in zip(order, order[1:])):
            return ("C23/rotate/files-not-in-stream-order", "%s: files oldest..newest hold %r" % (when, seq))
        if gh.faulted:
            return None
        n = len(seq)
        if n > len(gh.stream) or (n and gh.stream[len(gh.stream) - n:] != seq):
            return ("C23/rotate/files-not-a-contiguous-stretch-of-the-stream",
                    "%s: files oldest..newest hold %r, stream %r" % (when, seq, gh.stream))
        # nothing inside the keep window may be gone
        floor = gh.rot_done - keep
        for rid in gh.stream:
            if gh.gen[rid] >= floor and rid not in seq:
                return ("C23/rotate/record-inside-keep-window-lost",
                        "%s: %s (generation %d, rotations %d, keep %d) not in %r" % (when, rid, gh.gen[rid], gh.rot_done, keep, seq))
    return None


def h(sym, keep, reuse, T, nmax, dmax, pmax, smax, crash, restart=False, prefill=None, fault=None, mode="always",
      kill_between=False):
    fs = MemFS()
    fs.realize = sym.realize
    undo = install(fs)
    ctx = {}
    try:
        return _h(sym, fs, ctx, keep, reuse, T, nmax, dmax, pmax, smax, crash, restart, prefill, fault, mode, kill_between)
    finally:
        lg = ctx.get("logger")
        if lg is not None and lg.runner is not None:
            fs.dead = True                  # the post-mortem close of the generator must not touch the model
            try:
                lg.runner.close()
            except Exception:
                pass
        undo()


def _h(sym, fs, ctx, keep, reuse, T, nmax, dmax, pmax, smax, crash, restart, prefill, fault, mode, kill_between):
    L.Logger.Clear(); tasking.Tasker.Clear(); L.Log.Clear()
    store = Store.__new__(Store)
    store.name = "s"
    store.stamp = 0
    store.house = _House()
    store.shares = Node().byName('')
    share = store.create("a.v")
    share.change(value="r0")
    rule = MODES[mode]
    header = sym.realize(_probe_header(store, share, rule))

    logger = L.Logger(name="lgr", store=store, prefix="/x", reuse=reuse, keep=keep, cyclePeriod=1, fileSize=0,
                      flushPeriod=1)
    ctx["logger"] = logger
    log = _mklog(store, share, rule)
    logger.addLog(log)
    logger.flushStamp = 0
    logger.cycleStamp = 0
    # symbolic configuration (inside the clamps of Logger.__init__)
    logger.flushPeriod = sym.int("flush", 1, pmax)
    if keep > 0:
        logger.cyclePeriod = sym.int("cycle", 1, pmax)
        logger.fileSize = sym.int("size", 0, smax) if smax > 0 else 0

    d = "/x/h/lgr" if reuse else "/x/h/lgr_20200102_030405_006"
    paths = [d + "/lg.txt"] + [d + "/lg%02d.txt" % k for k in range(1, keep + 1)]
    gh = Ghost(sym, fs, paths, keep)
    gh.size_limit = logger.fileSize

    # files of an earlier session (reuse only): main + `older` filled slots, other slots empty placeholders
    pre_older = 0
    if reuse and prefill is not None:
        fs.dirs.add(d)
        older, nmain = prefill
        pre_older = older
        pid = [0]

        def recs(n, g):
            out = ""
            for _ in range(n):
                pid[0] += 1
                rid = "p%d" % pid[0]
                gh.stream.append(rid)
                gh.gen[rid] = g
                gh.promise_disk.append(rid)
                gh.promise_os.append(rid)
                out += "0\t%s\n" % rid
            return out
        texts = {}
        for k in range(older, 0, -1):
            texts[k] = header + recs(1, -k)
        gh.mark = len(gh.stream)
        texts[0] = header + recs(nmain, 0)
        for k in range(keep + 1):
            fs.put(paths[k], texts.get(k, ""))
    fs.hook = gh.hook
    if crash:
        fs.crash_at = sym.int("crash", 1, crash)
    # environment fault (at most one per history)
    rm_slot = rm_tick = None
    if fault == "rename-error":
        fs.rename_fail_at = sym.int("rfail", 1, 3 * keep * (T + 1))
    elif fault == "slot-removed":
        rm_slot = sym.int("rmslot", 1, keep)
        rm_tick = sym.int("rmtick", 1, T)

    ctr = [0]

    def step(control, when):
        ctr[0] += 1
        rid = "r%d" % ctr[0]
        if mode == "always":
            share.update(value=rid)
            gh.new_record(rid)             # every runner call below performs exactly one Logger.log()
        elif mode == "once" or ctr[0] == 1:
            share.update(value=rid)        # '...-idle': the loggee is written once, before START, and then left alone
        gh.chain_len = 0
        fired = logger.flushStamp
        try:
            logger.runner.send(control)
        finally:
            if logger.flushStamp != fired:
                # Logger.log's flush timer fired in this call (after the logs ran): the most recent "flush"
                gh.promise_timer = list(gh.written)
                sym.cover("flush-timer-fired")
        if gh.size_fail is not None:
            sym.fail("C23/rotate/rotated-below-size-threshold",
                     "%s: main renamed at size %s, threshold %s" % (when, gh.size_fail, sym.realize(logger.fileSize)))
        if not crash and mode == "always":
            bad = _check_retained(sym, fs, gh, header, pre_older, when)
            if bad:
                sym.fail(bad[0], bad[1])
        if kill_between and control != STOP:
            # the process is killed between two runner calls (no close): what the kernel / the disk has is what is left
            bad = _check_crash(sym, gh, dict(os=fs.view("os"), disk=fs.view("disk"), nops=fs.nops,
                                             event="killed after " + when))
            if bad:
                sym.fail(bad[0], bad[1])

    try:
        step(START, "START")
        for t in range(1, T + 1):
            store.stamp = store.stamp + (sym.int("d%d" % t, 1, dmax) if dmax > 1 else 1)
            if restart and t == (T + 1) // 2 + 1:
                step(STOP, "STOP@%d" % t)
                step(START, "reSTART@%d" % t)
            if rm_tick is not None and t == rm_tick:
                for k in range(1, keep + 1):
                    if k == rm_slot:
                        gone = fs.remove_external(paths[k])    # another actor deletes one retained copy
                        sym.assume(gone is not None and gone.os != "")
                        gh.faulted = True
            n = sym.int("n%d" % t, 0, nmax)
            for j in range(n):
                step(RUN, "RUN %d.%d" % (t, j))
        step(STOP, "STOP")
    except ProcessKilled:
        pass
    if fault:
        sym.assume(gh.faulted)             # the fault index lay beyond the history: same as a rotate/ path
        sym.cover("fault-hit")
        if gh.partial_chain:
            sym.cover("rename-failed-after-part-of-the-chain")
    if crash:
        sym.assume(fs.crash is not None)   # the history was shorter than the crash index: not a crash path
        sym.cover("died")
        if gh.rot_started > 0:
            sym.cover("died-after-rotation-began")
        bad = _check_crash(sym, gh, fs.crash)
        if bad:
            sym.fail(bad[0], bad[1])
        return True
    if gh.rot_done > 0:
        sym.cover("rotated")
    if gh.rot_done > keep:
        sym.cover("oldest-generation-discarded")
    return True


def obligations(tier):
    quick = tier == "quick"
    out = []
    for keep in (0, 1, 2, 3):
        for reuse in (False, True):
            fills = [None]
            if reuse:
                fills = [None, (0, 1)] + ([(1, 1)] if keep >= 1 else []) + ([(keep, 2)] if keep >= 2 else [])
            for prefill in fills:
                for restart in ((False,) if quick else (False, True)):
                    if restart and not reuse:
                        continue
                    T = 3 if quick else 4
                    params = dict(keep=keep, reuse=reuse, T=T, nmax=2, dmax=1, pmax=2 if quick else 3,
                                  smax=40, crash=0, restart=restart, prefill=prefill)
                    name = "rotate/keep=%d/%s/pre=%s%s" % (keep, "reuse" if reuse else "unique",
                                                         "none" if prefill is None else "%d+%d" % prefill,
                                                         "/restart" if restart else "")
                    covers = []
                    if keep > 0:
                        covers = ["rotated"] + (["oldest-generation-discarded"] if keep <= 2 or prefill else [])
                    out.append(Ob(name, h, params, budget=600 if quick else 3000, covers=covers,
                                  bounds=dict(ticks=T, runs_per_tick="0..2 (symbolic; 0 = a tick passes without a logger run)", stamp_increment="1 per tick",
                                              cycle_period="1..%d (symbolic)" % params["pmax"],
                                              flush_period="1..%d (symbolic)" % params["pmax"],
                                              size_threshold="0..40 (symbolic)", keep=keep, reuse=reuse,
                                              earlier_session_files=prefill, restart=restart)))
    # environment faults: one os.rename of the history fails with EIO / one retained copy is deleted by
    # another actor between two ticks.  Size threshold 0 (always rotate): the size dimension is covered above.
    for keep, kind in ((2, "rename-error"), (3, "rename-error"), (3, "slot-removed")) if quick else \
            ((1, "rename-error"), (2, "rename-error"), (3, "rename-error"), (2, "slot-removed"), (3, "slot-removed")):
        for crashing in ((False,) if quick else (False, True)):
            T = 3 if not crashing else 2
            params = dict(keep=keep, reuse=False, T=T, nmax=2, dmax=1, pmax=2, smax=0, crash=80 if crashing else 0,
                          restart=False, prefill=None, fault=kind)
            covers = ["fault-hit"] + (["rename-failed-after-part-of-the-chain"] if keep >= (2 if kind == "rename-error" else 3) else []) + \
                     (["died"] if crashing else [])
            out.append(Ob("fault/%s/keep=%d%s" % (kind, keep, "/crash" if crashing else ""), h, params,
                          budget=600 if quick else 3000, covers=covers,
                          bounds=dict(ticks=T, runs_per_tick="0..2 (symbolic)", cycle_period="1..2 (symbolic)",
                                      flush_period="1..2 (symbolic)", size_threshold=0, keep=keep, reuse=False,
                                      fault=("the os.rename call number 1..%d (symbolic) raises OSError(EIO)" % (3 * keep * (T + 1)))
                                      if kind == "rename-error" else
                                      "retained copy 1..keep (symbolic) is deleted by another actor before tick 1..T (symbolic)",
                                      crash_index="1..80 (symbolic)" if crashing else None)))
    for keep in (1, 2) if quick else (0, 1, 2, 3):
        for reuse in (False, True):
            T = 2 if quick else 3
            prefill = (min(keep, 1), 1) if reuse else None
            params = dict(keep=keep, reuse=reuse, T=T, nmax=2, dmax=1, pmax=2, smax=40, crash=80, restart=False,
                          prefill=prefill, kill_between=True)
            name = "crash/keep=%d/%s" % (keep, "reuse" if reuse else "unique")
            out.append(Ob(name, h, params, budget=600 if quick else 3000,
                          covers=["died"] + (["died-after-rotation-began"] if keep else []),
                          bounds=dict(ticks=T, runs_per_tick="0..2 (symbolic)", cycle_period="1..2 (symbolic)",
                                      flush_period="1..2 (symbolic)", size_threshold="0..40 (symbolic)",
                                      crash_index="1..80 (symbolic; every file-system operation of the history)",
                                      keep=keep, reuse=reuse, earlier_session_files=prefill)))
    # logs that write rarely (once / update or change with an idle loggee): the record of START must be in the files
    # once the Logger's flush timer has fired, whenever the process is killed afterwards (checked after every runner call)
    for keep in (0, 1) if quick else (0, 1, 2):
        for mode in ("once", "update-idle", "change-idle"):
            T = 3 if quick else 4
            pm = 2 if quick else 3
            params = dict(keep=keep, reuse=False, T=T, nmax=2, dmax=1, pmax=pm, smax=40, crash=0, restart=False,
                          prefill=None, mode=mode, kill_between=True)
            out.append(Ob("kill/%s/keep=%d" % (mode, keep), h, params, budget=600 if quick else 3000,
                          covers=["flush-timer-fired"],
                          bounds=dict(ticks=T, runs_per_tick="0..2 (symbolic)", cycle_period="1..%d (symbolic)" % pm,
                                      flush_period="1..%d (symbolic)" % pm, size_threshold="0..40 (symbolic)", keep=keep,
                                      log_rule=mode, kill_points="after every runner call (START and each RUN), no close")))
    return out
