"""C20 -- 'is updated' and 'is changed' conditions report changes since the mark (E1).

Real Builder (NeedUpdate / NeedChange / MarkerUpdate / MarkerChange wiring) and
real framer code, two frames a <-> b.  Per tick the harness may write the share
before the framer runs and/or after it (selectors) with symbolic values (same or
different value is decided by the solver through the real comparison), an entry
guard on the target frame is symbolic (so a transition whose condition holds may
still be refused and then must NOT reset the mark), and the return transition's
trigger is symbolic.
Oracle: a model of the mark written from the statement: the mark is set on entry
to the named frame and whenever a transition guarded by it is taken; an update in
the same tick as an entry reset counts, one in the same tick as a taken-transition
reset does not; before the mark is first set any update counts; 'changed' compares
field values with the snapshot taken at those same moments and is true before the
first snapshot.  The framer's active frame after every tick must equal the model's.
"""
from engine import Ob
from engine import flogen

PROPERTY = "C20"
ENGINE = "E1"
FUNCTIONS = ["ioflo.base.needing.NeedUpdate.action", "ioflo.base.needing.NeedChange.action", "ioflo.base.needing.NeedMarker._resolve",
             "ioflo.base.acting.MarkerUpdate.action", "ioflo.base.acting.MarkerChange.action", "ioflo.base.acting.Transiter.action",
             "ioflo.base.storing.Share.value setter (stamping)", "ioflo.base.building.Builder.makeMarkerNeed (concrete text)"]
ASSUMPTIONS = [
    "variants: V1 no 'in frame' (mark reset only by the taken transition), V2 'in frame a', V3 shared 'by mk' mark used by both frames' transitions, "
    "V4 shared mark with 'in frame' entry resets in both frames, V5 two conditions of one frame on two different shares both marked 'in frame'; each for 'updated' and 'changed'",
    "integer store time, one tick = 1; writes are share.value assignments (stamp = store time) before and/or after the framer's run",
    "symbolic: written values in [0,2], entry-guard values and return trigger in [0,1]; selectors: whether a write happens before/after the run in each tick",
    "the share starts unstamped (created before the store has a time) with value 0",
]

START, RUN = 1, 2


def script(variant, kind):
    K = kind + "d"
    if variant == "V1":
        ca, cb = "s is %s" % K, "x >= 1"
    elif variant == "V2":
        ca, cb = "s is %s in frame a" % K, "x >= 1"
    elif variant == "V3":
        ca, cb = "s is %s by mk" % K, "s is %s by mk" % K
    elif variant == "V4":
        ca, cb = "s is %s in frame a by mk" % K, "s is %s in frame b by mk" % K
    else:   # V5: two conditions of frame a on DIFFERENT shares, both marked on entry to a
        return "\n".join([
            "house h", "  framer m be active first a",
            "    frame a", "      let me if ga >= 1", "      do verif record at enter",
            "      go b if s is %s in frame a" % K, "      go b if s2 is %s in frame a" % K,
            "    frame b", "      let me if gb >= 1", "      do verif record at enter", "      go a if x >= 1",
        ]) + "\n"
    return "\n".join([
        "house h", "  framer m be active first a",
        "    frame a", "      let me if ga >= 1", "      do verif record at enter", "      go b if " + ca,
        "    frame b", "      let me if gb >= 1", "      do verif record at enter", "      go a if " + cb,
    ]) + "\n"


class Mark:
    def __init__(self):
        self.stamp = None
        self.used = None
        self.snap = None


def h(sym, variant, kind, ticks):
    text = script(variant, kind)
    with flogen.notrace(sym):
        house = flogen.build_text(text)[0]
    store = house.store
    m = house.framers[0]
    s = store.create("s")
    store.stamp = None
    s.value = 0                      # unstamped initial value
    ga, gb, x = store.create("ga"), store.create("gb"), store.create("x")
    store.stamp = 0
    ga.value = 1
    gb.value = 1
    x.value = 0
    # model
    marks = {"a": Mark(), "b": Mark()} if variant in ("V1", "V2") else {"a": None, "b": None}
    if variant in ("V3", "V4"):
        shared = Mark()
        marks = {"a": shared, "b": shared}
    entry_reset = {"V1": (), "V2": ("a",), "V3": (), "V4": ("a", "b")}[variant]
    marked_go = {"V1": ("a",), "V2": ("a",), "V3": ("a", "b"), "V4": ("a", "b")}[variant]
    sh_stamp = None
    sh_val = 0

    def cond(mk):
        if kind == "update":
            if sh_stamp is None:
                return False
            return mk.stamp is None or sh_stamp > mk.stamp or (sh_stamp == mk.stamp and mk.used != mk.stamp)
        return mk.snap is None or mk.snap[0] != sh_val

    def reset(mk, now, transit):
        mk.stamp = now
        if transit:
            mk.used = now
        mk.snap = (sh_val,)

    st = m.runner.send(START)
    sym.check(st == 1 and m.active.name == "a", "C20/harness/start")
    cur = "a"
    if "a" in entry_reset:
        reset(marks["a"], 0, False)
    for k in range(1, ticks + 1):
        store.stamp = k
        gav = sym.int("ga%d" % k, 0, 1)
        gbv = sym.int("gb%d" % k, 0, 1)
        xv = sym.int("x%d" % k, 0, 1)
        ga.value = gav
        gb.value = gbv
        x.value = xv
        if sym.flag("wpre%d" % k):
            v = sym.int("vpre%d" % k, 0, 2)
            s.value = v
            sh_stamp, sh_val = k, v
            sym.cover("write-before-run")
        m.runner.send(RUN)
        # model of this tick's evaluation
        other = "b" if cur == "a" else "a"
        guard = gbv if other == "b" else gav
        if cur in marked_go:
            c = cond(marks[cur])
        else:
            c = xv >= 1
        took = False
        if c:
            if guard >= 1:
                took = True
                if cur in marked_go:
                    reset(marks[cur], k, True)
                    sym.cover("marked-transition-taken")
                if other in entry_reset:
                    reset(marks[other], k, False)
                    sym.cover("entry-reset")
                cur = other
            else:
                sym.cover("condition-true-but-refused")
        sym.check(m.active.name == cur,
                  "C20/%s-condition-differs-from-mark-model" % kind,
                  lambda: "variant %s tick %d: active %s model %s (share stamp %s val %s)\n%s" % (variant, k, m.active.name, cur, sh_stamp, sh_val, text))
        if sym.flag("wpost%d" % k):
            v = sym.int("vpost%d" % k, 0, 2)
            s.value = v
            sh_stamp, sh_val = k, v
            sym.cover("write-after-run")
    return True


def h5(sym, kind, ticks, post=False):
    """V5: frame a has two marked conditions on different shares s and s2, both 'in frame a'
    (so each share's mark must be set on every entry to a)."""
    text = script("V5", kind)
    with flogen.notrace(sym):
        house = flogen.build_text(text)[0]
    store = house.store
    m = house.framers[0]
    sh = {"s": store.create("s"), "s2": store.create("s2")}
    store.stamp = None
    sh["s"].value = 0
    sh["s2"].value = 0
    ga, gb, x = store.create("ga"), store.create("gb"), store.create("x")
    store.stamp = 0
    ga.value = 1
    gb.value = 1
    x.value = 0
    marks = {"s": Mark(), "s2": Mark()}
    state = {"s": [None, 0], "s2": [None, 0]}     # share -> [stamp, value]

    def cond(n):
        mk, (st_, val) = marks[n], state[n]
        if kind == "update":
            if st_ is None:
                return False
            return mk.stamp is None or st_ > mk.stamp or (st_ == mk.stamp and mk.used != mk.stamp)
        return mk.snap is None or mk.snap[0] != val

    def reset(n, now, transit):
        mk = marks[n]
        mk.stamp = now
        if transit:
            mk.used = now
        mk.snap = (state[n][1],)

    def write(tag, k):
        w = sym.choice("%s%d" % (tag, k), 3)
        if w:
            n = "s" if w == 1 else "s2"
            v = sym.int("v%s%d" % (tag, k), 0, 2)
            sh[n].value = v
            state[n] = [k, v]
            sym.cover("write-" + n)

    st = m.runner.send(START)
    sym.check(st == 1 and m.active.name == "a", "C20/harness/start")
    cur = "a"
    reset("s", 0, False)
    reset("s2", 0, False)
    for k in range(1, ticks + 1):
        store.stamp = k
        gav = sym.int("ga%d" % k, 0, 1)
        gbv = sym.int("gb%d" % k, 0, 1)
        xv = sym.int("x%d" % k, 0, 1)
        ga.value = gav
        gb.value = gbv
        x.value = xv
        write("wpre", k)
        m.runner.send(RUN)
        if cur == "a":
            for n in ("s", "s2"):
                if cond(n) and gbv >= 1:
                    reset(n, k, True)
                    cur = "b"
                    sym.cover("taken-on-" + n)
                    break
        else:
            if xv >= 1 and gav >= 1:
                cur = "a"
                reset("s", k, False)
                reset("s2", k, False)
                sym.cover("re-entered")
        sym.check(m.active.name == cur, "C20/%s-condition-differs-from-mark-model" % kind,
                  lambda: "variant V5 tick %d: active %s model %s state %s\n%s" % (k, m.active.name, cur, state, text))
        if post:
            write("wpost", k)
    return True


def obligations(tier):
    out = []
    ticks = 3 if tier == "quick" else 4
    for kind in ("update", "change"):
        out.append(Ob("%s/V5-two-shares/t3" % kind, h5, dict(kind=kind, ticks=3, post=(tier != "quick")), budget=900 if tier == "quick" else 3000,
                      covers=["write-s", "write-s2", "taken-on-s2", "re-entered"],
                      bounds=dict(ticks=3, values="[0,2]", guards="[0,1]", writes="before the run" + (" and after it" if tier != "quick" else ""))))
    for kind in ("update", "change"):
        for variant in ("V1", "V2", "V3", "V4"):
            out.append(Ob("%s/%s/t%d" % (kind, variant, ticks), h, dict(variant=variant, kind=kind, ticks=ticks),
                          budget=900 if tier == "quick" else 3000,
                          covers=["write-before-run", "write-after-run", "marked-transition-taken", "condition-true-but-refused"],
                          bounds=dict(ticks=ticks, values="[0,2]", guards="[0,1]")))
    return out
