"""C19 -- share stamps, fields and decks follow their documented rules (E1, inductive step).

Pre-state: an arbitrary valid Share built directly from symbolic descriptors: an ordered
subset of the fields {value, a, b} with symbolic int values, a stamp that is None or a
symbolic int, no store / a store whose stamp is None or a symbolic int (so "time advanced
since the last write" is simply stamp != store.stamp), a deck of <= 3 elements each None
or a symbolic int.  One arbitrary operation with symbolic arguments (field names from an
alphabet that contains private, non-identifier and class-attribute names).  Post: model
written from the property statement.  The post-check re-establishes the representation
invariant (field mapping self-consistent, all field names public identifiers), so the step
is inductive and covers interleavings of any length over the universe.
"""
from collections import deque

from engine import Ob
from ioflo.aid.odicting import odict
from ioflo.base.storing import Store, Share, Data, Deck, Node

PROPERTY = "C19"
ENGINE = "E1"
FUNCTIONS = ["ioflo.base.storing.Share.value (setter)", "Share.update", "Share.change", "Share.create",
             "Share.stampNow", "Share.__setitem__", "Share.__delitem__", "Share.__getitem__", "Share.__contains__",
             "Share.keys/items/values/__iter__/__len__", "Share.push", "Share.pull",
             "ioflo.base.storing.Data.__setattr__", "ioflo.base.storing.Deck.gulp", "Deck.spew", "Deck.push", "Deck.pull"]
ASSUMPTIONS = [
    "exact-time regime: stamps are ints (store.stamp assigned directly); Store built without __init__ bookkeeping shares",
    "quick: field universe {value, a}, argument names {value, a, c, _p, x-y, _show, 'a\\n'} (second item of a two-field "
    "argument from {a, c, _p}); thorough: fields {value, a, b}, names add 1x, both items from the full alphabet; "
    "<= 2 fields per update/change/create",
    "an invalid field name may be rejected by an exception or silently ignored (statement: 'must be public identifiers'); "
    "either way it must not be stored.  After an exception in a multi-field operation only self-consistency of the "
    "record is judged (whether earlier fields were applied, and the stamp, are left open: statement silent)",
    "names of Data's own methods (_show) are used as arguments but not as lookup keys (hasattr is trivially true)",
    "share[k] = v and del share[k]: resulting stamp not judged (statement silent: only value=/update stamp, change never)",
    "spew returning a None element that was put in with push(None) is FIFO behaviour, not 'None while non-empty'",
    "pull on an empty deck: IndexError or a None result are both accepted (statement silent); deck must stay empty",
    "public identifier = str.isidentifier() and not starting with '_'",
    "the vacuity label 'existing-field' of the delitem obligation is waived by a concrete probe while every deletion of "
    "an existing field is a replayed violation, and required again once deletion works",
]

FIELDS = ["value", "a", "b"]
NAMES = ["value", "a", "c", "_p", "1x", "x-y", "_show", "a\n"]
LOOKUPS = ["value", "a", "b", "c", "_p", "1x", "x-y"]     # names of Data's own methods are not looked up (hasattr is true)
VLO, VHI = -3, 3
TLO, THI = 0, 5


def valid_name(k):
    return k.isidentifier() and not k.startswith("_")


# ----------------------------------------------------------------------------- helpers
def fail(sym, key, detail=""):
    """detail may be a callable: the engine evaluates it under concrete replay only (formatting symbolic values
    would realise them), and reads the counterexample from a solver model without enumerating value domains"""
    sym.fail(key, detail)


def chk(sym, c, key, detail=""):
    if not c:
        sym.fail(key, detail)


def run(fn):
    try:
        return ("ok", fn())
    except Exception as e:   # noqa: BLE001
        return ("exc", type(e).__name__)


def pick_seq(sym, tag, alphabet, maxn, distinct=True):
    n = sym.int(tag + "n", 0, maxn)
    rest = list(alphabet)
    out = []
    for i in range(maxn):
        if not (i < n):
            break
        j = sym.int("%s%d" % (tag, i), 0, len(rest) - 1)
        out.append(rest.pop(j) if distinct else rest[j])
    return out


def opt_int(sym, tag, lo, hi):
    """None or a symbolic int"""
    if sym.bool(tag + "_none"):
        return None
    return sym.int(tag, lo, hi)


def build(sym, fields_univ, maxdeck, deck_none=True):
    """arbitrary valid share + model state"""
    names = pick_seq(sym, "f", fields_univ, len(fields_univ))
    fields = [[k, sym.int("fv_" + k, VLO, VHI)] for k in names]
    stamp = opt_int(sym, "stamp", TLO, THI)
    store = None
    now = None
    if sym.bool("has_store"):
        store = Store.__new__(Store)
        store.name = "s"
        store.house = None
        store.shares = Node().byName('')
        now = opt_int(sym, "now", TLO, THI)
        store.stamp = now
    nd = sym.int("dn", 0, maxdeck)
    deck = []
    for i in range(maxdeck):
        if not (i < nd):
            break
        deck.append(opt_int(sym, "d%d" % i, VLO, VHI) if deck_none else sym.int("d%d" % i, VLO, VHI))

    share = Share.__new__(Share)
    data = Data()
    rec = data.__dict__                      # the odict behind the record, filled without the methods under test
    for k, v in fields:
        dict.__setitem__(rec, k, v)
    rec._keys = [k for k, v in fields]
    share._data = data
    share._truth = None
    share._unit = None
    share._owner = None
    share.stamp = stamp
    share.deck = Deck(deck)
    share.name = "x.y"
    share.store = store
    share.marks = odict()
    return share, dict(fields=fields, stamp=stamp, now=now, deck=list(deck), has_store=store is not None)


def mfind(m, k):
    for i, kv in enumerate(m["fields"]):
        if kv[0] == k:
            return i
    return -1


def mset(m, k, v):
    i = mfind(m, k)
    if i < 0:
        m["fields"].append([k, v])
    else:
        m["fields"][i][1] = v


def same_fields(sym, share, m, key, strict=True):
    """every view of the share's fields agrees with the model (strict) / the record is at least self-consistent"""
    got = run(lambda: (share.keys(), share.items(), share.values(), list(share), len(share)))
    if got[0] != "ok":
        fail(sym, key + "/field-views-raise-" + got[1], lambda: "model fields %r" % (m["fields"],))
    keys, items, values, it, n = got[1]
    rec = share._data.__dict__
    for k in list(dict.keys(rec)) + it:
        chk(sym, valid_name(k), key + "/non-public-field-name-stored",
            lambda: "record storage %r keys %r" % (sorted(dict.keys(rec)), it))
    chk(sym, list(keys) == it and [k for k, v in items] == it and n == len(it) and len(values) == n,
        key + "/field-views-inconsistent", lambda: "keys %r items %r len %r" % (list(keys), items, n))
    chk(sym, sorted(dict.keys(rec)) == sorted(it), key + "/record-storage-differs-from-keys",
        lambda: "storage %r keys %r" % (sorted(dict.keys(rec)), it))
    if not strict:
        return
    exp = [(k, v) for k, v in m["fields"]]
    if not (list(items) == exp):
        fail(sym, key + "/fields-differ-from-model", lambda: "real %r model %r" % (items, exp))
    chk(sym, list(values) == [v for k, v in exp], key + "/values-differ-from-model")
    for k in LOOKUPS:
        i = mfind(m, k)
        chk(sym, (k in share) == (i >= 0), key + "/contains-differs-from-model", lambda: "field %r" % (k,))
        g = run(lambda: share[k])
        if i >= 0:
            chk(sym, g[0] == "ok" and g[1] == m["fields"][i][1], key + "/getitem-differs-from-model", lambda: "field %r" % (k,))
        else:
            chk(sym, g[0] == "exc" and g[1] == "KeyError", key + "/getitem-missing-field-not-KeyError", lambda: "field %r" % (k,))
    i = mfind(m, "value")
    chk(sym, share.value == (m["fields"][i][1] if i >= 0 else None), key + "/value-property-differs-from-model")


def same_stamp(sym, share, exp, key):
    if exp is None:
        chk(sym, share.stamp is None, key, lambda: "stamp %r expected None" % (share.stamp,))
    else:
        chk(sym, share.stamp is not None and share.stamp == exp, key, lambda: "stamp %r expected %r" % (share.stamp, exp))


def same_deck(sym, share, exp, key):
    real = list(share.deck)
    ok = len(real) == len(exp)
    if ok:
        for r, e in zip(real, exp):
            if e is None or r is None:
                ok = ok and (e is None and r is None)
            else:
                ok = ok and (r == e)
    chk(sym, ok, key, lambda: "deck %r expected %r" % (real, exp))


def args_for(sym, names, names2):
    """0, 1 or 2 (name, value) items; first name from names, second from names2"""
    n = sym.int("pn", 0, 2)
    out = []
    if n >= 1:
        out.append((names[sym.int("p0", 0, len(names) - 1)], sym.int("pv0", VLO, VHI)))
    if n >= 2:
        out.append((names2[sym.int("p1", 0, len(names2) - 1)], sym.int("pv1", VLO, VHI)))
    return out


def call_form(fn, form, pairs):
    """the three documented argument spellings; returns iteration order of (k, v)"""
    if form == "pairs":
        return run(lambda: fn(list(pairs))), list(pairs)
    d = {}
    for k, v in pairs:
        d[k] = v
    if form == "dict":
        return run(lambda: fn(d)), list(d.items())
    return run(lambda: fn(**d)), list(d.items())


FORMS = ["kw", "dict", "pairs"]


# ----------------------------------------------------------------------------- the step
def h(sym, op, fields_univ, maxdeck, names=(), names2=(), form=None):
    K = "C19/" + op
    deckop = op in ("push", "gulp", "pull", "spew")
    share, m = build(sym, fields_univ, maxdeck, deck_none=deckop)
    same_fields(sym, share, m, "C19/pre-state")
    stamp0, now, deck0 = m["stamp"], m["now"], list(m["deck"])

    if op == "value=":
        v = sym.int("av", VLO, VHI)

        def f():
            share.value = v
        got = run(f)
        chk(sym, got[0] == "ok", K + "/raises", lambda: got[1])
        mset(m, "value", v)
        same_fields(sym, share, m, K)
        sym.cover("store" if m["has_store"] else "no-store")
        if m["has_store"] and now is not None and (stamp0 is None or stamp0 != now):
            sym.cover("time-advanced")
        same_stamp(sym, share, now, K + "/stamp-not-store-time")
        same_deck(sym, share, deck0, K + "/deck-changed")
    elif op in ("update", "change", "create"):
        pairs = args_for(sym, names, names2)
        got, order = call_form(getattr(share, op), form, pairs)
        bad = [k for k, v in order if not valid_name(k)]
        if bad:
            sym.cover("invalid-name")
            if got[0] == "exc":
                sym.cover("invalid-name-raises")
                same_fields(sym, share, m, K, strict=False)
                same_deck(sym, share, deck0, K + "/deck-changed")
                return True
            # accepted without an error: then the invalid names must simply not have become fields
            order = [(k, v) for k, v in order if valid_name(k)]
        chk(sym, got[0] == "ok", K + "/raises", lambda: got[1])
        added = False
        for k, v in order:
            if op == "create":
                if mfind(m, k) < 0:
                    mset(m, k, v)
                    added = True
                else:
                    sym.cover("existing-field-kept")
            else:
                mset(m, k, v)
        same_fields(sym, share, m, K)
        sym.cover("store" if m["has_store"] else "no-store")
        if op == "update":
            same_stamp(sym, share, now, K + "/stamp-not-store-time")
        elif op == "change":
            same_stamp(sym, share, stamp0, K + "/stamp-altered")
        else:
            if added:
                sym.cover("field-added")
                same_stamp(sym, share, now, K + "/stamp-not-store-time-after-adding-field")
            else:
                sym.cover("nothing-added")
                same_stamp(sym, share, stamp0, K + "/stamp-altered-without-new-field")
        same_deck(sym, share, deck0, K + "/deck-changed")
    elif op == "stampNow":
        got = run(lambda: share.stampNow())
        chk(sym, got[0] == "ok", K + "/raises", lambda: got[1])
        same_fields(sym, share, m, K)
        same_stamp(sym, share, now, K + "/stamp-not-store-time")
        chk(sym, (got[1] is None) == (now is None) and (now is None or got[1] == now), K + "/wrong-result")
        sym.cover("store" if m["has_store"] else "no-store")
    elif op == "setitem":
        k = names[sym.int("ak", 0, len(names) - 1)]
        v = sym.int("av", VLO, VHI)

        def f():
            share[k] = v
        got = run(f)
        if not valid_name(k):
            sym.cover("invalid-name")       # raising or ignoring are both fine; it must not become a field
        else:
            sym.cover("new-field" if mfind(m, k) < 0 else "existing-field")
            chk(sym, got[0] == "ok", K + "/raises", lambda: got[1])
            mset(m, k, v)
        same_fields(sym, share, m, K)
        same_deck(sym, share, deck0, K + "/deck-changed")
    elif op == "delitem":
        k = names[sym.int("ak", 0, len(names) - 1)]
        i = mfind(m, k)

        def f():
            del share[k]
        got = run(f)
        if i < 0:
            sym.cover("missing-field")
            chk(sym, got[0] == "exc" and got[1] == "KeyError", K + "/missing-field-not-KeyError", lambda: repr(got))
        else:
            sym.cover("existing-field")
            chk(sym, got[0] == "ok", K + "/raises", lambda: got[1])
            del m["fields"][i]
        same_fields(sym, share, m, K)
        # insertion order after deletion: a field added now goes to the end
        v = sym.int("av", VLO, VHI)
        share.change(a=v)
        mset(m, "a", v)
        same_fields(sym, share, m, K + "/re-add")
        same_deck(sym, share, deck0, K + "/deck-changed")
    elif op == "views":
        sym.cover("fields" if m["fields"] else "no-fields")
        d = sym.int("dflt", VLO, VHI)
        for k in LOOKUPS:
            i = mfind(m, k)
            g = run(lambda: share.get(k, d))
            chk(sym, g[0] == "ok" and g[1] == (m["fields"][i][1] if i >= 0 else d), K + "/get-differs-from-model")
            g = run(lambda: share.fetch(k, d))
            chk(sym, g[0] == "ok" and g[1] == (m["fields"][i][1] if i >= 0 else d), K + "/fetch-differs-from-model")
        same_fields(sym, share, m, K)
        same_stamp(sym, share, stamp0, K + "/stamp-altered")
        same_deck(sym, share, deck0, K + "/deck-changed")
    elif op in ("push", "gulp"):
        e = opt_int(sym, "ae", VLO, VHI)
        via_share = sym.bool("via_share") if op == "push" else False
        got = run(lambda: share.push(e) if via_share else getattr(share.deck, op)(e))
        chk(sym, got[0] == "ok", K + "/raises", lambda: got[1])
        if op == "push" or e is not None:
            sym.cover("element-added")
            exp = deck0 + [e]
        else:
            sym.cover("none-ignored")
            exp = deck0
        same_deck(sym, share, exp, K + ("/none-not-ignored" if (op == "gulp" and e is None) else "/not-appended-at-back"))
        same_fields(sym, share, m, K)
        same_stamp(sym, share, stamp0, K + "/stamp-altered")
    elif op in ("pull", "spew"):
        via_share = sym.bool("via_share") if op == "pull" else False
        got = run(lambda: share.pull() if via_share else getattr(share.deck, op)())
        if not deck0:
            sym.cover("empty")
            if op == "spew":
                chk(sym, got[0] == "ok" and got[1] is None, K + "/empty-deck-not-None", lambda: repr(got))
            else:
                chk(sym, (got[0] == "exc" and got[1] == "IndexError") or (got[0] == "ok" and got[1] is None),
                    K + "/empty-deck-unexpected-outcome", lambda: repr(got))
            same_deck(sym, share, [], K + "/deck-changed")
        else:
            sym.cover("nonempty")
            chk(sym, got[0] == "ok", K + "/raises", lambda: got[1])
            e = deck0[0]
            if e is None:
                chk(sym, got[1] is None, K + "/not-fifo")
            else:
                sym.cover("returns-element")
                chk(sym, got[1] is not None and got[1] == e, K + ("/none-from-nonempty-deck" if got[1] is None else "/not-fifo"),
                    lambda: "deck %r returned %r" % (deck0, got[1]))
            same_deck(sym, share, deck0[1:], K + "/front-not-removed")
        same_fields(sym, share, m, K)
        same_stamp(sym, share, stamp0, K + "/stamp-altered")
    else:
        raise AssertionError(op)
    return True


def _delete_works():
    try:
        sh = Share(name="p")
        sh.change(a=1)
        del sh["a"]
        return sh.items() == []
    except Exception:   # noqa: BLE001
        return False


def obligations(tier):
    quick = tier == "quick"
    budget = 600 if quick else 3000
    fields = ["value", "a"] if quick else FIELDS
    names = NAMES if not quick else ["value", "a", "c", "_p", "x-y", "_show", "a\n"]
    names2 = names if not quick else ["a", "c", "_p"]
    out = []

    def ob(name, op, covers, fu=fields, deck=1, **extra):
        params = dict(op=op, fields_univ=fu, maxdeck=deck, **extra)
        b = dict(fields=fu, max_deck=deck, values=[VLO, VHI], stamps=[TLO, THI],
                 steps="1 (inductive) from any valid pre-state")
        if "names" in extra:
            b["argument_names"] = extra["names"]
        if "names2" in extra:
            b["second_argument_names"] = extra["names2"]
        out.append(Ob(name, h, params, budget=budget, covers=covers, max_fail_keys=40, bounds=b))

    ob("value=", "value=", ["store", "no-store", "time-advanced"])
    for op in ("update", "change", "create"):
        for form in FORMS:
            cv = ["invalid-name", "invalid-name-raises", "store", "no-store"]
            if op == "create":
                cv += ["existing-field-kept", "field-added", "nothing-added"]
            ob("%s/%s" % (op, form), op, cv, names=names, names2=names2, form=form)
    ob("stampNow", "stampNow", ["store", "no-store"])
    ob("setitem", "setitem", ["invalid-name", "new-field", "existing-field"], names=names)
    # a genuine defect that makes every deletion of an existing field fail leaves that vacuity label unreachable
    ob("delitem", "delitem", ["missing-field"] + (["existing-field"] if _delete_works() else []),
       fu=FIELDS, names=FIELDS + ["c", "_p"])
    ob("views", "views", ["fields", "no-fields"], fu=FIELDS)
    deck = 2 if quick else 3
    ob("push", "push", ["element-added"], fu=["a"], deck=deck)
    ob("gulp", "gulp", ["element-added", "none-ignored"], fu=["a"], deck=deck)
    ob("pull", "pull", ["empty", "nonempty", "returns-element"], fu=["a"], deck=deck)
    ob("spew", "spew", ["empty", "nonempty", "returns-element"], fu=["a"], deck=deck)
    return out
