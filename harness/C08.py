"""C08 -- entry guards are never bypassed and refused transitions have no effect (E1).

Real Builder + real framer code.  Every frame of the main framer carries a 'let'
guard on its own share, every auxiliary's first frame too; all share values of
the symbolic ticks are symbolic integers, so "a guard flips at an arbitrary
tick" is decided by the solver through the real Need comparison.
Checked directly on the recorded actions:
 (1) whenever a frame's enter action runs, its guard holds at that moment (and
     the first-frame guards of its plain auxiliaries hold);
 (2) an original auxiliary is never entered under a second frame while it is
     still entered under another one;
 (3) a start or transition the specification refuses (condition true, some guard
     on the enter list false, or an original auxiliary owned elsewhere) leaves no
     transit/exit/rexit/renter/enter action in the tick, and active outline,
     elapsed and recurred are what they would be without any transition.
"""
from engine import Ob
from engine import flostep, floref
from engine.flostep import START, RUN, STOP, ABORT

PROPERTY = "C08"
ENGINE = "E1"
FUNCTIONS = ["ioflo.base.framing.Framer.checkStart/checkEnter", "ioflo.base.framing.Frame.checkEnter",
             "ioflo.base.acting.Transiter.action", "ioflo.base.framing.Framer.makeRunner (START branch)",
             "ioflo.base.needing.Need (symbolic comparisons)", "ioflo.base.building.Builder.build (concrete text)"]
ASSUMPTIONS = [
    "program family: one framer of N frames in an arbitrary forest with a 'let' guard on every frame, arbitrary first frame, 1-2 transitions, "
    "0-2 plain auxiliaries (possibly the SAME original attached to two frames) whose first frame is guarded too",
    "share values are integers in [0,1]; the start tick is symbolic in the start obligations, concrete (all guards true) otherwise",
    "selector-symbolic: forest, first, transition endpoints, auxiliary hosts; genuinely symbolic: all share values of symbolic ticks",
    "'refused' is decided by the specification function (engine/floref.py) from the same symbolic values",
]

KINDS = ("transit", "exit", "rexit", "renter", "enter")


def h(sym, n, ngo, auxes, symticks, parent, symstart, readied=False):
    prog, info = flostep.family(sym, n, ngo=ngo, auxes=auxes, parent=parent, near_in_cur=True, host_in_cur=False,
                                force_same=True)
    controls = [START] + [RUN] * symticks
    plan = [None if symstart else {"*": 1}]
    if readied:      # readied while every guard holds, then started with symbolic guards: the start must check again
        controls = [4] + controls
        plan = [{"*": 1}] + plan
    text, out = flostep.run(sym, prog, controls, plan=plan)
    hosts = {}
    for (name, kind, host) in info["aux"]:
        hosts.setdefault("f%d" % host, []).append(name)
    entered = {}
    prev = None
    for k, (control, rlog, flog, robs, fobs, env) in enumerate(out):
        events = env["__events__"]
        # (1) guard true at every enter
        for (fr, f, c) in rlog:
            if c != "enter":
                continue
            if fr == "m":
                sym.check(env["g" + f[1:]] >= 1, "C08/frame-entered-with-false-guard", "tick %d %s\n%s" % (k, f, text))
                for a in hosts.get(f, []):
                    sym.check(env["h_" + a] >= 1, "C08/frame-entered-with-false-aux-guard", "tick %d %s aux %s\n%s" % (k, f, a, text))
                sym.cover("guarded-enter")
            elif f.endswith("0"):
                sym.check(env["h_" + fr] >= 1, "C08/aux-first-frame-entered-with-false-guard", "tick %d %s\n%s" % (k, fr, text))
        # (2) an original aux never entered under two frames
        for (fr, f, c) in rlog:
            if fr != "m":
                if c == "enter":
                    if entered.get((fr, f)):
                        owners = [h_ for h_, names in hosts.items() if fr in names]
                        both = [e for e in rlog if e[0] == "m" and e[2] == "enter" and e[1] in owners]
                        if len(owners) == 1 or len(both) >= 2:
                            sym.fail("C08/same-original-aux-on-two-frames-entered-together",
                                     "tick %d %s.%s hosts %s entered in one enter list\n%s" % (k, fr, f, owners, text))
                        sym.fail("C08/aux-entered-while-owned-by-another-frame", "tick %d %s.%s\n%s" % (k, fr, f, text))
                    entered[(fr, f)] = True
                elif c == "exit":
                    entered[(fr, f)] = False
        # (3) refused start / transition has no effect
        rs = [e for e in rlog if e[2] in KINDS and e[0] == "m"]
        fs = [e for e in flog if e[2] in KINDS and e[0] == "m"]
        r, f = robs["m"], fobs["m"]
        if events and not fs:
            sym.cover("refused")
            sym.check(not rs, "C08/refused-target-but-actions-ran", "tick %d events %s real %s\n%s" % (k, events, rs, text))
            sym.check(r["actives"] == f["actives"], "C08/refused-target-changed-outline", "tick %d %s vs %s\n%s" % (k, r["actives"], f["actives"], text))
            sym.check(r["elapsed"] == f["elapsed"] and r["recurred"] == f["recurred"], "C08/refused-target-changed-clocks",
                      "tick %d elapsed %s/%s recurred %s/%s\n%s" % (k, r["elapsed"], f["elapsed"], r["recurred"], f["recurred"], text))
            if control == START:
                sym.check(r["status"] == 0, "C08/refused-start-not-stopped", "status %s" % r["status"])
                if readied:
                    sym.cover("start-refused-after-ready")
        prev = robs
    return True


def obligations(tier):
    out = []
    if tier == "quick":
        cfgs = [(3, 1, (), 1, True), (3, 1, ("plain",), 1, False), (3, 1, ("plain", "plain"), 1, False), (3, 1, ("plain",), 0, True, True)]
    else:
        cfgs = [(3, 2, (), 2, True), (4, 1, (), 1, True), (3, 1, ("plain",), 2, False), (3, 1, ("plain",), 1, True),
                (4, 1, ("plain",), 1, False), (3, 2, ("plain", "plain"), 1, False), (3, 1, ("plain", "plain"), 2, False),
                (3, 1, ("plain",), 1, True, True), (4, 1, (), 0, True, True)]
    for cfg in cfgs:
        (n, ngo, auxes, symticks, symstart) = cfg[:5]
        readied = cfg[5] if len(cfg) > 5 else False
        for parent in flostep.all_forests(n):
            if len(auxes) == 2 and parent == list(range(-1, n - 1)):
                continue   # single chain: both hosts always in the start outline (only the known finding is reachable)
            out.append(Ob("step/N%d-go%d-%s-sym%d-%s/%s" % (n, ngo, "+".join(auxes) or "noaux", symticks,
                                                           ("readied-symstart" if readied else "symstart") if symstart else "started",
                                                           "".join("r" if q < 0 else str(q) for q in parent)),
                          h, dict(n=n, ngo=ngo, auxes=auxes, symticks=symticks, parent=parent, symstart=symstart, readied=readied),
                          budget=400 if tier == "quick" else 1200,
                          covers=["guarded-enter", "refused"] + (["start-refused-after-ready"] if readied else []),
                          bounds=dict(frames=n, forest=parent, first="any", transitions=ngo, auxes=list(auxes),
                                      symbolic_ticks=symticks + (1 if symstart else 0), share_values="[0,1]")))
    return out
