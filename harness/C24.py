"""C24 -- stream transports deliver queued bytes exactly once and in order (E1).

Inductive step: an arbitrary transmit queue (symbolic message lengths, pairwise
distinct contents) + ONE service call against a socket double whose every send
result is symbolic: accepted count in [0,len], would-block, or a connection-loss
error.  Post: bytes accepted by the socket ++ bytes still queued == the original
queue concatenation (prefix only after a loss), and the wire log recorded exactly
the accepted bytes.  Because the queue after the call is again an arbitrary queue,
the claim covers any number of service calls.

Receive side: an arbitrary receive-buffer prefix + one serviceReceives /
serviceReceiveOnce against a double that delivers chunks of symbolic length,
would-block, close or loss: buffer == prefix ++ delivered chunks in arrival order,
wire log == delivered chunks.
"""
import errno
from collections import deque

from engine import Ob
from engine import doubles_aio as D
from ioflo.aio.tcp import clienting, serving
from ioflo.aio.serial import serialing

PROPERTY = "C24"
ENGINE = "E1"
LEVEL_TEXT = "bounded model checking by symbolic execution of the real transport classes against socket doubles"
TECHNIQUE = "E1 symx: inductive step from an arbitrary queue; symbolic send counts / chunk lengths"
FUNCTIONS = [
    "ioflo.aio.tcp.clienting.Client.serviceTxes", "Client.send", "Client.serviceReceives",
    "Client.serviceReceiveOnce", "Client.receive",
    "ioflo.aio.tcp.clienting.ClientTls.send", "ClientTls.receive",
    "ioflo.aio.tcp.serving.Incomer.serviceTxes", "Incomer.send", "Incomer.serviceReceives",
    "Incomer.serviceReceiveOnce", "Incomer.receive",
    "ioflo.aio.tcp.serving.IncomerTls.send", "IncomerTls.receive",
    "ioflo.aio.serial.serialing.Driver.serviceTxes", "Driver.serviceTxOnce", "Driver._serviceOneTx",
    "Driver.serviceReceives", "Driver.serviceReceiveOnce", "SerialNb.send", "SerialNb.receive",
    "DeviceNb.send", "DeviceNb.receive",
    "ioflo.aio.wiring.WireLog.writeTx", "WireLog.writeRx",
]
ASSUMPTIONS = [
    "socket / ssl-socket / pyserial / os.read-os.write doubles (engine/doubles_aio.py): each send returns a symbolic "
    "count in [0,len(data)], raises would-block (EAGAIN; SSLWantWrite/SSLWantRead for TLS classes) or ECONNRESET; "
    "each recv returns a chunk of symbolic length, would-block, b'' (closed) or ECONNRESET",
    "errors other than would-block and connection loss are outside C24's quantifier (send-result patterns); see C25",
    "after a connection-loss error only 'accepted bytes are a prefix of the queue concatenation' is demanded",
    "message contents are pairwise distinct bytes >= 0x80 (so reordering/duplication is visible and the wire-log framing "
    "b'TX <addr>\\n' + data + b'\\n' can be parsed unambiguously)",
    "TLS objects get an ssl-context double whose wrap_socket returns the socket double; transport objects are built by "
    "their real constructors with a clock double as store",
    "DeviceNb: module global ioflo.aio.serial.serialing.os is replaced by a double exposing read/write",
    "one service call from an arbitrary queue / buffer state (inductive step)",
]

CA = ("127.0.0.1", 50001)
HA = ("127.0.0.1", 8080)
KINDS = ["Client", "ClientTls", "Incomer", "IncomerTls", "SerialNb", "DeviceNb"]


class OsDouble(object):
    """stands in for the os module inside serialing (DeviceNb uses os.read / os.write)"""
    def __init__(self, sock):
        self.sock = sock

    def write(self, fd, data):
        return self.sock.send(data)

    def read(self, fd, bs):
        return self.sock.recv(bs)

    def close(self, fd):
        pass


def build(kind, sock, wl):
    """returns (transport object, peer address used in the wire log)"""
    clock = D.Clock(0)
    if kind == "Client":
        c = clienting.Client(ha=HA, bufsize=4, wlog=wl, store=clock)
        c.cs = sock
        c.ca = CA
        c.accepted = True
        c.opened = True
        return c, HA
    if kind == "ClientTls":
        c = clienting.ClientTls(context=D.TlsContext(), ha=HA, bufsize=4, wlog=wl, store=clock)
        c.cs = sock
        c.ca = CA
        c.accepted = True
        c.connected = True
        c.opened = True
        return c, HA
    if kind == "Incomer":
        ix = serving.Incomer(ha=HA, bs=4, ca=CA, cs=sock, wlog=wl, store=clock, timeout=0)
        return ix, CA
    if kind == "IncomerTls":
        ix = serving.IncomerTls(context=D.TlsContext(), ha=HA, bs=4, ca=CA, cs=sock, wlog=wl,
                                store=clock, timeout=0)
        ix.connected = True
        return ix, CA
    if kind == "SerialNb":
        srv = serialing.SerialNb.__new__(serialing.SerialNb)
        srv.serial = sock
        srv.port = "/dev/null"
        srv.speed = 9600
        srv.bs = 4
        srv.opened = True
        return serialing.Driver(name="d", server=srv), None
    if kind == "DeviceNb":
        serialing.os = OsDouble(sock)
        srv = serialing.DeviceNb.__new__(serialing.DeviceNb)
        srv.fd = 7
        srv.port = "/dev/null"
        srv.speed = 9600
        srv.bs = 4
        srv.opened = True
        return serialing.Driver(name="d", server=srv), None
    raise AssertionError(kind)


def blocker(kind, write, wantread=False):
    if kind.endswith("Tls"):
        return D.would_block(tls=True, write=write and not wantread)
    return D.would_block()


def h_tx(sym, kind, nmsg, maxlen):
    tls = kind.endswith("Tls")
    serial = kind in ("SerialNb", "DeviceNb")
    state = dict(loss=False, partial=False, block=False)

    def on_send(data):
        i = sock.nsend
        sym.check(i <= nmsg, "C24/harness/too-many-sends")
        k = sym.int("k%d" % i, 0, 1 if serial else 2)
        if k == 1:
            state["block"] = True
            if tls:
                raise blocker(kind, True, wantread=sym.flag("wr%d" % i))
            raise blocker(kind, True)
        if k == 2:
            state["loss"] = True
            raise ConnectionResetError(errno.ECONNRESET, "reset by double")
        n = sym.int("n%d" % i, 0, len(data))
        if 0 < n < len(data):
            state["partial"] = True
        return n

    sock = D.ScriptSock(on_send=on_send, local=CA, peer=HA)
    wl = None if serial else D.wirelog()
    obj, addr = build(kind, sock, wl)
    msgs = []
    nq = sym.int("nq", 0, nmsg)          # queue length
    for i in range(nmsg):
        if i >= nq:
            break
        ln = sym.int("len%d" % i, 0, maxlen)
        msgs.append(bytes(range(0x80 + 8 * i, 0x80 + 8 * i + 8))[:ln])
    for m in msgs:
        obj.tx(m)
    whole = b"".join(msgs)
    once = serial and sym.flag("once")
    if once:
        obj.serviceTxOnce()
    else:
        obj.serviceTxes()
    acc = bytes(sock.accepted)
    rest = b"".join(bytes(x) for x in obj.txes)
    sym.check(whole[:len(acc)] == acc, "C24/%s/tx/accepted-not-a-prefix-of-queue" % kind,
              "queue=%r accepted=%r" % (msgs, acc))
    if not state["loss"]:
        sym.check(acc + rest == whole, "C24/%s/tx/bytes-lost-repeated-or-reordered" % kind,
                  "queue=%r accepted=%r left=%r" % (msgs, acc, list(obj.txes)))
    if wl is not None:
        logged = D.wirelog_payload(wl.getTx(), "TX", addr)
        sym.check(logged == acc, "C24/%s/tx/wire-log-differs-from-accepted" % kind,
                  "accepted=%r log=%r" % (acc, wl.getTx()))
    if state["partial"]:
        sym.cover("partial-send")
    if state["block"]:
        sym.cover("would-block")
    if nq >= 2 and acc == whole:
        sym.cover("full-drain")
    return True


def h_rx(sym, kind, ncalls, total):
    tls = kind.endswith("Tls")
    serial = kind in ("SerialNb", "DeviceNb")
    stream = bytes(range(0x80, 0x80 + total))
    state = dict(pos=0, loss=False, done=False)

    def on_recv(bs):
        i = sock.nrecv
        left = total - state["pos"]
        if i > ncalls or left == 0 or state["done"]:
            k = 1
        else:
            k = sym.int("k%d" % i, 0, 2 if serial else 3)
        if k == 1:                       # nothing available
            state["done"] = True
            if kind == "SerialNb":
                return b""               # pyserial with timeout=0 returns empty
            raise blocker(kind, False)
        if k == 2:                       # far side closed
            state["done"] = True
            if serial:                   # os.read at EOF / closed pty
                return b""
            return b""
        if k == 3:
            state["loss"] = True
            state["done"] = True
            raise ConnectionResetError(errno.ECONNRESET, "reset by double")
        n = sym.realize(sym.int("n%d" % i, 1, min(bs, left)))   # slicing below would realise it anyway
        chunk = stream[state["pos"]:state["pos"] + n]
        state["pos"] += n
        return chunk

    sock = D.ScriptSock(on_recv=on_recv, local=CA, peer=HA)
    wl = None if serial else D.wirelog()
    obj, addr = build(kind, sock, wl)
    p = sym.int("prefix", 0, 2)
    prefix = bytes([0x41, 0x42])[:p]
    obj.rxbs.extend(prefix)
    once = sym.flag("once")
    if once:
        obj.serviceReceiveOnce()
    else:
        obj.serviceReceives()
    got = b"".join(x for x in sock.delivered if x)
    sym.check(got == stream[:state["pos"]], "C24/harness/double-delivery-mismatch")
    sym.check(bytes(obj.rxbs) == prefix + got, "C24/%s/rx/buffer-differs-from-arrival-order" % kind,
              "prefix=%r delivered=%r rxbs=%r" % (prefix, sock.delivered, bytes(obj.rxbs)))
    if wl is not None:
        logged = D.wirelog_payload(wl.getRx(), "RX", addr)
        sym.check(logged == got, "C24/%s/rx/wire-log-differs-from-received" % kind,
                  "delivered=%r log=%r" % (got, wl.getRx()))
    if len([x for x in sock.delivered if x]) >= 2:
        sym.cover("multi-chunk")
    if once and got:
        sym.cover("once")
    return True


def obligations(tier):
    quick = tier == "quick"
    nmsg, maxlen = (3, 3) if quick else (4, 3)
    ncalls, total = (3, 5) if quick else (4, 7)
    out = []
    for kind in KINDS:
        out.append(Ob("tx/" + kind, h_tx, dict(kind=kind, nmsg=nmsg, maxlen=maxlen),
                      budget=240 if quick else 2400, covers=["partial-send", "would-block", "full-drain"],
                      bounds=dict(messages="<=%d" % nmsg, message_length="0..%d" % maxlen,
                                  send_results="count 0..len | would-block | ECONNRESET (symbolic per call)",
                                  calls="1 service call from an arbitrary queue (inductive)")))
        out.append(Ob("rx/" + kind, h_rx, dict(kind=kind, ncalls=ncalls, total=total),
                      budget=240 if quick else 2400, covers=["multi-chunk", "once"],
                      bounds=dict(recv_calls="<=%d scripted" % ncalls, stream_bytes=total, bufsize=4,
                                  recv_results="chunk 1..min(bs,left) | would-block | closed | ECONNRESET",
                                  prefix="0..2 bytes already buffered")))
    return out
