"""C37 -- a stack's remote indexes stay mutually consistent (E1, inductive step).

Universe: uids, names and host addresses from three small alphabets whose first
element is the local device's own key, so collisions with the local device occur.
Pre-state: an arbitrary valid RemoteStack: n remotes with pairwise distinct, non-local
keys in a symbolic order, symbolic `puid` (previous uid counter).  One operation
(add / add with automatically assigned uid / move / rename / reha / remove) whose
target is an indexed remote, a foreign twin object with the same keys ("not the
indexed one"), or a foreign stranger, and whose new key is any element of the alphabet.
Post: the three indexes list exactly the model's remotes, in the model's order, each
under its current key; no key equals the local device's; a rejected operation raised
ValueError and changed neither the indexes nor any remote object.  The invariant is
re-established after the step, so the claim covers operation sequences of any length
over the universe.
"""
from engine import Ob
from ioflo.aid.odicting import odict
from ioflo.aio.proto.stacking import RemoteStack
from ioflo.aio.proto.devicing import RemoteDevice

PROPERTY = "C37"
ENGINE = "E1"
FUNCTIONS = ["ioflo.aio.proto.stacking.RemoteStack.addRemote", "RemoteStack.moveRemote", "RemoteStack.renameRemote",
             "RemoteStack.rehaRemote", "RemoteStack.removeRemote", "ioflo.aio.proto.devicing.RemoteDevice.__init__",
             "ioflo.aio.proto.stacking.Stack.nextUid"]
ASSUMPTIONS = [
    "RemoteStack base class (no handler, no keep directory); local device (uid 1, name 'a', ha 'X')",
    "pre-state: the three indexes hold the same remotes in the same order under their current keys (the invariant the "
    "post-check re-establishes); built with plain odict item assignment",
    "a rejection is a ValueError (what every documented rejection of these methods raises); any other exception class "
    "is reported as a violation",
    "moving / renaming / re-addressing a remote to the key it already has is an accepted no-op",
    "all dimensions are selector-symbolic except puid (symbolic int, realised by the uid-in-index lookups)",
    "the alphabet of the attribute an operation changes has one key more than local + max_remotes (a free key exists "
    "when the stack is full); a foreign stranger varies only in the attribute the operation looks at",
    "the vacuity label 'target-foreign-twin' of step/remove is waived by a concrete probe while every such path is a "
    "replayed violation",
]

UIDS = [1, 2, 3, 4, 5, 6]
NAMES = ["a", "b", "c", "d", "e", "f"]
HAS = ["X", "Y", "Z", "W", "V", "U"]
ATTR = {"move": "uid", "rename": "name", "reha": "ha"}
METHOD = {"move": "moveRemote", "rename": "renameRemote", "reha": "rehaRemote"}


def fail(sym, key, detail=""):
    """detail may be a callable: the engine evaluates it under concrete replay only (formatting symbolic values
    would realise them), and reads the counterexample from a solver model without enumerating value domains"""
    sym.fail(key, detail)


def chk(sym, c, key, detail=""):
    if not c:
        sym.fail(key, detail)


def run(fn):
    try:
        return ("ok", fn())
    except Exception as e:   # noqa: BLE001
        return ("exc", type(e).__name__)


def pick_seq(sym, tag, alphabet, n):
    """ordered selection of exactly n distinct entries"""
    rest = list(alphabet)
    out = []
    for i in range(n):
        j = sym.int("%s%d" % (tag, i), 0, len(rest) - 1)
        out.append(rest.pop(j))
    return out


def snapshot(objs):
    return [(id(o), o.uid, o.name, o.ha) for o in objs]


def check_indexes(sym, stack, model, key):
    """model: list of remote objects in index order with their expected (uid, name, ha)"""
    exp_objs = [r for r, k in model]
    for which, index, pos in (("uid", stack.uidRemotes, 0), ("name", stack.nameRemotes, 1), ("ha", stack.haRemotes, 2)):
        keys = index.keys()
        vals = index.values()
        exp_keys = [k[pos] for r, k in model]
        chk(sym, len(vals) == len(exp_objs) and all(a is b for a, b in zip(vals, exp_objs)),
            key + "/%s-index-holds-wrong-remotes-or-order" % which,
            lambda: "index keys %r expected %r" % (keys, exp_keys))
        chk(sym, keys == exp_keys, key + "/%s-index-key-differs-from-model" % which,
            lambda: "index keys %r expected %r" % (keys, exp_keys))
        for k, r in zip(keys, vals):
            chk(sym, getattr(r, which) == k, key + "/%s-index-key-not-current-key" % which,
                lambda: "indexed under %r but remote.%s == %r" % (k, which, getattr(r, which)))
        local_key = getattr(stack.local, which)
        chk(sym, all(k != local_key for k in keys), key + "/%s-index-collides-with-local" % which, lambda: repr(keys))
    chk(sym, stack.remotes is stack.uidRemotes, key + "/remotes-alias-broken")
    chk(sym, (stack.local.uid, stack.local.name, stack.local.ha) == (UIDS[0], NAMES[0], HAS[0]), key + "/local-device-changed")
    for r, k in model:
        chk(sym, (r.uid, r.name, r.ha) == k, key + "/remote-attributes-differ-from-model",
            lambda: "remote (%r,%r,%r) model %r" % (r.uid, r.name, r.ha, k))


def h(sym, op, sizes, maxn, full=True):
    """full: every attribute's keys in an independent symbolic order; otherwise only the attribute the operation
    concerns (uid for add / remove) is ordered symbolically and the other two take their alphabet's order"""
    K = "C37/" + op
    stranger_attr = ATTR.get(op, "uid")
    uids, names, has = UIDS[:sizes[0]], NAMES[:sizes[1]], HAS[:sizes[2]]
    stack = RemoteStack(uid=uids[0], name=names[0], ha=has[0])
    n = sym.choice("n", maxn + 1)
    vary = {"move": 0, "rename": 1, "reha": 2}.get(op, 0)
    seqs = []
    for j, (tag, alpha) in enumerate((("u", uids), ("m", names), ("h", has))):
        seqs.append(pick_seq(sym, tag, alpha[1:], n) if (full or j == vary) else list(alpha[1:1 + n]))
    ru, rn, rh = seqs
    model = []
    for i in range(n):
        r = RemoteDevice(stack, uid=ru[i], name=rn[i], ha=rh[i])
        stack.uidRemotes[ru[i]] = r
        stack.nameRemotes[rn[i]] = r
        stack.haRemotes[rh[i]] = r
        model.append((r, (ru[i], rn[i], rh[i])))
    stack.puid = sym.int("puid", 0, len(uids))
    check_indexes(sym, stack, model, "C37/pre-state")

    def target():
        """(object, kind): an indexed remote, a foreign twin of one, or a foreign stranger"""
        kind = sym.choice("tkind", 3)
        if kind < 2:
            sym.assume(n > 0)
            i = sym.choice("ti", n) if n > 1 else 0
            r, k = model[i]
            if kind == 0:
                sym.cover("target-indexed")
                return r, "indexed", i
            sym.cover("target-foreign-twin")
            return RemoteDevice(stack, uid=k[0], name=k[1], ha=k[2]), "twin", i
        sym.cover("target-stranger")
        # a stranger varies in the attribute the operation looks at (it may equal an indexed remote's or the local
        # device's key -- then it is simply "not the indexed one" as well); its other attributes are fresh values
        u, nm, ha = 9, "q", "Q"
        if stranger_attr in ("uid", "all"):
            u = uids[sym.int("su", 0, len(uids) - 1)]
        if stranger_attr in ("name", "all"):
            nm = names[sym.int("sn", 0, len(names) - 1)]
        if stranger_attr in ("ha", "all"):
            ha = has[sym.int("sh", 0, len(has) - 1)]
        return RemoteDevice(stack, uid=u, name=nm, ha=ha), "stranger", None

    used = [set(k[j] for r, k in model) | {(uids[0], names[0], has[0])[j]} for j in range(3)]

    if op in ("add", "add-auto-uid"):
        if op == "add":
            if sym.flag("readd") and n > 0:
                i = sym.choice("ti", n) if n > 1 else 0
                new, keys = model[i][0], model[i][1]
                sym.cover("re-add-indexed")
            else:
                keys = (uids[sym.int("su", 0, len(uids) - 1)], names[sym.int("sn", 0, len(names) - 1)], has[sym.int("sh", 0, len(has) - 1)])
                new = RemoteDevice(stack, uid=keys[0], name=keys[1], ha=keys[2])
        else:
            nm, ha = names[sym.int("sn", 0, len(names) - 1)], has[sym.int("sh", 0, len(has) - 1)]
            got = run(lambda: RemoteDevice(stack, name=nm, ha=ha))
            chk(sym, got[0] == "ok", K + "/constructor-raises", lambda: got[1])
            new = got[1]
            chk(sym, all(new.uid != u for u in used[0]), K + "/assigned-uid-collides",
                lambda: "assigned %r, used %r" % (new.uid, sorted(used[0])))
            keys = (new.uid, nm, ha)
            sym.cover("auto-uid")
        before = snapshot([r for r, k in model] + [new])
        got = run(lambda: stack.addRemote(new))
        ok = all(keys[j] not in used[j] for j in range(3))
        if ok:
            sym.cover("accepted")
            chk(sym, got[0] == "ok", K + "/valid-add-rejected", lambda: "%r: %s" % (keys, got[1]))
            chk(sym, got[1] is new and new.stack is stack, K + "/added-remote-not-returned-or-not-bound")
            model.append((new, keys))
        else:
            sym.cover("rejected")
            chk(sym, got[0] == "exc", K + "/colliding-add-accepted", lambda: "%r used %r" % (keys, used))
            chk(sym, got[1] == "ValueError", K + "/rejection-raises-" + str(got[1]))
            chk(sym, snapshot([r for r, k in model] + [new]) == before, K + "/rejected-op-changed-a-remote")
        check_indexes(sym, stack, model, K)
        return True

    if op in ("move", "rename", "reha"):
        pos = {"move": 0, "rename": 1, "reha": 2}[op]
        alphabet = (uids, names, has)[pos]
        obj, kind, i = target()
        new = alphabet[sym.int("new", 0, len(alphabet) - 1)]
        old = getattr(obj, ATTR[op])
        before = snapshot([r for r, k in model] + [obj])
        got = run(lambda: getattr(stack, METHOD[op])(obj, new))
        if new == old:
            sym.cover("same-key-no-op")
            chk(sym, got[0] == "ok", K + "/same-key-raises", lambda: got[1])
            chk(sym, snapshot([r for r, k in model] + [obj]) == before, K + "/same-key-changed-a-remote")
        elif kind == "indexed" and new not in used[pos]:
            sym.cover("accepted")
            chk(sym, got[0] == "ok", K + "/valid-op-rejected", lambda: "%r -> %r: %s" % (old, new, got[1]))
            k = list(model[i][1])
            k[pos] = new
            model[i] = (obj, tuple(k))     # same position in iteration order
        else:
            sym.cover("rejected")
            chk(sym, got[0] == "exc", K + "/invalid-op-accepted", lambda: "%s %r -> %r" % (kind, old, new))
            chk(sym, got[1] == "ValueError", K + "/rejection-raises-" + str(got[1]))
            chk(sym, snapshot([r for r, k in model] + [obj]) == before, K + "/rejected-op-changed-a-remote")
        check_indexes(sym, stack, model, K)
        return True

    if op == "remove":
        obj, kind, i = target()
        before = snapshot([r for r, k in model] + [obj])
        got = run(lambda: stack.removeRemote(obj))
        if kind == "indexed":
            sym.cover("accepted")
            chk(sym, got[0] == "ok", K + "/valid-op-rejected", lambda: got[1])
            del model[i]
        else:
            sym.cover("rejected")
            chk(sym, got[0] == "exc", K + "/invalid-op-accepted", lambda: kind)
            chk(sym, got[1] == "ValueError", K + "/rejection-raises-" + str(got[1]))
            chk(sym, snapshot([r for r, k in model] + [obj]) == before, K + "/rejected-op-changed-a-remote")
        check_indexes(sym, stack, model, K)
        return True
    raise AssertionError(op)


def obligations(tier):
    quick = tier == "quick"
    maxn = 2 if quick else 3
    base = maxn + 1            # local + maxn remotes
    # the alphabet of the attribute an operation changes has one key more, so that a free key exists when the
    # stack is full (a move of the first of several remotes must keep it first)
    sizes = {"add": (base + 1, base + 1, base + 1) if not quick else (base, base, base),
             "add-auto-uid": (base, base, base), "remove": (base, base, base),
             "move": (base + 1, base, base), "rename": (base, base + 1, base), "reha": (base, base, base + 1)}
    tk = ["target-indexed", "target-foreign-twin", "target-stranger"]
    covers = {
        "add": ["accepted", "rejected", "re-add-indexed"],
        "add-auto-uid": ["accepted", "rejected", "auto-uid"],
        "move": tk + ["accepted", "rejected", "same-key-no-op"],
        "rename": tk + ["accepted", "rejected", "same-key-no-op"],
        "reha": tk + ["accepted", "rejected", "same-key-no-op"],
        "remove": tk + ["accepted", "rejected"],
    }
    # a genuine defect that makes every removal attempt through a twin object fail leaves that label unreachable
    if not _twin_removal_rejected_cleanly():
        covers["remove"] = [c for c in covers["remove"] if c != "target-foreign-twin"]
    out = []
    for op, cv in covers.items():
        sz = sizes[op]
        bounds = dict(uids=UIDS[:sz[0]], names=NAMES[:sz[1]], has=HAS[:sz[2]], local="first element of each alphabet",
                      max_remotes=maxn, puid=[0, sz[0]], steps="1 (inductive) from any valid pre-state")
        bounds["key_orders"] = "all three attributes independently ordered" if quick else \
            "attribute under test symbolically ordered, the other two in alphabet order"
        out.append(Ob("step/" + op, h, dict(op=op, sizes=sz, maxn=maxn, full=quick), budget=600 if quick else 3000,
                      covers=cv, bounds=bounds, max_fail_keys=40))
    return out


def _twin_removal_rejected_cleanly():
    stack = RemoteStack(uid=1, name="a", ha="X")
    stack.addRemote(RemoteDevice(stack, uid=2, name="b", ha="Y"))
    try:
        stack.removeRemote(RemoteDevice(stack, uid=2, name="b", ha="Y"))
    except ValueError:
        return True
    except Exception:   # noqa: BLE001
        return False
    return False
