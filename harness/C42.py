"""C42 -- timers report elapsed / remaining / expiry consistently with their clock (E1).

The clock (`ioflo.aid.timing.time`, resp. `store.stamp` for StoreTimer) is a double
whose reading is a fresh symbolic integer before every timer operation, with NO
monotonicity constraint (forward step, standstill, backward jump).

Obligations
* step/<class>/<op>   inductive step: an arbitrary valid timer state (start, duration,
                      stop = start + duration, and for MonoTimer the last checked clock
                      `latest`) + ONE operation with symbolic arguments at an arbitrary
                      clock reading; post-state and returned value are compared with a
                      model written from the statement.
* mono/nondecreasing  MonoTimer(retro=True): elapsed; m operations that do not restart
                      the timer (reads, extend) at arbitrary clock readings; elapsed
                      again must not be smaller.
* seq/<class>         constructor at a symbolic clock + K arbitrary operations.

Exact-time regime: every time value is an integer (float rounding of start+delta is
outside the claim).
"""
from engine import Ob
from engine import symx  # noqa: F401  imported in the parent so that forked shards do not each pay the CrossHair/z3 import
from ioflo.aid import timing
from ioflo.base import excepting
from ioflo.base.storing import Store

PROPERTY = "C42"
ENGINE = "E1"
FUNCTIONS = ["ioflo.aid.timing.Timer.{__init__,getElapsed,getRemaining,getExpired,restart,repeat,extend}",
             "ioflo.aid.timing.MonoTimer.{__init__,update,getElapsed,getRemaining,getExpired,restart,repeat,extend}",
             "ioflo.aid.timing.StoreTimer.{__init__,getElapsed,getRemaining,getExpired,restart,repeat,extend}"]
TECHNIQUE = "E1: path-wise symbolic execution of the real Timer/MonoTimer/StoreTimer objects (CrossHair engine, z3); clock double with symbolic integer readings"
LEVEL_TEXT = "bounded model checking: inductive step from any valid timer state (one op), elapsed-monotonicity over 1-2 non-restarting ops, constructor + 2/3 ops; integers in [0,100000]"
LEVEL_NOTE = "exact-time regime (integers); one clock reading per timer operation; MonoTimer(retro=False) backward jumps 1..3 units"
ASSUMPTIONS = [
    "ioflo.aid.timing.time is replaced by a clock double; StoreTimer reads store.stamp of a real Store (built without __init__)",
    "the clock reading is constant during one timer operation and arbitrary (no monotonicity) between operations",
    "exact-time regime: clock, start, duration, extension are integers; IEEE rounding is outside the claim",
    "time values stay in the non-negative domain the classes document (abs() normalisation): clock >= 0, "
    "pre-state start >= 0, and a retrograde shift that would make start negative is not considered",
    "restart(start=s, duration=d) with negative s or d, and extend(x) with duration+x < 0: the statement is silent "
    "(code takes abs); only 'extend keeps the start' is asserted there and the model adopts the timer's own attributes",
    "repeat() of a compensating MonoTimer called at a backward jump: 'previous stop' may be the shifted or the unshifted stop (both accepted)",
    "extend() of a compensating MonoTimer called at a backward jump: start may be the shifted or the literally kept start (both accepted); "
    "'elapsed never decreases' is asserted on the values actually read",
    "MonoTimer without compensation: the path ends at the first TimerRetroError (state after the raise is not specified)",
    "StoreTimer with store.stamp None is not exercised",
    "MonoTimer(retro=False): backward jumps of 1..3 units (the TimerRetroError message formats the jump, which realises it); "
    "forward steps and all jumps of the compensating timer are unbounded within the clock range",
    "floats derived from symbolic integers are modelled as exact reals (CrossHair RealBasedSymbolicFloat forced; identical to float64 below 2**53)",
]

TMAX = 100000          # clock / start range
DMAX = 1000            # duration range
XMAX = 1500            # extension range (|x| may exceed the duration)
JMAX_PLAIN = 3         # MonoTimer(retro=False): size of a backward jump (TimerRetroError formats it => realised)

OPS = ["elapsed", "remaining", "expired", "restart", "restart_s", "restart_d", "restart_sd",
       "repeat", "extend", "extend_x"]
KINDS = ["Timer", "MonoRetro", "MonoPlain", "StoreTimer"]


def exact_reals(sym):
    """Model every float that the code derives from a symbolic integer (max(0.0, t - start)) as an exact
    real: CrossHair otherwise forks each path into an experimental IEEE-754 model on which z3 answers
    `unknown`.  On integers below 2**53 int->float conversion, +, - and comparisons are exact, so both
    models agree (exact-time regime); counterexamples are replayed in plain CPython anyway."""
    if sym.symbolic:
        from crosshair.tracers import NoTracing
        from crosshair.statespace import context_statespace
        from crosshair.libimpl.builtinslib import ModelingDirector, RealBasedSymbolicFloat
        with NoTracing():
            context_statespace().extra(ModelingDirector).global_representations[float] = RealBasedSymbolicFloat


class Clock:
    """double for the `time` module as used by ioflo.aid.timing"""
    def __init__(self):
        self.now = 0
        self.reads = 0

    def time(self):
        self.reads += 1
        return self.now

    def sleep(self, x):
        pass


class M:
    """model state"""
    def __init__(self, start, dur, latest=None):
        self.start = start
        self.dur = dur
        self.stop = start + dur
        self.latest = latest


def mkstore():
    store = Store.__new__(Store)
    store.name = "s"
    store.stamp = 0
    store.house = None
    return store


def build(sym, kind, clk, store):
    """arbitrary valid pre-state"""
    start = sym.int("start", 0, TMAX)
    dur = sym.int("dur", 0, DMAX)
    if kind == "Timer":
        tm = timing.Timer.__new__(timing.Timer)
        m = M(start, dur)
    elif kind == "StoreTimer":
        tm = timing.StoreTimer.__new__(timing.StoreTimer)
        tm.store = store
        m = M(start, dur)
    else:
        tm = timing.MonoTimer.__new__(timing.MonoTimer)
        tm.retro = (kind == "MonoRetro")
        latest = sym.int("latest", 0, TMAX)
        tm.latest = latest
        m = M(start, dur, latest)
    tm.start = start
    tm.duration = dur
    tm.stop = start + dur
    return tm, m


def setclock(kind, clk, store, t):
    if kind == "StoreTimer":
        store.stamp = t
    else:
        clk.now = t


def step(sym, kind, tm, m, clk, store, op, k):
    """one operation at a fresh clock reading; returns ('read', value) / ('raised',) / ('ok',)"""
    t = sym.int("t%d" % k, 0, TMAX)
    setclock(kind, clk, store, t)
    mono = kind.startswith("Mono")
    jump = 0
    pre_start, pre_stop = m.start, m.stop
    if mono:
        delta = t - m.latest
        if delta < 0:
            sym.cover("backward-jump")
            if kind == "MonoPlain":
                sym.assume(delta >= -JMAX_PLAIN)   # the error message formats delta: it is enumerated
                try:
                    do(sym, tm, op, k, None)
                except excepting.TimerRetroError:
                    sym.cover("retro-raise")
                    return ("raised",)
                sym.fail("C42/%s/no-raise-on-backward-jump" % kind, op)
            jump = delta
            sym.assume(m.start + delta >= 0)
            m.start = m.start + delta
            m.stop = m.stop + delta
        m.latest = t
    args = {}
    try:
        ret = do(sym, tm, op, k, args)
    except excepting.TimerRetroError:
        sym.fail("C42/%s/raise-without-backward-jump" % kind, op)
    # ---- oracle ----
    if op == "elapsed":
        exp = t - m.start
        if exp < 0:
            exp = 0
        sym.check(ret >= 0, "C42/%s/elapsed-negative" % kind)
        sym.check(ret == exp, "C42/%s/elapsed-not-clock-minus-start" % kind)
    elif op == "remaining":
        exp = m.stop - t
        if exp < 0:
            exp = 0
        sym.check(ret >= 0, "C42/%s/remaining-negative" % kind)
        sym.check(ret == exp, "C42/%s/remaining-not-stop-minus-clock" % kind)
    elif op == "expired":
        exp = (t >= m.stop)
        sym.check(ret == exp, "C42/%s/expired-not-clock-reached-stop" % kind)
    elif op in ("restart", "restart_s", "restart_d", "restart_sd"):
        s = args.get("s")
        d = args.get("d")
        if (s is not None and s < 0) or (d is not None and d < 0):
            sym.cover("negative-arg")
            m.start, m.dur, m.stop = tm.start, tm.duration, tm.stop     # statement silent
        else:
            m.start = s if s is not None else t
            if d is not None:
                m.dur = d
            m.stop = m.start + m.dur
    elif op == "repeat":
        if jump:
            # previous stop: shifted (m.stop) or as it read before the call (pre_stop)
            ok = (tm.start == m.stop) or (tm.start == pre_stop)
            sym.check(ok, "C42/%s/repeat-not-at-previous-stop" % kind)
            m.start = tm.start
        else:
            m.start = m.stop
        m.stop = m.start + m.dur
    elif op in ("extend", "extend_x"):
        x = args.get("x")
        if x is None:
            x = m.dur
        nd = m.dur + x
        if jump:
            ok = (tm.start == m.start) or (tm.start == pre_start)
            sym.check(ok, "C42/%s/extend-changed-start" % kind)
            m.start = tm.start
        if nd < 0:
            sym.cover("negative-arg")
            sym.check(tm.start == m.start, "C42/%s/extend-changed-start" % kind)
            m.dur, m.stop = tm.duration, tm.stop                          # statement silent
        else:
            m.dur = nd
            m.stop = m.start + nd
    # post-state relation (reads must not move the timer; writers must land on the model)
    sym.check(tm.start == m.start, "C42/%s/%s/start-differs-from-model" % (kind, op))
    sym.check(tm.stop == m.stop, "C42/%s/%s/stop-differs-from-model" % (kind, op))
    if op not in ("elapsed", "remaining", "expired"):
        sym.check(ret[0] == tm.start and ret[1] == tm.stop, "C42/%s/%s/returned-pair-differs" % (kind, op))
        return ("ok",)
    return ("read", ret)


def do(sym, tm, op, k, args):
    if op == "elapsed":
        return tm.elapsed
    if op == "remaining":
        return tm.remaining
    if op == "expired":
        return tm.expired
    if op == "restart":
        return tm.restart()
    if op == "repeat":
        return tm.repeat()
    if op == "extend":
        return tm.extend()
    if op == "restart_s":
        s = sym.int("s%d" % k, -TMAX, TMAX)
        if args is not None:
            args["s"] = s
        return tm.restart(start=s)
    if op == "restart_d":
        d = sym.int("d%d" % k, -DMAX, DMAX)
        if args is not None:
            args["d"] = d
        return tm.restart(duration=d)
    if op == "restart_sd":
        s = sym.int("s%d" % k, -TMAX, TMAX)
        d = sym.int("d%d" % k, -DMAX, DMAX)
        if args is not None:
            args["s"] = s
            args["d"] = d
        return tm.restart(start=s, duration=d)
    if op == "extend_x":
        x = sym.int("x%d" % k, -XMAX, XMAX)
        if args is not None:
            args["x"] = x
        return tm.extend(x)
    raise AssertionError(op)


def with_clock(fn):
    def wrapped(sym, **params):
        exact_reals(sym)
        clk = Clock()
        old = timing.time
        timing.time = clk
        try:
            return fn(sym, clk, **params)
        finally:
            timing.time = old
    wrapped.__name__ = fn.__name__
    return wrapped


@with_clock
def h_step(sym, clk, kind):
    store = mkstore()
    tm, m = build(sym, kind, clk, store)
    op = pick_op(sym, "op", OPS)
    step(sym, kind, tm, m, clk, store, op, 0)
    sym.cover("done-" + op)
    return True


def pick_op(sym, name, ops):
    i = sym.int(name, 0, len(ops) - 1)
    for j, o in enumerate(ops):
        if i == j:
            return o
    raise AssertionError


@with_clock
def h_nondecreasing(sym, clk, mid):
    """MonoTimer(retro=True): elapsed never decreases while the timer is not restarted"""
    kind = "MonoRetro"
    store = mkstore()
    tm, m = build(sym, kind, clk, store)
    out = step(sym, kind, tm, m, clk, store, "elapsed", 0)
    first = out[1]
    for k, op in enumerate(mid):
        step(sym, kind, tm, m, clk, store, op, k + 1)
    out = step(sym, kind, tm, m, clk, store, "elapsed", len(mid) + 1)
    sym.cover("done")
    sym.check(out[1] >= first, "C42/MonoRetro/elapsed-decreased", "ops=elapsed,%s,elapsed" % ",".join(mid))
    return True


NONRESET = ["elapsed", "remaining", "expired", "extend", "extend_x"]


@with_clock
def h_seq(sym, clk, kind, first, K):
    """constructor at a symbolic clock, then K operations (the first one fixed per shard)"""
    store = mkstore()
    t0 = sym.int("tc", 0, TMAX)
    d0 = sym.int("dc", 0, DMAX)
    setclock(kind, clk, store, t0)
    if kind == "Timer":
        tm = timing.Timer(duration=d0)
        m = M(t0, d0)
    elif kind == "StoreTimer":
        tm = timing.StoreTimer(store, duration=d0)
        m = M(t0, d0)
    else:
        tm = timing.MonoTimer(duration=d0, retro=(kind == "MonoRetro"))
        m = M(t0, d0, t0)
        sym.check(tm.latest == t0, "C42/%s/ctor/latest-not-clock" % kind)
    sym.check(tm.start == t0 and tm.stop == t0 + d0 and tm.duration == d0, "C42/%s/ctor/start-stop" % kind)
    floor = None      # last elapsed read since the timer was (re)started
    for k in range(K):
        op = first if k == 0 else pick_op(sym, "op%d" % k, OPS)
        out = step(sym, kind, tm, m, clk, store, op, k)
        if out[0] == "raised":
            return True
        if op == "elapsed":
            if kind == "MonoRetro" and floor is not None:
                sym.check(out[1] >= floor, "C42/MonoRetro/elapsed-decreased", "within a %d-step sequence" % K)
            floor = out[1]
        elif op in ("restart", "restart_s", "restart_d", "restart_sd", "repeat"):
            floor = None
    sym.cover("done")
    return True


def obligations(tier):
    quick = tier == "quick"
    out = []
    bounds = dict(clock=[0, TMAX], start=[0, TMAX], duration=[0, DMAX], restart_start=[-TMAX, TMAX],
                  restart_duration=[-DMAX, DMAX], extension=[-XMAX, XMAX])
    for kind in KINDS:
        covers = ["negative-arg"] + ["done-" + op for op in OPS]
        if kind == "MonoPlain":
            covers += ["backward-jump", "retro-raise"]
        elif kind == "MonoRetro":
            covers += ["backward-jump"]
        out.append(Ob("step/%s" % kind, h_step, dict(kind=kind), hang_s=240, budget=240,
                      covers=covers, bounds=dict(bounds, ops=OPS, steps="1 (inductive) from any valid timer state")))
    mids = [[o] for o in NONRESET]
    if not quick:
        mids += [[a, b] for a in NONRESET for b in NONRESET]
    for mid in mids:
        out.append(Ob("mono/nondecreasing/" + "+".join(mid), h_nondecreasing, dict(mid=mid), hang_s=240, budget=90 if quick else 240,
                      covers=["done", "backward-jump"],
                      bounds=dict(bounds, steps="elapsed, %s, elapsed from any valid timer state" % mid)))
    K = 2 if quick else 3
    for kind in KINDS:
        for op in OPS:
            covers = ["done"]
            out.append(Ob("seq/%s/%s" % (kind, op), h_seq, dict(kind=kind, first=op, K=K), hang_s=240, budget=300 if quick else 2400,
                          covers=covers, bounds=dict(bounds, steps="constructor + %d operations" % K)))
    return out
