"""C14 -- building any script terminates with success or a script error (E1, selector-symbolic).

Three harness families, all on the REAL `Builder.build` (parse + `House.resolve`):

* mutate/<verb>   every documented command form of the verb (seed lines taken from the builder's
                  own doc strings) with ONE token-level mutation: replace token i / insert before
                  token i (token from the verb's alphabet) / delete token i / truncate after i.
                  Seed, operation, position and token are symbolic selectors.
* free/<verb>     the verb followed by k arbitrary tokens from the verb's alphabet (k = 2 quick /
                  up to 3 thorough; the alphabet contains the empty token, so shorter lines too).
* relations/*     frame-relation graphs: N frames whose `in` / `over` / `under` target is a symbolic
                  index over {none, every frame including itself, an undefined frame}; and
                  clone-relation graphs: an active framer clones a moot framer, and 2 or 3 moot framers'
                  frames clone moot framers (`aux x as t|mine`) including themselves and each other
                  (self-clones, 2-cycles and 3-cycles reachable from the active framer).

Oracle (exactly the statement): the call returns (True or False) or raises ParseError /
ResolveError / a ValueError coming out of the literal converters; anything else escaping, or the
CPU-time limit expiring twice (0.1 s, then 0.4 s user time for a build that takes ~1 ms), is a violation.

Nothing is genuinely symbolic here: script text is assembled from selector values and realised per
path, the Builder then runs untraced on concrete text.  The solver's role is the proof that the
constrained choice space was exhausted.
"""
from engine import Ob
from engine import flobuild as fb
from ioflo.base import excepting

PROPERTY = "C14"
ENGINE = "E1"
FUNCTIONS = ["ioflo.base.building.Builder.build", "Builder.dispatch", "Builder.build<Verb> (all verbs)",
             "Builder.make*/parse*/verify*", "ioflo.base.housing.House.resolve",
             "ioflo.base.framing.Framer.presolve", "Framer.resolve", "Framer.resolveMoots",
             "Frame.resolveOverLinks", "Frame.resolveUnderLinks", "Frame.traceOutline",
             "ioflo.base.acting.Act.resolve", "Act.resolvePath", "framing.resolveFramer/resolveFrame"]
ASSUMPTIONS = [
    "selector-symbolic only: script text is assembled from symbolic indices into concrete alphabets and realised "
    "per path; Builder.build runs under NoTracing() on concrete text; the solver proves that the bounded choice "
    "space was exhausted, it does not reason about the parser's string handling",
    "scripts = fixed valid prelude (house, two shares, logger+log+loggee, aux framer, moot framer, active framer "
    "with frames fa and fb in fa) + ONE generated command line (mutate/free), or a generated set of frame / "
    "clone relations (relations/*)",
    "token alphabets per verb = tokens of the verb's seed commands + a generic set (defined/undefined/wrong-kind "
    "names, absolute/relative/invalid paths, the name of an existing store node, numbers, malformed hex, quoted string, "
    "reserved connectives, a "
    "comparison); listed in bounds",
    "non-termination is detected by a limit of 0.1 s user-mode CPU time per build (ITIMER_VIRTUAL; a build takes "
    "about 1 ms), confirmed by repeating the interrupted build once under a 0.4 s limit; "
    "the engine's wall-clock backstop (hang_s) stays armed behind it",
    "a ValueError is accepted only when it is raised inside one of building.Convert2* (the literal converters) or is "
    "int()/float()/complex() rejecting a script literal ('invalid literal', 'could not convert'); "
    "ParseError and ResolveError are accepted wherever raised; every other exception class is a violation",
    "the script is read from a real temp file by the real Builder; `load` targets are relative to that directory",
    "console verbosity 0: the console.* message formatting that is skipped at verbosity 0 is outside the claim; "
    "message formatting done before raising is inside",
]

CPU_LIMIT = 0.1

PRELUDE = """house h1
init .sx with value 5
init .sm with a 1 b 2
logger lg to /tmp/verif_c14_nolog
  log lo on update
    loggee .sx as tg
framer fx be aux first xa
  frame xa
framer fm be moot first ma
  frame ma
framer ff be active first fa
  frame fa
  frame fb in fa
"""

GENERIC = ["", "fa", "fx", "fm", "lg", "zz", "me", ".sx", "sm", "framer", "a..b", "2", "0x1g", '"q s"', "in", "of", "is",
           "=="]     # "framer" is both a relation keyword and the name of an existing store node

CORE = ["fa", "lg", "zz", "me", ".sx", "a..b", "2", "of"]
FREE_CORE = ["fa", "fx", "lg", "zz", "me", ".sx", "sm", "framer", "a..b", "2", '"q s"', "of", "in"]

SEEDS = {
    "load": ["load zz.flo"],
    "house": ["house h2", "house h1"],
    "init": ["init .q with 5", "init .q with a 1 b 2", "init .q from .sx", "init a b in .q from a b in .sm",
             "init value in .q with 5", "init .sx with a 1", "init .q to 5"],
    "server": ["server sv at 0.5 be active rx h:1 tx :2 in front to /tmp/x per a 1 for a in .sm", "server sv"],
    "logger": ["logger l2 to /tmp/x at 0.5 be active in front flush 2 keep 3 cycle 10 size 100 reuse", "logger l2"],
    "log": ["log l3 to f as text on update", "log l3 on streak", "log lo"],
    "loggee": ["loggee .sx as t2", "loggee a b in .sm as t3 .sx", "loggee sx", "loggee .sx as tg"],
    "framer": ["framer f2 be active at 0.5 first q in front via .n", "framer f2 be moot via n of framer", "framer f2"],
    "first": ["first fa"],
    "frame": ["frame fc in fa via n", "frame fc via n of frame", "frame fc", "frame next"],
    "over": ["over fa"],
    "under": ["under xx", "under fb"],
    "next": ["next fa", "next"],
    "done": ["done me", "done fx lg", "done"],
    "timeout": ["timeout 5.0"],
    "repeat": ["repeat 2"],
    "native": ["native"], "benter": ["benter"], "enter": ["enter"], "recur": ["recur"], "exit": ["exit"],
    "precur": ["precur"], "renter": ["renter"], "rexit": ["rexit"],
    "print": ["print hello world"],
    "put": ["put 5 into .q", "put a 1 b 2 into a b in q of frame", 'put "s t" into q of framer fx',
            "put 5 into value in q of actor", "put 5 into me.q", "put 5 into q of frame fa of framer ff"],
    "inc": ["inc .sx with 1", "inc a b in .sm with a 1 b 2", "inc .sx from .sx", "inc a in .sm from a in q of frame fa"],
    "copy": ["copy .sx into .q", "copy a b in .sm into a b in q of frame me of framer me"],
    "set": ["set elapsed with 2.0", "set elapsed from .sx", "set recurred to 2", "set goal.q with 1",
            "set a b in goal.q from a b in .sm"],
    "aux": ["aux fx", "aux fm as mine", "aux fm as cl via me", "aux fm as c2 via n of frame",
            "aux fx if .sx == 5 and not elapsed >= 2", "aux fx if fx is done"],
    "rear": ["rear fm as mine be aux in frame fa", "rear fm in frame fa", "rear fm as c1 be active"],
    "raze": ["raze all in frame fa", "raze last", "raze first in frame"],
    "go": ["go fa", "go next if .sx == 5 +- 1", "go fa if not a in .sm >= b in .sm and elapsed >= goal",
           "go me if elapsed re me >= 2", "go fa if fx is done", "go fa if aux fx in frame fa in framer ff is done",
           "go fa if all in frame me is done", "go fa if any is done", "go fa if fx is started",
           "go fa if .sx is updated in frame fa by mk", "go fa if q of frame is changed", "go fa if .sx",
           "go fa if recurred >= 2", 'go fa if .sx == "q s"', "go fa if .sx == q of framer"],
    "let": ["let me if .sx == 5", "let if not .sx"],
    "do": ["do doer", "do doer param as nm at enter via n of frame with a 1 from a in .sm per k p for a in .sm "
                      "cum c 1 qua a in .sm", "do doer as my name per inode 5", "do doer via .n. per k .sx"],
    "bid": ["bid stop me", "bid start fx lg at 0.5", "bid run all at a in .sm", "bid abort", "bid ready fx at q of framer"],
    "ready": ["ready fx"], "start": ["start fx"], "stop": ["stop fx"], "run": ["run fx"], "abort": ["abort fx"],
    "use": ["use x"], "flo": ["flo x"], "give": ["give x"], "take": ["take x"],
}
VERBS = list(SEEDS)


def alphabet(verb):
    out = [t for t in GENERIC if t]
    for s in SEEDS[verb]:
        for t in s.split()[1:]:
            if t not in out:
                out.append(t)
    return out


# which construct a non-terminating build was interrupted in (by the ioflo functions on the stack)
HANG_CONSTRUCTS = [
    ("Frame.resolveOverLinks", "frame-relations/over-cycle-not-through-self-hangs"),
    ("Frame.traceOutline", "frame-relations/under-cycle-hangs"),
    ("Frame.traceHuman", "frame-relations/under-cycle-hangs"),
    ("Frame.traceHead", "frame-relations/over-cycle-hangs-in-trace"),
    ("Frame.traceHeadHuman", "frame-relations/over-cycle-hangs-in-trace"),
    ("House.presolvePresolvables", "clone-relations/moot-clone-cycle-hangs"),
]


def hang_construct(stack):
    for fn, construct in HANG_CONSTRUCTS:
        if fn in stack:
            return construct
    return "hang-in-" + (stack[-1] if stack else "unknown")


LIBRARY = ("Store.", "Share.", "Node.", "Data.", "Registrar.", "StoriedRegistrar.", "odict.")


def origin(r):
    """where an escaping exception comes from: the innermost ioflo function; when that is the store /
    registry layer (or a constructor), also the nearest builder / resolver function that called into it,
    because only that identifies the failing construct"""
    where = r.where or "unknown"
    stack = list(r.stack or [])
    lib = lambda f: f.startswith(LIBRARY) or f.endswith(".__init__")
    if lib(where):
        for f in reversed(stack[:-1]):
            if not lib(f):
                return "%s-via-%s" % (where, f)
    return where


def judge(sym, r, detail):
    """the C14 oracle on one Built record"""
    if r.hung:
        sym.fail("C14/" + hang_construct(r.stack),
                 "no result within %.1fs CPU (interrupted in %s): %s" % (CPU_LIMIT, r.where, detail))
    e = r.exc
    if e is None:
        sym.cover("built-ok" if r.ok else "returned-false")
        return True
    if isinstance(e, (excepting.ParseError, excepting.ResolveError)):
        sym.cover("script-error")
        return True
    if isinstance(e, ValueError):
        inner = (r.inner or (None, False))[0] or ""
        msg = str(e)
        if inner.startswith("Convert2") or msg.startswith("invalid literal for int()") \
                or msg.startswith("could not convert string to float") or msg.startswith("complex() arg"):
            sym.cover("script-error")
            return True
    sym.fail("C14/internal/%s-in-%s" % (type(e).__name__, origin(r)),
             "%s: %s <- %s" % (type(e).__name__, str(e).strip()[:120], detail))


def _tokens(seed):
    from ioflo.base.globaling import REO_Chunks
    return REO_Chunks.findall(seed)


SEED_TOKENS = {v: [_tokens(s) for s in SEEDS[v]] for v in SEEDS}


def h_mutate(sym, items, alphas, inserts):
    """items = [(verb, seed index)] handled by this shard; alphas[verb] = replacement tokens,
    inserts[verb] = tokens that may be inserted"""
    verb, si = items[fb.pick(sym, "item", len(items))] if len(items) > 1 else items[0]
    n = len(SEED_TOKENS[verb][si]) - 1
    op = sym.choice("op", 4)           # 0 replace, 1 insert, 2 delete, 3 truncate
    if op == 1:
        pos = fb.pick(sym, "pos", n + 1)
    else:
        sym.assume(n > 0)
        pos = fb.pick(sym, "pos", n)
    alpha = alphas[verb] if op == 0 else inserts[verb]
    ti = fb.pick(sym, "tok", len(alpha)) if op in (0, 1) else 0
    with fb.notrace(sym):
        toks = SEED_TOKENS[verb][si]
        body = list(toks[1:])
        tok = alpha[ti]
        if op == 0:
            same = tok == body[pos]
            body[pos] = tok
        elif op == 1:
            same = False
            body.insert(pos, tok)
        elif op == 2:
            same = False
            del body[pos]
        else:
            same = False
            del body[pos:]
        line = " ".join([toks[0]] + body)
        r = None if same else fb.build(PRELUDE + "    " + line + "\n", cpu_limit=CPU_LIMIT)
    sym.assume(r is not None)          # replacing a token by itself is not a mutation
    return judge(sym, r, line)


def h_free(sym, verbs, alphas, k):
    verb = verbs[fb.pick(sym, "verb", len(verbs))] if len(verbs) > 1 else verbs[0]
    alpha = alphas[verb]
    idx = []
    for i in range(k):
        t = fb.pick(sym, "t%d" % i, len(alpha))
        if t == 0:      # alpha[0] == "": end of line -> shorter sequences, no further selectors on this path
            break
        idx.append(t)
    with fb.notrace(sym):
        line = " ".join([verb] + [alpha[t] for t in idx])
        r = fb.build(PRELUDE + "    " + line + "\n", cpu_limit=CPU_LIMIT)
    return judge(sym, r, line)


# ---- frame relations ------------------------------------------------------------------------
def h_frames(sym, n, first_opt, kinds=("in", "over", "under")):
    """n frames f0..f(n-1); frame i gets one relation option:
       0 none | 1+j `frame fi in <Tj>` | 1+T+j `over <Tj>` | 1+2T+j `under <Tj>`; targets T = f0..f(n-1), zz
       (with kinds=("in","under") the `over` verb, which stores the same link as `in`, is left out)"""
    targets = ["f%d" % i for i in range(n)] + ["zz"]
    T = len(targets)
    K = len(kinds)
    lines = ["house h1", "framer ff be active first f0"]
    desc = []
    for i in range(n):
        o = first_opt if i == 0 else fb.pick(sym, "rel%d" % i, 1 + K * T)
        name = "f%d" % i
        if o == 0:
            lines.append("  frame %s" % name)
            desc.append(name)
        else:
            ki, j = divmod(o - 1, T)
            kind, t = kinds[ki], targets[j]
            if kind == "in":
                lines.append("  frame %s in %s" % (name, t))
            else:
                lines.append("  frame %s" % name)
                lines.append("    %s %s" % (kind, t))
            desc.append("%s %s %s" % (name, kind, t))
    text = "\n".join(lines) + "\n"
    with fb.notrace(sym):
        r = fb.build(text, cpu_limit=CPU_LIMIT)
    return judge(sym, r, " / ".join(desc))


def h_clones(sym, m, others=True, main=None):
    """main (active) framer ff + m moot framers m0..; ff's frame clones one moot; each moot's frame has an
    optional `aux <target> as <tag>` with target over the moots (incl. itself: self-clones, 2-cycles, ...
    m-cycles reachable from the non-moot framer) and, with others=True, the aux framer fx, ff and zz"""
    targets = ["m%d" % i for i in range(m)] + (["fx", "ff", "zz"] if others else [])
    lines = ["house h1", "framer fx be aux first xa", "  frame xa",
             "framer ff be active first fa", "  frame fa"]
    t0 = targets[sym.choice("main", len(targets)) if main is None else main]
    tag0 = ("c0", "mine")[sym.choice("maintag", 2)]
    lines.append("    aux %s as %s" % (t0, tag0))
    desc = ["ff: aux %s as %s" % (t0, tag0)]
    for i in range(m):
        lines += ["framer m%d be moot first a%d" % (i, i), "  frame a%d" % i]
        o = fb.pick(sym, "moot%d" % i, 1 + 2 * len(targets))
        if o:
            tagi, j = divmod(o - 1, len(targets))
            tag = ("t%d" % i, "mine")[tagi]
            lines.append("    aux %s as %s" % (targets[j], tag))
            desc.append("m%d: aux %s as %s" % (i, targets[j], tag))
    text = "\n".join(lines) + "\n"
    with fb.notrace(sym):
        r = fb.build(text, cpu_limit=CPU_LIMIT)
    return judge(sym, r, " / ".join(desc))


def _name(prefix, verbs, n, total):
    vs = []
    for v in verbs:
        if v not in vs:
            vs.append(v)
    return prefix + "+".join(vs) + ("" if total == 1 else "#%d" % n)


def obligations(tier):
    quick = tier == "quick"
    out = []
    union = []
    for verb in VERBS:
        for t in alphabet(verb):
            if t not in union:
                union.append(t)
    generic = [t for t in GENERIC if t]
    alphas = {v: (alphabet(v) if quick else union) for v in VERBS}
    inserts = {v: (generic if quick else union) for v in VERBS}     # quick: only generic tokens are inserted
    limit = 2500 if quick else 4000
    shards, cur, size = [], [], 0
    for verb in VERBS:
        for i, toks in enumerate(SEED_TOKENS[verb]):
            L = len(toks) - 1
            cost = L * len(alphas[verb]) + (L + 1) * len(inserts[verb]) + 2 * L
            if cur and size + cost > limit:
                shards.append(cur)
                cur, size = [], 0
            cur.append((verb, i))
            size += cost
    shards.append(cur)
    counts = {}
    for sh in shards:
        key = tuple(sorted(set(v for v, _ in sh), key=VERBS.index))
        counts[key] = counts.get(key, 0) + 1
    seen = {}
    for sh in shards:
        key = tuple(sorted(set(v for v, _ in sh), key=VERBS.index))
        n = seen.get(key, 0)
        seen[key] = n + 1
        vs = list(key)
        out.append(Ob(_name("mutate/", vs, n, counts[key]), h_mutate,
                      dict(items=sh, alphas={v: alphas[v] for v in vs}, inserts={v: inserts[v] for v in vs}),
                      budget=300 if quick else 2400, per_path=60, hang_s=60, max_fail_keys=60,
                      bounds=dict(seeds=[SEEDS[v][i] for v, i in sh], replacement_alphabet={v: alphas[v] for v in vs},
                                  inserted_tokens=generic if quick else "same as replacement alphabet",
                                  mutations="1 of replace/insert/delete/truncate at any position")))
    falphas = {}
    for verb in VERBS:
        alpha = alphabet(verb)
        own = [t for t in alpha if t not in GENERIC]
        if quick:
            falphas[verb] = [""] + own[:9] + [t for t in FREE_CORE if t not in own[:9]]
        else:   # the verb's own words first (connectives, keywords), then a core of generic tokens
            own = own[:11]
            falphas[verb] = [""] + own + [t for t in CORE if t not in own]
    k = 2 if quick else 3
    groups, cur, size = [], [], 0
    for verb in VERBS:
        cost = (len(falphas[verb]) - 1) ** k
        if cur and size + cost > (2500 if quick else 8000):
            groups.append(cur)
            cur, size = [], 0
        cur.append(verb)
        size += cost
    groups.append(cur)
    for g in groups:
        out.append(Ob(_name("free/", g, 0, 1), h_free, dict(verbs=g, alphas={v: falphas[v] for v in g}, k=k),
                      budget=300 if quick else 2400, per_path=60, hang_s=60, max_fail_keys=60,
                      bounds=dict(alphabets={v: falphas[v] for v in g}, tokens_after_verb="<= %d" % k)))
    nopt = 1 + 3 * 4
    for o in range(nopt):
        out.append(Ob("relations/frames3/first=%d" % o, h_frames, dict(n=3, first_opt=o),
                      budget=400 if quick else 1200, per_path=60, hang_s=60, max_fail_keys=60,
                      bounds=dict(frames=3, relation_per_frame="none | in T | over T | under T",
                                  targets="every frame incl. itself + undefined")))
    if not quick:
        for o in range(1 + 2 * 5):
            out.append(Ob("relations/frames4/first=%d" % o, h_frames, dict(n=4, first_opt=o, kinds=("in", "under")),
                          budget=2400, per_path=60, hang_s=60, max_fail_keys=60,
                          bounds=dict(frames=4, relation_per_frame="none | in T | under T (`over T` stores the same "
                                      "link as `in T`)", targets="every frame incl. itself + undefined")))
    cb = dict(clone_line_per_moot="none | aux T as tag | aux T as mine")
    out.append(Ob("relations/clones2", h_clones, dict(m=2),
                  budget=400 if quick else 900, per_path=60, hang_s=60, max_fail_keys=60,
                  bounds=dict(cb, moot_framers=2, targets="every moot incl. itself (self-clones and 2-cycles), an aux "
                              "framer, the main framer, undefined")))
    for t in range(3):
        out.append(Ob("relations/clones3/main=m%d" % t, h_clones, dict(m=3, others=False, main=t),
                      budget=400 if quick else 900, per_path=60, hang_s=60, max_fail_keys=60,
                      bounds=dict(cb, moot_framers=3, targets="every moot incl. itself (self-clones, 2- and 3-cycles)")))
    if not quick:
        for t in range(6):
            out.append(Ob("relations/clones3full/main=%d" % t, h_clones, dict(m=3, others=True, main=t),
                          budget=1500, per_path=60, hang_s=60, max_fail_keys=60,
                          bounds=dict(cb, moot_framers=3, targets="every moot incl. itself, an aux framer, the main "
                                      "framer, undefined")))
    return out
