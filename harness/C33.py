"""C33 -- server-sent events parse the same for any split and any line ending (E1).

An event stream is generated from a skeleton of logical lines (comments, multi-line data, id,
event, retry, unknown fields, lines without colon) by choosing an end-of-line kind per line
(CR / LF / CRLF, selector-symbolic) and is delivered to the real `httping.EventSource`
(`parseEvents` over `parseLine`) in up to three pieces (cut offsets: symbolic ints pinned by
solver bisection), `parse()` after every piece -- exactly what `Respondent.parseBody` does per
received chunk.  Oracle: an independent reference parser that follows the SSE field rules on
the complete byte stream; events (id, name, data), `retry` and `leid` must be equal for the
whole stream and for every split.
"""
import re

from engine import Ob
from engine.doubles_http import untraced, pick, raise_site, exc_text
from ioflo.aio.http import httping

PROPERTY = "C33"
ENGINE = "E1"
FUNCTIONS = ["ioflo.aio.http.httping.parseLine", "ioflo.aio.http.httping.EventSource.parseEvents",
             "ioflo.aio.http.httping.EventSource.parse", "ioflo.aio.http.httping.EventSource.makeParser"]
ASSUMPTIONS = [
    "streams come from the listed skeletons; every line gets one of CR / LF / CRLF (bounds say which assignments)",
    "every skeleton ends with a comment line, so a final bare CR never decides an event (a parser may legitimately wait after a trailing CR for a possible LF)",
    "no skeleton contains an event whose data lines are all empty and no `retry` value other than plain digits or plain letters (there ioflo's dispatch rule differs from the WHATWG text independently of splits / line endings; outside the statement)",
    "an event's name is '' when no `event:` field was given (ioflo's representation); id is the last id seen so far or None",
    "the stream is not closed; BOM handling (EventSource.parseEventStream is not used by EventSource.parse) is outside the claim",
    "parse() is called once after every received piece, empty pieces included",
    "cut offsets are pinned per path by solver bisection, EOL selectors are realised (both enumerated by the engine); the parser runs untraced",
]
LEVEL_NOTE = "selector-symbolic: solver proves the bounded skeleton x EOL-assignment x split space was exhausted; each path is a concrete run of the real parser against a reference parser"
TECHNIQUE = "bounded exhaustive enumeration driven by the CrossHair/z3 search tree; differential against an independent SSE reference parser"

EOLS = (b"\r", b"\n", b"\r\n")
END = b": z"     # closing comment line of every skeleton

SHORT3 = {   # 3 lines + closing comment: 81 EOL assignments each
    "comment-data": [b": c", b"data: a", b""],
    "multiline": [b"data: a", b"data:  b", b""],
    "id-data": [b"id: 7", b"data: x", b""],
}
SHORT4 = {   # 4 lines + closing comment: 243 EOL assignments each
    "two-events": [b"data: a", b"", b"data: b", b""],
    "id-event": [b"id: 7", b"event: e", b"data: x", b""],
    "retry-unknown": [b"retry: 30", b"foo: bar", b"data:\xc3\xa9", b""],
    "blank-runs": [b"", b"data: a", b"", b""],
    "nocolon-data": [b"data: a", b"data", b"", b"id"],
}
LONG = [b": hello", b"retry: 250", b"id: 1", b"event: up", b"data: a", b"data:  b", b"", b"retry: x1",
        b"data: c", b"", b"nocolon", b"event: gone", b"", b"id", b"data: d", b"data", b""]
LONG_Q = [b"retry: 250", b"id: 1", b"event: up", b"data: a", b"data:  b", b"", b"data: c", b"", b"id", b"data: d", b""]


# ---------------------------------------------------------------- reference (SSE field rules)
_LINE = re.compile(rb"([^\r\n]*)(\r\n|\r|\n)")


def reference(stream):
    """Independent parser of a complete stream -> (events, retry, last_id).  Lines end at the
    first CR LF pair / lone CR / lone LF; a trailing fragment without end-of-line is ignored."""
    events = []
    last_id = None
    retry = None
    name = ""
    data = []
    for m in _LINE.finditer(stream):
        line = m.group(1)
        if not line:                       # dispatch
            if data:
                text = "\n".join(data)
                if text:
                    events.append((last_id, name, text))
            name = ""
            data = []
            continue
        if line.startswith(b":"):
            continue
        field, colon, value = line.partition(b":")
        if value.startswith(b" "):
            value = value[1:]
        field = field.decode("utf-8")
        value = value.decode("utf-8")
        if field == "event":
            name = value
        elif field == "data":
            data.append(value)
        elif field == "id":
            last_id = value
        elif field == "retry":
            if value.isascii() and value.isdigit():
                retry = int(value)
    return events, retry, last_id


# ---------------------------------------------------------------- drive the real parser
def run_source(pieces):
    es = httping.EventSource(raw=bytearray())
    try:
        for p in pieces:
            es.raw.extend(p)
            es.parse()
    except Exception as ex:     # noqa: BLE001  a well-formed stream must not make the parser raise
        return ("raise", raise_site(ex), exc_text(ex))
    return ("ok", ([(e["id"], e["name"], e["data"]) for e in es.events], es.retry, es.leid))


_WHOLE = {}


def h(sym, lines, mode, cuts):
    lines = list(lines) + [END]
    k = len(lines)
    if mode == "all":
        kinds = [sym.choice("eol%d" % i, 3) for i in range(k)]
    else:   # one base kind, at most one line deviates
        base = sym.choice("eol_base", 3)
        pos = pick(sym, "eol_override_line", -1, k - 1)
        kinds = [base] * k
        if pos >= 0:
            kinds[pos] = (base + 1 + sym.choice("eol_override_kind", 2)) % 3
    with untraced(sym):
        stream = b"".join(l + EOLS[e] for l, e in zip(lines, kinds))
        n = len(stream)
    offs = []
    lo = 0
    for c in range(cuts):
        lo = pick(sym, "cut%d" % c, 0, n, atleast=lo)
        offs.append(lo)
    with untraced(sym):
        pieces = []
        a = 0
        for c in offs + [n]:
            pieces.append(stream[a:c])
            a = c
        exp = reference(stream)
        if stream not in _WHOLE:
            _WHOLE[stream] = run_source([stream])
        whole = _WHOLE[stream]
        split = run_source(pieces)
        mix = "uniform-eol" if len(set(kinds)) == 1 else "mixed-eol"
        shape = "stream=%r" % stream
        if whole[0] == "raise":
            sym.fail("C33/whole/raises-" + whole[1], "%s | %s" % (whole[2], shape))
        sym.check(whole[1] == exp, "C33/whole/differs-from-reference/" + mix,
                  "got %r expected %r | %s" % (whole[1], exp, shape))
        incrlf = any(0 < c < n and stream[c - 1:c + 1] == b"\r\n" for c in offs)
        where = "cut-inside-crlf" if incrlf else "cut-elsewhere"
        if split[0] == "raise":
            sym.fail("C33/split/raises-" + split[1], "%s | %s cuts=%r" % (split[2], shape, offs))
        sym.check(split[1] == whole[1], "C33/split/differs-from-whole/" + where,
                  "got %r whole %r | %s cuts=%r" % (split[1], whole[1], shape, offs))
        sym.cover("agrees")
        if exp[0]:
            sym.cover("events")
        if mix == "mixed-eol":
            sym.cover("mixed-eol")
        if any(0 < c < n for c in offs):
            sym.cover("real-split")
    return True


def obligations(tier):
    quick = tier == "quick"
    out = []

    def add(name, lines, mode, cuts):
        bounds = dict(skeleton=[l.decode("latin-1") for l in lines] + [END.decode()], pieces=cuts + 1,
                      eol_assignments="every line independently CR/LF/CRLF" if mode == "all"
                      else "one base kind for all lines, at most one line with another kind")
        out.append(Ob(name, h, dict(lines=list(lines), mode=mode, cuts=cuts), budget=900 if quick else 6000,
                      covers=["agrees", "events", "real-split"], bounds=bounds))

    for nm, lines in SHORT3.items():
        add("short/%s/all-eol/1cut" % nm, lines, "all", 1)
        if not quick:
            add("short/%s/all-eol/2cut" % nm, lines, "all", 2)
    add("short/two-events/all-eol/1cut", SHORT4["two-events"], "all", 1)
    add("short/comment-data/base+1/2cut", SHORT3["comment-data"], "base1", 2)
    if quick:
        add("long/base+1/1cut", LONG_Q, "base1", 1)
    else:
        for nm, lines in SHORT4.items():
            if nm != "two-events":
                add("short/%s/all-eol/1cut" % nm, lines, "all", 1)
            add("short/%s/base+1/2cut" % nm, lines, "base1", 2)
        add("long/base+1/1cut", LONG, "base1", 1)
        add("long/base+1/2cut", LONG[2:7], "base1", 2)
    return out
