"""C16 -- script layout does not change what is built (E1, selector-symbolic).

Six base programs (transitions / needs, do + relative addressing + quoted strings, aux + clones,
action contexts + markers + rear/raze, several framers with bids, a script-level mix with init).
A symbolic choice picks one command of the program and a set of layout edits for it (quick: any 1
or 2 edits; thorough adds: 1 edit plus an edit on the following command, and any 1..3 edits from a
reduced edit alphabet):

  indentation           0 / 1 / 3 / 7 spaces, a tab, two tabs
  backslash split       at any token boundary ("... \\" newline rest), with or without a blank
                        before the backslash
  connective split      the line is broken before any token that is a connective (to by with from
                        per for cum qua via as at in of on re is if be into and not +-)
  spacer                a blank line or a comment line between a command and its connective
                        continuation line
  inserted line         blank line / comment line / indented comment line before the command
  trailing comment      after the (last physical line of the) command; also after the first
                        physical line when a connective continuation follows

Oracle: the canonical script (one command per line) and the re-laid-out script must both build,
the two houses must serialise identically (everything incl. the acts' `human` text; line counts
excluded) and a 3-tick run must give the same recorded trace (tasker status / desire / active
outline and store contents per tick).
"""
from engine import Ob
from engine import flobuild as fb

# The connectives are the harness's own copy of the documented list (NOT imported from ioflo: a change of the
# builder's list must not silently change which splits are exercised).  A continuation line may also begin
# with a comparison: the builder joins every line that starts with a reserved word.
CONNECTIVES = ["to", "by", "with", "from", "per", "for", "cum", "qua", "via", "as", "at", "in", "of", "on", "re", "is",
               "if", "be", "into", "and", "not", "+-"]
COMPARISONS = ["==", "<", "<=", ">=", ">", "!="]
Connectives = CONNECTIVES + COMPARISONS

PROPERTY = "C16"
ENGINE = "E1"
FUNCTIONS = ["ioflo.base.building.Builder.tokenize", "Builder.build (line reader, connective look-ahead)",
             "ioflo.base.globaling.REO_Chunks", "Builder.dispatch", "ioflo.base.housing.House.resolve",
             "ioflo.base.framing.Framer.makeRunner (3-tick run of both builds)"]
ASSUMPTIONS = [
    "selector-symbolic only: program, command index and layout edits are symbolic selectors realised per path; "
    "Builder and the 3-tick run execute under NoTracing() on concrete text; the solver's role is the proof that "
    "the bounded edit space was exhausted",
    "connective-led splits use the harness's own copy of the documented connective list plus the comparison words "
    "(every line starting with a reserved word is joined by the builder); every one of them except `on` (log verb only) "
    "occurs at a split position of the base programs and is required as a cover label",
    "six fixed base programs (listed in bounds); no logger / server commands (their run touches the file system "
    "and sockets)",
    "edits on one command (quick: any 1 or 2 edits; thorough also: 1 edit + at most one edit on the next command, and "
    "any 1..3 edits from a reduced edit alphabet); splits only at token boundaries; comments never contain a "
    "backslash-newline; a failing edit set is minimised and the minimal set names the counterexample class",
    "line counts (Act.count) are excluded from the comparison: they legitimately change with the layout",
    "run = flobuild.run_ticks: every taskable is sent its desire once per tick in house order, stamps advance by "
    "0.125 s as floats (concrete run, no symbolic time); wall-clock shares .realtime/.datetime are masked",
]

P1 = """house h1
init .cnt with value 0
init .lim with value 2
framer main be active first top
  frame top
    go done if elapsed >= 5.0
    frame a in top
      put 0 into .x
      inc .cnt with 1
      go next if .cnt >= value in .lim and not .x == 3
    frame b in top
      inc .x with 2
      go a if .x < 4 +- 0
      go a if .x != 2 and .x <= 1 and .x > 9
      go next if .x >= 4
    frame c in top
      print reached "frame c" now
      go next
  frame done
    bid stop me
"""
P2 = """house h2
init .trial with depth 5 height 10
init .init with trial "trial"
framer test be active first t0 via .top.
  frame t0 via pop
    do doer param at enter via cop per flavor sweet
    do doer at enter per trial ".trial"
    do doer param as my name at recur with stuff 5 from depth in .trial
    do doer param at enter for trial in .init cum stuff 7 qua depth in .trial
    put 1 into zop of me
    put "a # b" into note of frame
    put 'say "hi"' into quote of framer
    go next if depth in .trial == 5
  frame t1
    copy depth height in .trial into d h in sink of frame t0
    set goal.dims with height 5 width 10
    go next if height in .trial >= height in goal.dims
  frame t2
    bid stop all
"""
P3 = """house h3
framer mainf be active first m0 via top
  frame m0
    aux sub as c1 via me
    aux sub as mine
    aux helper if .flag
    go next if aux c1 is done and all in frame me is done
  frame m1
    put true into .flag
    timeout 0.125
  frame m2
    let me if .flag
    go next if helper is done
  frame m3
    bid stop all
framer sub be moot first s0 via me.a
  frame s0
    put 2 into me.mop
    go next
  frame s1
    done me
framer helper be aux first h0
  frame h0
    inc .hcount with 1
    go next if .hcount >= 2
  frame h1
    done
"""
P4 = """house h4
framer f be active first a
  frame a
    enter
    put 1 into .e
    recur
    inc .r with 1
    exit
    put 9 into .x9
    native
    repeat 2
  frame b
    go next if .r is updated in frame b
    go c if .e is changed by mk
    precur
    inc .p with 1
  frame c
    rear mo as mine be aux in frame d
    go next
  frame d
    go next if elapsed >= 0.125
  frame e
    raze all in frame d
    bid stop me
framer mo be moot first x
  frame x
    inc .mo with 1
"""
P5 = """house h5
init framer.worker.count with value 0
framer boss be active at 0.0 first b0 in front
  frame b0
    bid start worker at 0.25
    ready idler
    go next
  frame b1
    go next if worker is started
    go next if worker is running
  frame b2
    bid stop worker
    bid stop me
framer worker be inactive first w0 in back
  frame w0
    inc count of framer with 1
    go next if count of framer >= 2
  frame w1
    put "w1" into where of frame of framer
framer idler be slave first i0
  frame i0
    put 1 into .idle
"""
P6 = """house h6
init .a.b with x 1 y 2
init .c from .a.b
init x in .d from y in .a.b
framer g be active first over1
  frame over1
    go quit if recurred >= 3
    frame under1 in over1
      set elapsed with 0.25
      set recurred to 1
      go next if elapsed >= goal and recurred re me >= 0
    frame under2 in over1
      next quit
      put x 3 y 4 into x y in .a.b
      go next if x in .a.b == 3 and y in .a.b == 4
  frame quit
    done me
    bid stop all
"""
PROGRAMS = [P1, P2, P3, P4, P5, P6]

INDENTS = ["", " ", "   ", "       ", "\t", "\t\t"]
BEFORE = ["\n", "# a comment line\n", "      # indented comment \"q\n"]
TRAIL = [" # trailing", " #t 'x \""]
SPACER = ["\n", "   # between command and continuation\n"]


def commands(program):
    """[(indent, tokens)] one per command line of the canonical program"""
    from ioflo.base.globaling import REO_Chunks
    out = []
    for ln in program.splitlines():
        body = ln.lstrip(" ")
        out.append((ln[:len(ln) - len(body)], REO_Chunks.findall(body)))
    return out


COMMANDS = [commands(p) for p in PROGRAMS]


def edits_for(tokens, reduced=False):
    """the edit alphabet of one command: (attr, value) pairs; two edits combine iff attrs differ"""
    if reduced:     # for triples: one value per non-break attribute class that behaves differently
        E = [("indent", 1), ("indent", 4)]
        for j in range(1, len(tokens)):
            E.append((("break", j), "bs "))
            if tokens[j] in Connectives:
                E.append((("break", j), "conn"))
        return E + [("spacer", 0), ("spacer", 1), ("before", 1), ("trail", 1), ("trail1", 0)]
    E = [("indent", i) for i in range(1, len(INDENTS))]
    for j in range(1, len(tokens)):
        E.append((("break", j), "bs "))       # backslash with a blank before it
        E.append((("break", j), "bs"))        # backslash glued to the token
        if tokens[j] in Connectives:
            E.append((("break", j), "conn"))
    E += [("spacer", i) for i in range(len(SPACER))]
    E += [("before", i) for i in range(len(BEFORE))]
    E += [("trail", i) for i in range(len(TRAIL))]
    E += [("trail1", 0)]
    return E


def render_command(indent, tokens, attrs):
    ind = INDENTS[attrs["indent"]] if "indent" in attrs else indent
    breaks = sorted((k[1], v) for k, v in attrs.items() if isinstance(k, tuple))
    pieces, start = [], 0
    for j, kind in breaks:
        pieces.append((tokens[start:j], kind))
        start = j
    pieces.append((tokens[start:], None))
    out = BEFORE[attrs["before"]] if "before" in attrs else ""
    first_conn = bool(breaks) and breaks[0][1] == "conn"
    for n, (toks, kind) in enumerate(pieces):
        line = (ind if n == 0 else ind + "      ") + " ".join(toks)
        last = n == len(pieces) - 1
        if kind == "bs ":
            line += " \\"
        elif kind == "bs":
            line += "\\"
        else:   # physical end of a logical line (a connective continuation or nothing follows)
            if last and "trail" in attrs:
                line += TRAIL[attrs["trail"]]
            elif not last and n == 0 and "trail1" in attrs:
                line += " # after first part"
        out += line + "\n"
        if kind == "conn" and "spacer" in attrs:
            out += SPACER[attrs["spacer"]]
    return out


def render(cmds, edits_by_index):
    out = ""
    for i, (indent, tokens) in enumerate(cmds):
        out += render_command(indent, tokens, edits_by_index.get(i, {}))
    return out


def observe(text):
    r = fb.build(text, cpu_limit=5.0)
    if r.hung:
        return ("hang",)
    if r.exc is not None:
        return ("raise", type(r.exc).__name__, r.message()[:200])
    if not r.ok:
        return ("false",)
    dump = fb.dump_houses(r.houses, humans=True, counts=False)
    trace = fb.run_ticks(r.houses, 3)
    return ("ok", dump, trace)


_CANON = {}


def canonical(pi):
    if pi not in _CANON:
        _CANON[pi] = observe(PROGRAMS[pi])
    return _CANON[pi]


def edit_label(attr, value):
    if isinstance(attr, tuple):
        return "break:" + value.strip()
    if attr == "indent":
        return "indent:tab" if "\t" in INDENTS[value] else "indent:spaces"
    return attr


def h(sym, pi, ci, nedits, nextedit, reduced=False):
    cmds = COMMANDS[pi]
    E = edits_for(cmds[ci][1], reduced)
    picked = []
    lo = 0
    for n in range(nedits):
        # strictly increasing indices into E; the value len(E) means "no further edit"
        e = lo + fb.pick(sym, "e%d" % n, len(E) - lo + (1 if n else 0))
        if e >= len(E):
            break
        picked.append(e)
        lo = e + 1
        if lo >= len(E):
            break
    e2 = None
    if nextedit and ci + 1 < len(cmds):
        E2 = edits_for(cmds[ci + 1][1])
        k = fb.pick(sym, "n0", len(E2) + 1)
        if k:
            e2 = E2[k - 1]
    with fb.notrace(sym):
        attrs = {}
        ok = True
        for e in picked:
            a, v = E[e]
            if a in attrs:
                ok = False     # two values for the same attribute: not a combination
            attrs[a] = v
        if "spacer" in attrs and not any(isinstance(k, tuple) and v == "conn" for k, v in attrs.items()):
            ok = False         # a spacer needs a connective continuation to sit in front of
        if "trail1" in attrs:
            br = sorted((k[1], v) for k, v in attrs.items() if isinstance(k, tuple))
            if not br or br[0][1] != "conn":
                ok = False
        ebi = {ci: attrs}
        if e2 is not None:
            a2 = {e2[0]: e2[1]}
            if e2[0] in ("spacer", "trail1"):
                ok = False
            ebi[ci + 1] = a2
        if ok:
            canon = canonical(pi)
            text = render(cmds, ebi)
            got = observe(text)
        else:
            canon = got = text = None
    sym.assume(ok)
    sym.check(canon[0] == "ok", "C16/canonical-program-does-not-build", str(canon[:3])[:200])
    sym.note("script", text)
    for k, v in attrs.items():
        if isinstance(k, tuple) and v == "conn":
            sym.cover("split-before:" + cmds[ci][1][k[1]])
    symptom = symptom_of(canon, got)
    if symptom is None:
        sym.cover("same")
        return True
    with fb.notrace(sym):
        # localise: the smallest subset of the edits that already changes the result names the class
        items = [(ci, a, v) for a, v in sorted(attrs.items(), key=repr)]
        if e2 is not None:
            items.append((ci + 1, e2[0], e2[1]))
        best = items
        import itertools
        found = False
        for size in range(1, len(items)):
            for sub in itertools.combinations(items, size):
                sub_ebi = {}
                for c, a, v in sub:
                    sub_ebi.setdefault(c, {})[a] = v
                if any("spacer" in d and not any(isinstance(k, tuple) and v == "conn" for k, v in d.items())
                       for d in sub_ebi.values()):
                    continue
                if symptom_of(canon, observe(render(cmds, sub_ebi))) is not None:
                    best, found = list(sub), True
                    break
            if found:
                break
        label = "+".join(sorted(set(("next-" if c != ci else "") + edit_label(a, v) for c, a, v in best)))
        shown = "".join(render_command(*cmds[i], ebi.get(i, {})) for i in sorted(ebi))
    sym.fail("C16/%s/%s" % (label, symptom[0]), "%r: %s" % (shown, symptom[1]))


def symptom_of(canon, got):
    if got[0] != "ok":
        return ("relaid-script-does-not-build", " ".join(map(str, got))[:160])
    if got[1] != canon[1]:
        return ("built-house-differs", fb.first_diff(canon[1], got[1])[:200])
    if got[2] != canon[2]:
        return ("run-trace-differs", fb.first_diff(canon[2], got[2])[:200])
    return None


def obligations(tier):
    quick = tier == "quick"
    out = []
    common = dict(indents=INDENTS, before=BEFORE, trailing=TRAIL, spacer=SPACER, ticks=3)
    for pi, cmds in enumerate(COMMANDS):
        block = 3
        for c0 in range(1, len(cmds), block):     # command 0 is `house`
            c1 = min(c0 + block, len(cmds))
            name = "p%d/cmd%d-%d" % (pi + 1, c0, c1 - 1)
            prog = PROGRAMS[pi].splitlines()
            words = sorted(set(t for ci in range(c0, c1) for t in cmds[ci][1][1:] if t in Connectives))
            out.append(Ob("layout/" + name, h_block, dict(pi=pi, c0=c0, c1=c1, nedits=2, nextedit=False),
                          budget=400 if quick else 1500, per_path=60, covers=["same"] + ["split-before:" + w for w in words],
                          bounds=dict(common, program=prog, edits_on_one_command="any 1 or 2")))
            if not quick:
                out.append(Ob("cross/" + name, h_block, dict(pi=pi, c0=c0, c1=c1, nedits=1, nextedit=True),
                              budget=1500, per_path=60, covers=["same"],
                              bounds=dict(common, program=prog, edits="1 on the command + 0..1 on the next command")))
                out.append(Ob("triple/" + name, h_block, dict(pi=pi, c0=c0, c1=c1, nedits=3, nextedit=False, reduced=True),
                              budget=2400, per_path=60, covers=["same"],
                              bounds=dict(common, program=prog, edits_on_one_command="any 1..3 from the reduced edit "
                                          "alphabet (1 blank / tab indent, every backslash and connective split, both "
                                          "spacers, comment line before, trailing comments)")))
    return out


def h_block(sym, pi, c0, c1, nedits, nextedit, reduced=False):
    ci = c0 + (sym.choice("cmd", c1 - c0) if c1 - c0 > 1 else 0)
    return h(sym, pi, ci, nedits, nextedit, reduced)
