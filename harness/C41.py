"""C41 -- crc16 / crc64 compute CRC-16/GENIBUS and CRC-64/WE (engine E2, source -> SMT).

The source of `ioflo.aid.checking.crc16/crc64` is re-read and translated to bit-vector
terms on every run.  Two kinds of obligations:

(i)  inductive step ("<fn>/step"): the function is dissected at its single per-byte `for`
     loop.  Proved: the prelude leaves the input bytes untouched and initialises the state
     to the reference's initial register; the loop body, from an ARBITRARY in-range state
     and an arbitrary byte, yields the state of the reference's MSB-first step (and stays in
     range); the epilogue, from an arbitrary in-range state, returns the reference's final
     value.  Together: equality with the reference for byte strings of any length.
     The RESULT LAYOUT is part of every claim: crc16 must return exactly two big-endian bytes
     for every register value (also with a zero high byte, also for the empty input), crc64
     exactly two halves below 2^32.  The return expression is translated with shape forking (a
     bytify-style `while n:` yields one path per length and the short ones fail the claim); if
     it is not translatable the epilogue is executed concretely on all 65 536 register values
     (crc16) and the real function is probed on solver-chosen inputs with zero bytes -- an
     untranslatable return never passes silently (violation, or INCONCLUSIVE).
     Shape tolerance: the loop state may be the expected variables (crc / crctop+crcbot) or ONE
     full-width register of any name; the result assembly is translated with IEEE semantics for
     `/`, int(float) and `%` (FP(11,53)), so a float division that rounds a 64-bit register to 53
     bits is refuted.  A counterexample register value is turned into an input by running the CRC
     backwards (8 forged bytes, GF(2) elimination on the reference) and replayed on the real function.
(ii) whole function ("<fn>/whole/N", N from 0): the function unrolled on N symbolic bytes
     equals the reference in value and layout for all 256^N inputs: crc16 N <= 4 (quick) / N <= 8 (thorough); crc64 N <= 1 /
     N <= 2 only -- the XOR-heavy 64-bit equivalence is not decided by z3 beyond that (measured:
     N = 2 takes 14-40 s, N = 3 and 4 `unknown` at 120 s); for crc64 the any-length claim rests
     on the step obligation.  Thorough: an `unsat` sample is re-decided by cvc5 and z3 4.8.12.

The reference is an independent MSB-first shift register on BitVec(16) / BitVec(64)
(poly 0x1021 / 0x42F0E1EBA9EA3693, init and xorout all ones, no reflection); a table-driven
python implementation of the same catalogue entries is used for replay, and both are pinned
to the catalogue check values of "123456789" (0xD64E, 0x62EC59E3F1A4F00A).
"""
import ast
import struct

import z3

from engine import Ob
from engine import astsmt as A
from ioflo.aid import checking

PROPERTY = "C41"
ENGINE = "E2"
TECHNIQUE = "source->SMT translation (bit-vectors), inductive per-byte step + bounded unrolling"
LEVEL_TEXT = "source->SMT, bit-vectors: inductive per-byte step from an arbitrary register (covers byte strings of any length) plus whole-function unrolling, crc16 <= 4 bytes quick / 8 thorough, crc64 <= 1 / 2 bytes; every query unsat"
LEVEL_NOTE = "trusted: astsmt translator (validated on every run against the real functions incl. the catalogue check string), struct.pack model, z3 5.1 (thorough: unsat sample re-decided by cvc5 and z3 4.8.12)"
FUNCTIONS = ["ioflo.aid.checking.crc16", "ioflo.aid.checking.crc64"]
ASSUMPTIONS = [
    "struct.pack('!H', x) is modelled as the two big-endian bytes of x with side condition 0 <= x <= 0xffff "
    "(model validated against the real function on every run)",
    "bytearray(inpkt) is modelled as the list of the input bytes (0..255)",
    "python ints are signed bit-vectors of 32 (crc16) / 40 (crc64) bits; every <<, + carries a checked no-overflow side condition",
    "step obligation: loop state = the variables assigned in the loop body that are live on loop entry "
    "(crc16: crc in [0,2^16); crc64: crctop, crcbot in [0,2^32)); a counterexample of the step is concretised "
    "to a whole input of 3 / 9 bytes before it is reported",
    "whole-function obligations are bounded: crc16 N <= 4 bytes (quick) / 8 (thorough); crc64 N <= 1 (quick) / 2 (thorough)",
]

SPEC = {
    "crc16": dict(fn="crc16", width=16, poly=0x1021, init=0xffff, xorout=0xffff, bvw=32,
                  state=[("crc", 16)], check=0xD64E, name="CRC-16/GENIBUS"),
    "crc64": dict(fn="crc64", width=64, poly=0x42F0E1EBA9EA3693, init=(1 << 64) - 1, xorout=(1 << 64) - 1, bvw=40,
                  state=[("crctop", 32), ("crcbot", 32)], check=0x62EC59E3F1A4F00A, name="CRC-64/WE"),
}


# ----------------------------------------------------------------------------- references

def table_crc(data, width, poly, init, xorout):
    """table-driven MSB-first CRC (independent python reference used for replay)"""
    top = 1 << (width - 1)
    mask = (1 << width) - 1
    table = []
    for b in range(256):
        r = b << (width - 8)
        for _ in range(8):
            r = ((r << 1) ^ poly) & mask if r & top else (r << 1) & mask
        table.append(r)
    crc = init
    for byte in data:
        crc = (table[((crc >> (width - 8)) ^ byte) & 0xff] ^ (crc << 8)) & mask
    return crc ^ xorout


def expected_result(which, data):
    sp = SPEC[which]
    v = table_crc(data, sp["width"], sp["poly"], sp["init"], sp["xorout"])
    if which == "crc16":
        return [v >> 8, v & 0xff]
    return [v >> 32, v & 0xffffffff]


def real_result(which, data):
    r = getattr(checking, which)(bytes(data))
    return list(r)


def ref_step(sp, state, byte):
    """reference register after one byte, MSB first (z3 BitVec(width))"""
    w = sp["width"]
    crc = state ^ (z3.ZeroExt(w - 8, byte) << (w - 8))
    top = z3.BitVecVal(1 << (w - 1), w)
    for _ in range(8):
        crc = z3.If((crc & top) != 0, (crc << 1) ^ z3.BitVecVal(sp["poly"], w), crc << 1)
    return crc


def ref_whole(sp, bs, poly=None):
    sp = dict(sp, poly=poly if poly is not None else sp["poly"])
    crc = z3.BitVecVal(sp["init"], sp["width"])
    for b in bs:
        crc = ref_step(sp, crc, b)
    return crc ^ z3.BitVecVal(sp["xorout"], sp["width"])


# ----------------------------------------------------------------------------- translation

def pack_model(I, args, kw):
    if len(args) != 2 or args[0] != "!H" or kw:
        raise A.Unsupported("struct.pack form %r" % (args[:1],))
    x = args[1]
    if not A.is_sym(x):
        return list(struct.pack("!H", x))
    I.add_side("struct.pack('!H', x) needs 0 <= x <= 0xffff", z3.And(x >= 0, x <= 0xffff))
    w = x.size()
    return [z3.ZeroExt(w - 8, z3.Extract(15, 8, x)), z3.ZeroExt(w - 8, z3.Extract(7, 0, x))]


def interp(sess, sp):
    # int / int, int(float) and % by a constant are translated with IEEE double semantics (FP(11,53))
    return sess.interp(num="bv", bvw=sp["bvw"], intrinsics={struct.pack: pack_model}, int_truediv_fp=True)


def spec_for(which):
    """SPEC entry adapted to the shape of the code: the loop state (names assigned both before and inside
    the per-byte loop) may be the expected variables or ONE full-width register of any name."""
    sp = dict(SPEC[which])
    try:
        _param, prelude, loop, _epilogue = dissect(getattr(checking, which))
    except A.Unsupported:
        return sp

    def stored(stmts):
        return {n.id for st in stmts for n in ast.walk(st) if isinstance(n, ast.Name) and isinstance(n.ctx, ast.Store)}
    state = sorted((stored(loop.body) & stored(prelude)) - {loop.target.id})
    if state != sorted(v for v, _ in sp["state"]) and len(state) == 1:
        sp["state"] = [(state[0], sp["width"])]
        sp["bvw"] = max(sp["bvw"], sp["width"] + 8)
    return sp


def register_of(sp, data):
    """reference register (before the final xor) after the bytes `data`"""
    return table_crc(data, sp["width"], sp["poly"], sp["init"], 0)


def forge(sp, target):
    """width/8 bytes after which the reference register equals `target`: the register is an affine function
    of the message bits over GF(2) and a bijection for width/8 bytes -> Gaussian elimination"""
    w = sp["width"]
    n = w // 8
    f = lambda x: register_of(sp, x.to_bytes(n, "big"))
    c = f(0)
    cols = [f(1 << i) ^ c for i in range(w)]
    rows = []
    for j in range(w):
        mask = 0
        for i in range(w):
            mask |= ((cols[i] >> j) & 1) << i
        rows.append([mask, ((target ^ c) >> j) & 1])
    piv = {}
    r = 0
    for i in range(w):
        k = next((q for q in range(r, w) if (rows[q][0] >> i) & 1), None)
        if k is None:
            continue
        rows[r], rows[k] = rows[k], rows[r]
        for q in range(w):
            if q != r and (rows[q][0] >> i) & 1:
                rows[q][0] ^= rows[r][0]
                rows[q][1] ^= rows[r][1]
        piv[i] = r
        r += 1
    x = 0
    for i, q in piv.items():
        x |= rows[q][1] << i
    data = x.to_bytes(n, "big")
    return data if register_of(sp, data) == target else None


def normalize(res):
    """concrete bytes / bytearray results become the list model"""
    return list(res) if isinstance(res, (bytes, bytearray)) else res


def result_as_bv(sp, res):
    """(the function result as one BitVec(width), condition that it has the required layout).
    Layout is part of the claim: crc16 must be EXACTLY two bytes (big-endian, also when the high byte is
    zero and for the empty input), crc64 exactly two halves below 2^32.  A result of any other shape
    yields (None, False): the claim fails on that shape path and the model is replayed on the real code."""
    res = normalize(res)
    k = 8 if sp["fn"] == "crc16" else 32
    if not isinstance(res, (list, tuple)) or len(res) != 2 or any(isinstance(v, bool) or not (A.is_sym(v) or isinstance(v, int))
                                                                  for v in res):
        return None, z3.BoolVal(False)
    terms, inrange = [], []
    for v in res:
        if A.is_sym(v) and not z3.is_bv(v):
            return None, z3.BoolVal(False)
        v = v if A.is_sym(v) else z3.BitVecVal(v, sp["bvw"])
        inrange.append(z3.And(v >= 0, z3.ULT(v, 1 << k)))
        terms.append(z3.Extract(k - 1, 0, v))
    return z3.Concat(*terms), z3.And(*inrange)


def claim_of(sp, res, want):
    """claim and deliberately wrong twin for one result (of one shape path) against reference value `want`"""
    out, ok = result_as_bv(sp, res)
    if out is None:
        return z3.BoolVal(False), None
    return z3.And(ok, out == want), z3.And(ok, out == (want ^ 1))


def translate_whole(sess, sp, n):
    """shape paths of the whole function on n symbolic bytes (the return expression may fork, e.g. a
    bytify-style `while n:`); returns (byte variables, [Path])"""
    fn = getattr(checking, sp["fn"])
    bs = [z3.BitVec("b%d" % i, 8) for i in range(n)]
    paths = A.explore(lambda: interp(sess, sp),
                      lambda I: normalize(I.call(fn, [[z3.ZeroExt(sp["bvw"] - 8, b) for b in bs]])))
    for p in paths:
        sess.absorb(p.interp)
    return bs, paths


KEY = "C41/%s/differs-from-%s"


def differing_input(sess, sp, n):
    """an n-byte input on which the translated function differs from the reference (value or layout), or None"""
    bs, paths = translate_whole(sess, sp, n)
    for p in paths:
        claim, _ = claim_of(sp, p.result, ref_whole(sp, bs))
        r, m, _ = sess.check(*(p.assume + p.interp.defs + [z3.Not(claim)]))
        if r == "sat":
            return bytes(A.model_value(m, b) & 0xff for b in bs)
    return None


def describe(which, data):
    sp = SPEC[which]
    try:
        got = real_result(which, data)
    except Exception as e:
        got = "raised %r" % (e,)
    return "%s(bytes.fromhex('%s')) -> %s, %s is %s" % (which, bytes(data).hex(), got, sp["name"], expected_result(which, data))


def probe_real(sess, which, n):
    """fallback when the return expression is not translatable: run the REAL function on inputs chosen
    (by the solver, on the reference) to have a zero high byte / zero low byte / small halves, plus seeded
    random ones.  A mismatch is reported (replayable); no mismatch proves nothing (caller stays inconclusive)."""
    sp = SPEC[which]
    w = sp["width"]
    bs = [z3.BitVec("b%d" % i, 8) for i in range(n)]
    ref = ref_whole(sp, bs)
    half = w // 2
    targets = [z3.Extract(w - 1, w - 8, ref) == 0, z3.Extract(7, 0, ref) == 0, z3.Extract(w - 1, half, ref) == 0,
               z3.Extract(half - 1, half - 8, ref) == 0, z3.Extract(half + 7, half, ref) == 0]
    r = A.rng(sess.params, 410 + n)
    cands = [bytes(r.randrange(256) for _ in range(n)) for _ in range(64)] + [bytes(n), bytes([255] * n)]
    sess.solver.set("timeout", 5000)
    try:
        for t in targets if n else []:
            rr, m, _ = sess.check(t)
            if rr == "sat":
                cands.append(bytes(A.model_value(m, b) & 0xff for b in bs))
    finally:
        sess.solver.set("timeout", sess.timeout_ms)
    for data in cands:
        try:
            bad = real_result(which, data) != expected_result(which, data)
        except Exception:
            bad = True
        if bad:
            sess.res["paths"] += 1
            sess.fail(KEY % (which, sp["name"]), {"fn": which, "data": data.hex()}, describe(which, data))
            return True
    return False


def whole_query(sess, which, n, what):
    """prove result == reference (value AND layout) for all n-byte inputs"""
    sp = spec_for(which)
    key = KEY % (which, sp["name"])
    if n == 0:
        # the domain has one element: decided by running the real function (the translation below is
        # still required to agree with it)
        sess.res["paths"] += 1
        try:
            same = real_result(which, b"") == expected_result(which, b"")
        except Exception:
            same = False
        if same:
            sess.res["confirmed"] += 1
        else:
            sess.fail(key, {"fn": which, "data": ""}, describe(which, b""))
    try:
        bs, paths = translate_whole(sess, sp, n)
    except A.Unsupported:
        if not probe_real(sess, which, n):
            raise
        return
    # translator validation: catalogue-style and seeded random vectors of this length
    r = A.rng(sess.params, n)
    cases = [tuple(b"123456789"[:n]), tuple([0] * n), tuple([255] * n)] + \
            [tuple(r.randrange(256) for _ in range(n)) for _ in range(12)]
    sess.validate("%s on %d bytes" % (which, n), paths, bs, cases, lambda *c: real_result(which, c))
    if not sess.prove_exhaustive(paths, what):
        return

    def vals(m):
        return {"fn": which, "data": bytes(A.model_value(m, b) & 0xff for b in bs).hex()}

    def detail(m, v):
        return describe(which, bytes.fromhex(v["data"]))

    for p in paths:
        claim, wrong = claim_of(sp, p.result, ref_whole(sp, bs))
        if wrong is not None and n:       # a more telling wrong oracle: the reference with a polynomial bit flipped
            out, ok = result_as_bv(sp, p.result)
            wrong = z3.And(ok, out == ref_whole(sp, bs, poly=sp["poly"] ^ 2))
        sess.prove(key, claim, assume=p.assume, defs=p.interp.defs, side=p.interp.side, wrong=wrong,
                   vals=vals, detail=detail, what=what)


def ob_whole(sess, params):
    whole_query(sess, params["fn"], params["n"], "whole function, %d bytes" % params["n"])


def dissect(fn):
    fdef = A.fn_ast(fn)
    body = [s for s in fdef.body if not (isinstance(s, ast.Expr) and isinstance(s.value, ast.Constant))]
    loops = [i for i, s in enumerate(body) if isinstance(s, ast.For)]
    if len(loops) != 1 or any(isinstance(x, (ast.While, ast.For)) for s in body[:loops[0]] + body[loops[0] + 1:]
                              for x in ast.walk(s)):
        raise A.Unsupported("%s is not prelude / one per-byte for loop / epilogue" % fdef.name)
    i = loops[0]
    loop = body[i]
    if not isinstance(loop.iter, ast.Name) or not isinstance(loop.target, ast.Name) or loop.orelse:
        raise A.Unsupported("per-byte loop of %s has an unexpected header" % fdef.name)
    if len(fdef.args.args) != 1:
        raise A.Unsupported("signature of %s" % fdef.name)
    return fdef.args.args[0].arg, body[:i], loop, body[i + 1:]


def ob_step(sess, params):
    which = params["fn"]
    sp = spec_for(which)
    fn = getattr(checking, which)
    g = fn.__globals__
    W = sp["bvw"]
    param, prelude, loop, epilogue = dissect(fn)
    key = KEY % (which, sp["name"])
    sym = {}

    def concretize(m):
        # a step counterexample speaks about an arbitrary register value; turn it into a real input.
        # 1. run the CRC backwards: forge width/8 bytes after which the reference register equals the model's
        #    register value (the CRC is a bijection there), optionally followed by the model's byte
        if m is not None and sym:
            reg = 0
            for v, k in sp["state"]:
                reg = (reg << k) | (A.model_value(m, sym["svars"][v]) & ((1 << k) - 1))
            data = forge(sp, reg)
            if data is not None:
                for cand in (data, data + bytes([A.model_value(m, sym["byte"]) & 0xff])):
                    try:
                        bad = real_result(which, cand) != expected_result(which, cand)
                    except Exception:
                        bad = True
                    if bad:
                        return ({"fn": which, "data": cand.hex()}, describe(which, cand))
        # 2. search a whole input of 0, 1, 2, 3 and (register bytes + 1) bytes on which the function differs
        sess.solver.set("timeout", 30000)
        try:
            for n in sorted({0, 1, 2, 3, sp["width"] // 8 + 1}):
                data = differing_input(sess, sp, n)
                if data is not None:
                    try:
                        bad = real_result(which, data) != expected_result(which, data)
                    except Exception:
                        bad = True
                    if bad:
                        return ({"fn": which, "data": data.hex()}, describe(which, data))
            return None
        finally:
            sess.solver.set("timeout", sess.timeout_ms)

    # (a) prelude: input passes through unchanged, state initialised to the reference init
    probe = [z3.ZeroExt(W - 8, z3.BitVec("p%d" % i, 8)) for i in range(2)]
    I0 = interp(sess, sp)
    st0 = I0.exec_block(prelude, {param: list(probe)}, g, fn)
    env0 = st0["env"]
    it = env0.get(loop.iter.id)
    if st0["retc"] is not False or not isinstance(it, list) or len(it) != 2 or \
            not all(A.is_sym(x) and x.eq(y) for x, y in zip(it, probe)):
        raise A.Unsupported("prelude of %s does not hand the input bytes to the loop unchanged" % which)
    assigned = {n.id for s in loop.body for n in ast.walk(s) if isinstance(n, ast.Name) and isinstance(n.ctx, ast.Store)}
    state = sorted(v for v in assigned if v in env0 and v != loop.target.id)
    if state != sorted(v for v, _ in sp["state"]):
        raise A.Unsupported("loop state of %s is %s, expected %s" % (which, state, [v for v, _ in sp["state"]]))

    def as_ref(env):
        """concatenate the state variables (high first) into the reference register"""
        terms, inr = [], []
        for v, k in sp["state"]:
            x = env[v] if A.is_sym(env[v]) else z3.BitVecVal(env[v], W)
            inr.append(z3.And(x >= 0, z3.ULT(x, 1 << k)))
            terms.append(z3.Extract(k - 1, 0, x))
        return (z3.Concat(*terms) if len(terms) > 1 else terms[0]), z3.And(*inr)

    init, init_ok = as_ref(env0)
    sess.prove(key, z3.And(init_ok, init == z3.BitVecVal(sp["init"], sp["width"])), side=I0.side,
               wrong=init == z3.BitVecVal(sp["init"] ^ 1, sp["width"]), concretize=concretize, what="step: initial state")

    # (b) loop body from an arbitrary in-range state and byte
    svars = {v: z3.BitVec("s_" + v, k) for v, k in sp["state"]}
    byte = z3.BitVec("byte", 8)
    sym.update(svars=svars, byte=byte)
    I1 = interp(sess, sp)
    env = dict(env0)
    for v, k in sp["state"]:
        env[v] = z3.ZeroExt(W - k, svars[v])
    env[loop.target.id] = z3.ZeroExt(W - 8, byte)
    pre, _ = as_ref(env)
    st1 = I1.exec_block(loop.body, env, g, fn)
    if st1["retc"] is not False:
        raise A.Unsupported("return inside the per-byte loop")
    post, post_ok = as_ref(st1["env"])
    sess.absorb(I1)
    want = ref_step(sp, pre, byte)
    sess.prove(key, z3.And(post_ok, post == want), side=I1.side, wrong=post == (want ^ 1),
               concretize=concretize, what="step: loop body from an arbitrary state")

    # (c) epilogue from an arbitrary in-range state: value AND layout of the result (exactly two
    #     big-endian bytes / two 32-bit halves for EVERY register value); the return expression may fork
    def sym_env():
        env = dict(env0)
        for v, k in sp["state"]:
            env[v] = z3.ZeroExt(W - k, svars[v])
        return env

    pre, _ = as_ref(sym_env())
    want = pre ^ z3.BitVecVal(sp["xorout"], sp["width"])

    def thunk(I):
        st2 = I.exec_block(epilogue, sym_env(), g, fn)
        if st2["retc"] is not True:
            raise A.Unsupported("epilogue of %s does not return" % which)
        return normalize(st2["ret"])

    try:
        paths = A.explore(lambda: interp(sess, sp), thunk)
    except A.Unsupported as e:
        epilogue_concrete(sess, sp, which, fn, epilogue, env0, g, key, concretize, str(e))
        paths = []
    if paths and sess.prove_exhaustive(paths, "step: epilogue"):
        for p in paths:
            claim, wrong = claim_of(sp, p.result, want)
            sess.prove(key, claim, assume=p.assume, defs=p.interp.defs, side=p.interp.side, wrong=wrong,
                       concretize=concretize, what="step: final xor / result layout")
    sess.res["extra"]["state"] = state


def epilogue_concrete(sess, sp, which, fn, epilogue, env0, g, key, concretize, why):
    """the return expression is outside the translated subset: execute the epilogue CONCRETELY (the
    interpreter then calls the real callees) on every register value when there are <= 2^16 of them,
    else on values with zero / small halves and seeded random ones.  A mismatch is concretised to a real
    input and reported.  Exhaustive enumeration decides the sub-claim; a sample leaves it inconclusive."""
    w = sp["width"]
    r = A.rng(sess.params, 411)
    if w <= 16:
        states, exhaustive = range(1 << w), True
    else:
        states = [0, 1, 255, 256, (1 << 32) - 1, 1 << 32, (1 << 32) + 1, 0xff << 32, (1 << w) - 1] + \
                 [r.getrandbits(w) for _ in range(2000)] + [r.getrandbits(32) for _ in range(200)] + \
                 [r.getrandbits(32) << 32 for _ in range(200)]
        exhaustive = False
    xor = sp["xorout"]
    sess.res["paths"] += 1
    for sv in states:
        env = dict(env0)
        rest = sv
        for v, k in reversed(sp["state"]):
            env[v] = rest & ((1 << k) - 1)
            rest >>= k
        I = A.Interp(num="bv", bvw=sp["bvw"])
        try:
            st = I.exec_block(epilogue, env, g, fn)
            got = normalize(st["ret"]) if st["retc"] is True else None
            got = list(got) if isinstance(got, (list, tuple)) else got
        except A.PyRaise:
            got = None
        fin = sv ^ xor
        exp = [fin >> 8, fin & 0xff] if w == 16 else [fin >> 32, fin & 0xffffffff]
        if got != exp:
            c = concretize(None)
            if c is None:
                # the whole function is not translatable either: find an input reaching this register on the reference
                n = w // 8
                bs = [z3.BitVec("b%d" % i, 8) for i in range(n)]
                rr, m, _ = sess.check(ref_whole(sp, bs) == z3.BitVecVal(fin, w))
                if rr == "sat":
                    data = bytes(A.model_value(m, b) & 0xff for b in bs)
                    try:
                        bad = real_result(which, data) != expected_result(which, data)
                    except Exception:
                        bad = True
                    if bad:
                        c = ({"fn": which, "data": data.hex()}, describe(which, data))
            if c is None:
                sess.inconclusive("epilogue of %s yields %r for register %#x (expected %r) but no failing input was found" % (which, got, sv, exp))
            else:
                sess.fail(key, c[0], c[1])
            return
    if exhaustive:
        sess.res["confirmed"] += 1
        sess.note("epilogue of %s not translatable (%s): decided by concrete execution on all %d register values" % (which, why, 1 << w))
    else:
        sess.inconclusive("epilogue of %s not translatable (%s); %d sampled register values agree" % (which, why, len(states)))


def ob_check_value(sess, params):
    """catalogue check value of '123456789': pins the z3 reference, the table reference and the real
    function to the published parameters (concrete; the 9-byte translation is validated on the way)"""
    which = params["fn"]
    sp = spec_for(which)
    data = b"123456789"
    bs = [z3.BitVec("b%d" % i, 8) for i in range(9)]
    refv = z3.simplify(z3.substitute(ref_whole(sp, bs), *[(b, z3.BitVecVal(c, 8)) for b, c in zip(bs, data)]))
    tab = table_crc(data, sp["width"], sp["poly"], sp["init"], sp["xorout"])
    if refv.as_long() != sp["check"] or tab != sp["check"]:
        raise A.TranslationMismatch("reference for %s does not reproduce the catalogue check value" % sp["name"])
    sess.res["validated"] += 2
    sess.res["paths"] += 1
    try:
        same = real_result(which, data) == expected_result(which, data)
    except Exception:
        same = False
    if same:
        sess.res["confirmed"] += 1
    else:
        sess.fail(KEY % (which, sp["name"]), {"fn": which, "data": data.hex()},
                  describe(which, data) + " (catalogue check value %#x)" % sp["check"])
    bs, paths = translate_whole(sess, sp, 9)
    sess.validate("%s check string" % which, paths, bs, [tuple(data)], lambda *c: real_result(which, c))


def replay(vals, params):
    which = vals["fn"]
    data = bytes.fromhex(vals["data"])
    key = KEY % (which, SPEC[which]["name"])
    try:
        got = real_result(which, data)
    except Exception as e:
        return ("fail", key, "%s(%s) raised %r" % (which, vals["data"], e))
    exp = expected_result(which, data)
    if got != exp:
        return ("fail", key, "%s(bytes.fromhex('%s')) -> %s, %s is %s" % (which, vals["data"], got, SPEC[which]["name"], exp))
    return ("pass", key, "")


def obligations(tier):
    nmax = 4 if tier == "quick" else 8
    x = dict(xcheck=(tier == "thorough"), xcheck_max=3)
    obs = []
    for which in ("crc16", "crc64"):
        # crc64: a tactic solver (simplify, fpa2bv, qfbv) that also decides queries with FP terms
        # (true division / int(float) in the result assembly); crc16: incremental QF_BV
        logic = "QF_BV" if which == "crc16" else "tactic:simplify>fpa2bv>qfbv"
        obs.append(Ob("%s/step" % which, A.run_obligation(ob_step, logic, 120000), params=dict(x, fn=which), kind="e2", replay=replay,
                      budget=120, bounds=dict(state="arbitrary in-range register", byte="arbitrary", length="any (inductive)")))
        obs.append(Ob("%s/check-value" % which, A.run_obligation(ob_check_value, logic), params=dict(fn=which), kind="e2",
                      replay=replay, budget=60, bounds=dict(input="b'123456789' (concrete catalogue vector)")))
        for n in range(nmax if which == "crc16" else (1 if tier == "quick" else 2), -1, -1):
            obs.append(Ob("%s/whole/%d" % (which, n), A.run_obligation(ob_whole, logic, 120000), params=dict(x, fn=which, n=n), kind="e2",
                          replay=replay, budget=600,
                          bounds=dict(bytes=n, values="all 256^%d byte strings" % n)))
    return obs
