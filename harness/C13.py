"""C13 -- relative store addressing is invariant under consistent renaming (E1, selector-symbolic).

A program generator emits one FloScript program from a table of entity names (two active framers,
a moot framer cloned as an aux of a sub frame, four frames, a clone tag, two named doers) and a
configuration of `via` inodes (framer / frames / clone / moot framer).  The program holds, in the
main framer's frames AND in the cloned framer's frame, one act per reference form:

  absolute `.ab.x`; root-relative `rr.x`, `x of root`; inode-relative `me.x`, `x of me`;
  `x of framer [me|main|<name>]`, `framer.me.x`, `framer.main.x`;
  `x of frame [me|main|<name>] [of framer [me|main|<name>]]`, `frame.me.x`, `frame.main.x`;
  `x of actor [me] [of frame ..]`, `actor.me.x`;
  the same forms as the `via` inode of a named doer with ioinit paths relative to it
  (put / need (`let`) / do acts).

Symbolic selectors choose the inode configuration, the entity to rename and the new name.  The
base program and the renamed program (regenerated from the changed name table, so the renaming is
consistent by construction) are built by the REAL Builder; every resolved Share / Node reference of
every act is collected position by position (`flobuild.act_refs`) together with all store paths.

Oracle (exactly the statement):
 (1) the renamed program builds, with the same number of references;
 (2) every resolved path of the renamed program equals the base path with exactly the segments
     that carry the renamed entity's name replaced (clone framer names `<framer>_<tag>` are
     renamed part-wise); the same for the set of all store paths;
 (3) for reference forms whose resolution does not involve any inode (absolute, or with an explicit
     framer/frame/actor relation) the number of segments carrying the entity's name is exactly
     the number the form says it resolves through (so a reference that resolves through a renamed
     framer/frame/actor really is renamed, and no other is); absolute references are unchanged and
     equal to their text.
"""
from collections import Counter
from engine import Ob
from engine import flobuild as fb

PROPERTY = "C13"
ENGINE = "E1"
FUNCTIONS = ["ioflo.aid.aiding.nameToPath (direct obligation)", "ioflo.base.acting.Act.resolvePath", "ioflo.base.acting.Act.resolve",
             "ioflo.base.building.Builder.parseIndirect", "Builder.parseRelation", "ioflo.aid.aiding.nameToPath",
             "ioflo.base.framing.Framer.resolveMoots", "Framer.clone", "ioflo.base.poking.PokeDirect._resolve",
             "ioflo.base.needing.NeedDirect._resolve", "ioflo.base.housing.House.resolve"]
ASSUMPTIONS = [
    "selector-symbolic only (no arithmetic is involved): inode configuration, renamed entity and new name are symbolic "
    "selectors realised per path; the Builder runs under NoTracing() on concrete text; the claim is 'exhaustive over "
    "the generated family', nothing more",
    "generated family: ONE program skeleton (listed in the module) holding every reference form in a main-framer frame, "
    "a nested frame, and a cloned moot framer's frame; inode alphabets and new-name alphabets as listed in bounds",
    "base entity names are unique across kinds and never occur in path literals, so 'the corresponding segments' are "
    "exactly the segments (or `_`-separated parts of a clone framer name) equal to the old name; a doer named N "
    "appears in paths as N.lower(); a doer named by several words (`as w1 w2 ..`, the `words/*` obligations, words from "
    "a fixed alphabet incl. one-letter words, chosen symbolically) appears as one lower-case segment per word, which is "
    "what the documented nameToPath rule (every upper case letter starts a node) gives; `nametopath` checks that "
    "function directly on the same word sequences",
    "new names that are FloScript words (me, main, root, framer, frame, actor, value) are only used for entities that the "
    "program never writes in a position where the grammar also accepts that word as a keyword (`of framer <name>`, "
    "`of frame <name>`): there the word would be the keyword, not a reference to the entity; `mine` is not used as a "
    "clone tag (documented keyword)",
    "oracle part (3) is applied only to forms that never involve inode prepending (documented unambiguously); for "
    "inode-dependent forms only the metamorphic relation (2) is demanded",
    "insular (`as mine`) clones, whose tag is derived from the original's name plus a counter, are not in the family",
]

BASE = dict(fmain="fmain", ftop="ftop", fsub="fsub", fend="fend", fother="fother", gone="gone",
            fmoot="fmoot", mone="mone", fclo="fclo", dact="dact", mact="mact")
ENTITIES = list(BASE)
KIND = dict(fmain="framer", fother="framer", fmoot="framer", ftop="frame", fsub="frame", fend="frame", gone="frame",
            mone="frame", fclo="tag", dact="actor", mact="actor")
OTHER_KIND_NAME = dict(framer="ftop", frame="fmain", tag="fsub", actor="fmain")
PLAIN = ["zed", "Zed9", "z_q", "@other"]
SPECIAL = ["me", "main", "root", "framer", "frame", "actor", "value"]

INODES_Q = ["", "ino", "me.ino"]
INODES_T = ["", "ino", "me.ino"]                                        # thorough: full product over the 5 sites
INODES_P = ["", "ino", "me.ino", ".ino", "ino of framer", "ino of frame", "ino of me", "me.ino."]   # thorough: 2 sites at a time
SITES = ["F", "T", "S", "C", "M"]     # main framer, top frame, sub frame, clone (aux ... via), moot framer


def via(text):
    return (" via " + text) if text else ""


class Gen(object):
    def __init__(self, names, inodes, drop):
        self.n = names
        self.ino = inodes
        self.drop = drop          # entity keys that must not be written in name-or-keyword positions
        self.leaf = 0
        self.spec = {}            # leaf -> ("abs", path) | ("rel", [role/entity keys]) | ("free",)
        self.lines = []

    def new_leaf(self, prefix="x"):
        self.leaf += 1
        return "%s%d" % (prefix, self.leaf)

    def forms(self, ctx, node=False):
        """[(template with {x}, spec)] for an act sitting in context ctx = dict(F=[entity keys], f=key,
        MF=..., Mf=..., frames=[other frame keys of the same framer])"""
        F, f = [tuple(ctx["F"])], [ctx["f"]]      # the current framer is ONE segment (a clone's name has two parts)
        out = [(".ab.{x}", ("abs",)),
               ("rr.{x}", ("free",)), ("{x} of root", ("free",)), ("me.{x}", ("free",)), ("{x} of me", ("free",)),
               ("{x} of framer", ("rel", F)), ("{x} of framer me", ("rel", F)), ("framer.me.{x}", ("rel", F)),
               (".{x} of framer", ("rel", F)),
               ("{x} of frame", ("rel", F + f)), ("{x} of frame me", ("rel", F + f)), ("frame.me.{x}", ("rel", F + f)),
               ("{x} of frame of framer", ("rel", F + f)), ("{x} of frame me of framer me", ("rel", F + f)),
               ("{x} of actor", ("rel", F + f)), ("actor.me.{x}", ("rel", F + f)),
               ("{x} of actor me of frame me", ("rel", F + f)), ("{x} of actor of frame of framer", ("rel", F + f))]
        if "fother" not in self.drop:
            out.append(("{x} of framer %s" % self.n["fother"], ("rel", ["fother"])))
            if "gone" not in self.drop:
                out.append(("{x} of frame %s of framer %s" % (self.n["gone"], self.n["fother"]), ("rel", ["fother", "gone"])))
        for g in ctx["frames"]:
            if g not in self.drop:
                out.append(("{x} of frame %s" % self.n[g], ("rel", F + [g])))
                out.append(("frame.%s.{x}" % self.n[g], ("rel", F + [g])))
                out.append(("{x} of frame %s of framer" % self.n[g], ("rel", F + [g])))
                out.append(("{x} of actor of frame %s" % self.n[g], ("rel", F + [g])))
        if ctx.get("MF"):
            MF, Mf = [tuple(ctx["MF"])], [ctx["Mf"]]
            out += [("{x} of framer main", ("rel", MF)), ("framer.main.{x}", ("rel", MF)),
                    ("{x} of frame main", ("rel", MF + Mf)), ("frame.main.{x}", ("rel", MF + Mf)),
                    ("{x} of frame main of framer main", ("rel", MF + Mf)),
                    ("{x} of frame of framer main", ("rel", MF + f))]
        return out

    def acts(self, ctx, indent, actor):
        """put + need (let) for every form; do-with-via for every form; do ioinit path variants"""
        ind = " " * indent
        for tmpl, spec in self.forms(ctx):
            x = self.new_leaf()
            self.spec[x] = spec if spec[0] != "abs" else ("abs", "ab." + x)
            self.lines.append("%sput 1 into %s" % (ind, tmpl.format(x=x)))
            x = self.new_leaf()
            self.spec[x] = spec if spec[0] != "abs" else ("abs", "ab." + x)
            self.lines.append("%slet me if %s == 1" % (ind, tmpl.format(x=x)))
        aname = self.n[actor] if actor else None
        for tmpl, spec in self.forms(ctx):
            if tmpl.startswith("me.") or tmpl.endswith(" of me"):
                continue        # `via me...` / `via x of me` on a doer: inode-relative inode, covered by the frame sites
            nx = self.new_leaf("n")      # inode node
            lx = self.new_leaf()         # ioinit share below the inode
            sp = spec
            if spec[0] == "rel" and (" of actor" in tmpl or tmpl.startswith("actor.")):
                # actor relative: resolves through the doer's own name (nameToPath of the `as` name)
                sp = ("rel", spec[1] + [actor]) if aname else ("free",)
            if sp[0] == "abs":
                self.spec[nx] = ("abs", "ab." + nx)
                self.spec[lx] = ("abs", "ab." + nx + "." + lx)
            else:
                self.spec[nx] = sp
                self.spec[lx] = sp
            self.lines.append("%sdo doer param%s at enter via %s per k %s" % (
                ind, (" as " + aname) if aname else "", tmpl.format(x=nx), lx))
        # ioinit paths that are themselves absolute / framer-relative / me-relative under a relative inode
        for ipath, spec in ((".ab.{x}", ("abs",)), ("framer.me.{x}", ("rel", [tuple(ctx["F"])])), ("me.{x}", ("free",)),
                            ("{x}", ("free",))):
            x = self.new_leaf()
            self.spec[x] = spec if spec[0] != "abs" else ("abs", "ab." + x)
            self.lines.append('%sdo doer at enter via nn%s per k "%s"' % (ind, x, ipath.format(x=x)))
        # default inode (no via): documented default is framer.me.frame.me.actor.me when no inode applies at all
        x = self.new_leaf()
        self.spec[x] = ("free",)
        self.lines.append('%sdo doer param at enter per k "%s"' % (ind, x))

    def program(self):
        n, ino = self.n, self.ino
        L = self.lines
        L.append("house hous")
        L.append("framer %s be active first %s%s" % (n["fmain"], n["ftop"], via(ino["F"])))
        L.append("  frame %s%s" % (n["ftop"], via(ino["T"])))
        self.acts(dict(F=["fmain"], f="ftop", frames=["fend", "fsub"]), 4, "dact")
        L.append("    frame %s in %s%s" % (n["fsub"], n["ftop"], via(ino["S"])))
        self.acts(dict(F=["fmain"], f="fsub", frames=["ftop"]), 6, None)
        L.append("      aux %s as %s%s" % (n["fmoot"], n["fclo"], via(ino["C"])))
        L.append("  frame %s" % n["fend"])
        L.append("framer %s be active first %s" % (n["fother"], n["gone"]))
        L.append("  frame %s" % n["gone"])
        for tmpl, spec in (("{x} of framer %s" % n["fmain"], ("rel", ["fmain"])),
                           ("{x} of frame %s of framer %s" % (n["fsub"], n["fmain"]), ("rel", ["fmain", "fsub"])),
                           ("{x} of frame", ("rel", ["fother", "gone"]))):
            if tmpl != "{x} of frame" and any(e in self.drop for e in spec[1]):
                continue
            x = self.new_leaf()
            self.spec[x] = spec
            L.append("    put 1 into %s" % tmpl.format(x=x))
        L.append("framer %s be moot first %s%s" % (n["fmoot"], n["mone"], via(ino["M"])))
        L.append("  frame %s" % n["mone"])
        self.acts(dict(F=["fmain", "fclo"], f="mone", MF=["fmain"], Mf="fsub", frames=["mone"]), 4, "mact")
        return "\n".join(L) + "\n"


def generate(names, inodes, drop=()):
    g = Gen(names, inodes, set(drop))
    text = g.program()
    return text, g.spec


def seg_name(kind, name):
    """how an entity name shows up inside a path: a doer named by the words w1 w2 .. (`as w1 w2 ..`) is the camel
    case name W1W2.. and, by the documented nameToPath rule (every upper case letter starts a new node), the
    path segments w1.w2... in lower case -- one segment per word, also for one-letter words"""
    if kind == "actor":
        return ".".join(w.lower() for w in name.split())
    return name


def rename_path(path, old, new):
    out = []
    for seg in path.split("."):
        parts = seg.split("_") if old.find("_") < 0 else [seg]
        # a clone framer is named <framer surname>_<tag>; new names may contain '_' themselves, so rebuild
        out.append("_".join(new if p == old else p for p in parts))
    return ".".join(out)


def count_name(path, name):
    return sum(1 for seg in path.split(".") for p in seg.split("_") if p == name)


def leaf_of(path):
    segs = [s for s in path.split(".") if s]
    return segs[-1] if segs else ""


def observe(text):
    r = fb.build(text, cpu_limit=5.0)
    if r.hung:
        return ("hang",)
    if r.exc is not None:
        return ("raise", type(r.exc).__name__, r.message()[:160])
    if not r.ok:
        return ("false",)
    house = r.houses[0]
    return ("ok", fb.act_refs(house), fb.store_paths(house.store))


_BASE = {}


def base_for(inodes_key, inodes, drop):
    key = (inodes_key, tuple(sorted(drop)))
    if key not in _BASE:
        text, spec = generate(BASE, inodes, drop)
        _BASE[key] = (text, spec, observe(text))
    return _BASE[key]


def check_pair(sym, ent, new, inodes, inodes_key, special):
    """runs untraced; returns None (ok) or (key, detail)"""
    kind = KIND[ent]
    if new == "@other":
        new = OTHER_KIND_NAME[kind]
    drop = [ent] if special else []
    text0, spec, obs0 = base_for(inodes_key, inodes, drop)
    cls = "special-name" if special else "fresh-name"
    if obs0[0] != "ok":
        return ("C13/harness/base-program-does-not-build", "%s inodes=%r" % (obs0, inodes))
    names = dict(BASE)
    names[ent] = new
    text1, spec1 = generate(names, inodes, drop)
    obs1 = observe(text1)
    old_seg, new_seg = seg_name(kind, BASE[ent]), seg_name(kind, new)
    tag = "%s %s->%s inodes=%r" % (kind, BASE[ent], new, {k: v for k, v in inodes.items() if v})
    if obs1[0] != "ok":
        return ("C13/%s/%s/renamed-program-does-not-build" % (cls, kind), "%s: %s" % (tag, " ".join(map(str, obs1))))
    refs0, refs1 = obs0[1], obs1[1]
    if len(refs0) != len(refs1):
        return ("C13/%s/%s/number-of-references-changes" % (cls, kind), "%s: %d vs %d" % (tag, len(refs0), len(refs1)))
    # (3) on the base program: name-carrying segments exactly as the form says
    for loc, k, path in refs0:
        sp = spec.get(leaf_of(path))
        if sp is None or sp[0] == "free":
            continue
        if sp[0] == "abs":
            if path.strip(".") != sp[1]:
                return ("C13/%s/%s/absolute-reference-not-resolved-to-its-text" % (cls, kind),
                        "%s: %r resolved to %r" % (tag, sp[1], path))
            continue
        roles = [r if isinstance(r, tuple) else (r,) for r in sp[1]]
        want = Counter(tuple(seg_name(KIND[k], BASE[k]) for k in r) for r in roles if ent in r)
        have = Counter(tuple(seg.split("_")) for seg in path.split(".") if old_seg in seg.split("_"))
        if want != have:
            return ("C13/%s/%s/reference-resolves-through-wrong-entities" % (cls, kind),
                    "%s: path %r carries the name %r in segments %r, the reference form resolves through %r"
                    % (tag, path, old_seg, sorted(have.elements()), sorted(want.elements())))
    # (2) metamorphic relation, position by position
    for (loc0, k0, p0), (loc1, k1, p1) in zip(refs0, refs1):
        exp = rename_path(p0, old_seg, new_seg)
        if loc0 != loc1 or k0 != k1 or p1 != exp:
            return ("C13/%s/%s/renamed-path-differs" % (cls, kind),
                    "%s: at %r base %r -> expected %r, got %r" % (tag, loc0, p0, exp, p1))
    def closed(paths):
        """with the node entries ('a.b.') of every prefix: a multi-word name adds intermediate nodes"""
        out = set()
        for p in paths:
            out.add(p)
            segs = p.rstrip(".").split(".")
            for i in range(1, len(segs)):
                out.add(".".join(segs[:i]) + ".")
        return sorted(out)
    want_store = closed(rename_path(p, old_seg, new_seg) for p in obs0[2])
    if closed(obs1[2]) != want_store:
        extra = sorted(set(obs1[2]) ^ set(want_store))[:4]
        return ("C13/%s/%s/store-paths-differ" % (cls, kind), "%s: %r" % (tag, extra))
    return None


SITE_PAIRS = [(a, b) for i, a in enumerate(SITES) for b in SITES[i + 1:]]

# words a doer name is composed of (`do <kind> as <word> [<word> ..]`): one-letter words, words with digits / underscore
WORDS = ["a", "b", "side", "x9", "cnt", "d_e"]
WORD_CFGS = [dict.fromkeys(SITES, ""), dict(F="ino", T="me.ino", S="", C="me.ino", M="ino")]


def pick_words(sym, maxwords):
    n = 1 + sym.choice("nwords", maxwords)
    return [fb.pick(sym, "w%d" % i, len(WORDS)) for i in range(n)]


def h_words(sym, ent, maxwords):
    """the doer `ent` is renamed to a symbolic sequence of 1..maxwords words"""
    ci = sym.choice("cfg", len(WORD_CFGS))
    wi = pick_words(sym, maxwords)
    with fb.notrace(sym):
        name = " ".join(WORDS[i] for i in wi)
        res = check_pair(sym, ent, name, WORD_CFGS[ci], ("w", ci), False)
    if res is not None:
        sym.fail(res[0].replace("/fresh-name/", "/multi-word-name/"), res[1])
    sym.cover("renamed-consistently")
    return True


# frame names that are not the words `me` / `main` but look like them to a sloppy test (substrings, prefixes)
SHORT = ["a", "m", "n", "ai", "main2", "mainline"]
FRAME_ENTS = [e for e in ENTITIES if KIND[e] == "frame"]


def h_short(sym, ent):
    """a frame (of an ordinary framer or of the moot framer cloned as aux) gets a short / main-like name; the
    program addresses it by name (`x of frame <name> [of framer]`, inline `frame.<name>.x`)"""
    ci = sym.choice("cfg", len(WORD_CFGS))
    ni = fb.pick(sym, "new", len(SHORT))
    with fb.notrace(sym):
        res = check_pair(sym, ent, SHORT[ni], WORD_CFGS[ci], ("w", ci), False)
    if res is not None:
        sym.fail(res[0].replace("/fresh-name/", "/short-name/"), res[1])
    sym.cover("renamed-consistently")
    return True


def h_nametopath(sym, maxwords):
    """ioflo.aid.aiding.nameToPath on the camel case name of a symbolic word sequence: one lower case node per
    word ('uppercase letters denote intermediate nodes in path. Node path ends in dot')"""
    from ioflo.aid.aiding import nameToPath
    wi = pick_words(sym, maxwords)
    with fb.notrace(sym):
        words = [WORDS[i] for i in wi]
        camel = "".join(w.capitalize() for w in words)        # what Builder.buildDo makes of `as w1 w2 ..`
        got = nameToPath(camel)
        want = "." + ".".join(w.lower() for w in words) + "."
    sym.check(got == want, "C13/nameToPath/words-not-one-node-each", "nameToPath(%r) = %r, expected %r" % (camel, got, want))
    sym.cover("renamed-consistently")
    return True


def h(sym, ent, tier, special, pairs=False):
    alpha = INODES_Q if tier == "quick" else INODES_T
    if pairs:
        palpha = INODES_Q if tier == "quick" else INODES_P
        pi = sym.choice("sites", len(SITE_PAIRS))
        ia = fb.pick(sym, "inoA", len(palpha))
        ib = fb.pick(sym, "inoB", len(palpha))
        ni = sym.choice("new", len(PLAIN))
        with fb.notrace(sym):
            inodes = dict.fromkeys(SITES, "")
            inodes[SITE_PAIRS[pi][0]] = palpha[ia]
            inodes[SITE_PAIRS[pi][1]] = palpha[ib]
            res = check_pair(sym, ent, PLAIN[ni], inodes, ("p", pi, ia, ib), False)
    elif special:
        cfgs = [dict.fromkeys(SITES, ""), dict.fromkeys(SITES, "ino"),
                dict(F="ino", T="me.ino", S="", C="me.ino", M="ino"), dict(F="", T="ino", S="me.ino", C="ino", M="me.ino")]
        ci = sym.choice("cfg", len(cfgs))
        ni = sym.choice("new", len(SPECIAL))
        with fb.notrace(sym):
            inodes = cfgs[ci]
            res = check_pair(sym, ent, SPECIAL[ni], inodes, ("s", ci), True)
    else:
        idx = [sym.choice("ino" + s, len(alpha)) for s in SITES]
        ni = sym.choice("new", len(PLAIN))
        with fb.notrace(sym):
            inodes = {s: alpha[i] for s, i in zip(SITES, idx)}
            res = check_pair(sym, ent, PLAIN[ni], inodes, tuple(idx), False)
    if res is not None:
        sym.fail(res[0], res[1])
    sym.cover("renamed-consistently")
    return True


def obligations(tier):
    quick = tier == "quick"
    out = []
    if not quick:
        for ent in ENTITIES:
            out.append(Ob("rename/" + ent, h, dict(ent=ent, tier=tier, special=False),
                          budget=2400, per_path=60, covers=["renamed-consistently"],
                          bounds=dict(entity=ent, kind=KIND[ent], new_names=PLAIN, inode_sites=SITES,
                                      inode_alphabet=INODES_T, configurations="full product over the sites")))
    for ent in ENTITIES:
        out.append(Ob("rename2/" + ent, h, dict(ent=ent, tier=tier, special=False, pairs=True),
                      budget=600 if quick else 2400, per_path=60, covers=["renamed-consistently"],
                      bounds=dict(entity=ent, kind=KIND[ent], new_names=PLAIN, inode_sites="any 2 of " + repr(SITES),
                                  inode_alphabet=INODES_Q if quick else INODES_P)))
    mw = 3 if quick else 4
    for ent in ("dact", "mact"):
        out.append(Ob("words/" + ent, h_words, dict(ent=ent, maxwords=mw), budget=600 if quick else 2400, per_path=60,
                      covers=["renamed-consistently"],
                      bounds=dict(entity=ent, kind="actor", new_name="1..%d words from %r" % (mw, WORDS),
                                  inode_configurations=len(WORD_CFGS))))
    for ent in FRAME_ENTS:
        out.append(Ob("shortname/" + ent, h_short, dict(ent=ent), budget=300, per_path=60, covers=["renamed-consistently"],
                      bounds=dict(entity=ent, kind="frame", new_names=SHORT, inode_configurations=len(WORD_CFGS))))
    out.append(Ob("nametopath", h_nametopath, dict(maxwords=mw + 1), budget=300, per_path=60,
                  covers=["renamed-consistently"], bounds=dict(words=WORDS, name="camel case of 1..%d words" % (mw + 1))))
    for ent in ENTITIES:
        out.append(Ob("special/" + ent, h, dict(ent=ent, tier=tier, special=True),
                      budget=300 if quick else 600, per_path=60, covers=["renamed-consistently"],
                      bounds=dict(entity=ent, kind=KIND[ent], new_names=SPECIAL, inode_configurations=4)))
    return out
