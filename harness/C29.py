"""C29 -- HTTP messages parse the same however their bytes arrive (E1).

A well-formed request / response is *generated* from a structured shape (framing, header
style, chunk extension, trailer, body length, chunk sizes, amount of bytes of a following
message).  The bytes are delivered to the real parser objects (serving.Requestant /
clienting.Respondent over httping.parseLine/parseLeader/parseChunk) in up to three pieces
with `parse()` called after every piece -- the way Valet / Patron call it once per service
pass.  Oracle: the fields parsed from the pieces == the fields parsed from one piece == the
generator's structured content, and the bytes that follow the message are still in the
buffer.  Cut offsets, body length, chunk sizes and tail amount are symbolic integers; each is
pinned to one value per path by solver-decided bisection (engine.doubles_http.pick) because it
slices / formats concrete bytes, so the solver's contribution here is the proof that the
bounded space was enumerated without a gap (selector-symbolic, DESIGN section 2).  The parser
itself runs untraced once everything is pinned.
"""
from engine import Ob
from engine.doubles_http import untraced, pick, raise_site, exc_text
from ioflo.aio.http import httping, serving, clienting

PROPERTY = "C29"
ENGINE = "E1"
FUNCTIONS = ["ioflo.aio.http.httping.parseLine", "ioflo.aio.http.httping.parseLeader",
             "ioflo.aio.http.httping.parseChunk", "ioflo.aio.http.httping.parseRequestLine",
             "ioflo.aio.http.httping.parseStatusLine", "ioflo.aio.http.httping.Parsent.parseMessage",
             "ioflo.aio.http.httping.Parsent.parse",
             "ioflo.aio.http.serving.Requestant.parseHead", "ioflo.aio.http.serving.Requestant.parseBody",
             "ioflo.aio.http.clienting.Respondent.parseHead", "ioflo.aio.http.clienting.Respondent.parseBody"]
ASSUMPTIONS = [
    "messages are generated from a bounded grammar (see bounds): lines end in CRLF only (bare LF is outside the claim)",
    "header lines are `Name: value` or `Name:value` (exactly the two forms of the statement; other optional whitespace is outside the claim)",
    "chunk extensions are `;name=token` / `;name` (no quoted strings); extension parameters themselves are not compared (the statement lists start line, headers, body, trailers)",
    "header names are compared case-insensitively (the parsers store them lower-cased)",
    "parse() is called once after every received piece (empty pieces included = a service pass without new data)",
    "read-until-close responses: the connection close is signalled with Respondent.close() after the last piece, then parse() once more",
    "Requestant is given an incomer double with only a .timeout attribute (no socket involved)",
    "an interim `100 Continue` response followed by the final response: either the 100 response is reported as a message of its own (rest left in the buffer) or it is skipped and the final response reported -- the statement does not say which",
    "cut offsets / lengths / sizes are pinned to single values per path by solver bisection (enumerated by the engine); the parser runs untraced",
]
LEVEL_NOTE = "selector-symbolic: solver proves the bounded shape x split space was exhausted; each path is a concrete run of the real parser"
TECHNIQUE = "bounded exhaustive split enumeration driven by the CrossHair/z3 search tree, differential against whole-message parse and against the generator's content"

BODYPOOL = b"\r\n0\r\n\r\nab:c;d=e\r\n\r\n"     # adversarial payload: looks like chunk / header framing
NEXT_REQ = b"GET /n"
NEXT_RSP = b"HTTP/1"


class _Inc:
    timeout = 1.0


# ---------------------------------------------------------------- generator
def gen(kind, framing, hstyle, ext, trailer, L, s1, s2):
    """-> (message bytes, expected content dict)"""
    sep = b": " if hstyle == 0 else b":"
    heads = []
    if kind == "req":
        method = b"GET" if framing == "nobody" else b"POST"
        start = method + b" /a/b?x=1 HTTP/1.1"
        heads.append((b"Host", b"x"))
    else:
        if framing == "nobody":
            start = b"HTTP/1.1 204 No Content"
        else:
            start = b"HTTP/1.1 200 OK"
        heads.append((b"Server", b"s"))
    body = b""
    trails = []
    payload = b""
    if framing == "fixed":
        body = BODYPOOL[:L]
        heads.append((b"Content-Length", str(len(body)).encode()))
        payload = body
    elif framing == "chunked":
        heads.append((b"Transfer-Encoding", b"chunked"))
        sizes = [s1] + ([s2] if s2 else [])
        off = 0
        for k, s in enumerate(sizes):
            data = (BODYPOOL * 2)[off:off + s]
            off += s
            line = ("%x" % s).encode()
            if ext == 1 and k == 0:
                line += b";e=1"
            payload += line + b"\r\n" + data + b"\r\n"
            body += data
        payload += b"0" + (b";x" if ext == 2 else b"") + b"\r\n"
        if trailer:
            trails.append((b"T", b"v"))
            payload += b"T" + sep + b"v\r\n"
        payload += b"\r\n"
    elif framing == "close":
        heads.append((b"Connection", b"close"))
        body = BODYPOOL[:L]
        payload = body
    lines = [start] + [n + sep + v for n, v in heads]
    msg = b"\r\n".join(lines) + b"\r\n\r\n" + payload
    exp = dict(headers={n.decode().lower(): v.decode() for n, v in heads}, body=body,
               trails={n.decode().lower(): v.decode() for n, v in trails})
    if kind == "req":
        exp.update(method=method.decode(), url="/a/b?x=1", path="/a/b", query="x=1", version=(1, 1))
    else:
        exp.update(version=(1, 1), status=204 if framing == "nobody" else 200,
                   reason="No Content" if framing == "nobody" else "OK")
    return msg, exp


# ---------------------------------------------------------------- drive the real parser
def run_parser(kind, pieces, close):
    """Feed pieces; returns ('ok', fields) | ('raise', site, text)."""
    if kind == "req":
        p = serving.Requestant(msg=bytearray(), incomer=_Inc())
    else:
        p = clienting.Respondent(msg=bytearray(), method="GET")
    try:
        for piece in pieces:
            p.msg.extend(piece)
            p.parse()
        if close:
            p.close()
            p.parse()
    except Exception as ex:      # noqa: BLE001  a well-formed message must not make the parser raise
        return ("raise", raise_site(ex), exc_text(ex))
    f = dict(ended=bool(p.ended), errored=bool(p.errored), error=p.error, parsing=p.parser is not None,
             version=p.version, headers=dict(p.headers.items()) if p.headers is not None else None,
             body=bytes(p.body), trails=dict(p.trails.items()) if p.trails else {}, rest=bytes(p.msg))
    if kind == "req":
        f.update(method=p.method, url=p.url, path=p.path, query=p.query)
    else:
        f.update(status=p.status, reason=p.reason)
    return ("ok", f)


REQ_FIELDS = ("method", "url", "path", "query", "version", "headers", "body", "trails")
RSP_FIELDS = ("version", "status", "reason", "headers", "body", "trails")
_WHOLE = {}


def h(sym, kind, framing, cuts, Lr, s1r, s2r, exts, trailers, tails, interim=False):
    hstyle = sym.choice("hstyle", 2)
    ext = trailer = 0
    L = s1 = s2 = t = 0
    if framing == "chunked":
        ext = exts[sym.choice("ext", len(exts))]
        trailer = trailers[sym.choice("trailer", len(trailers))]
        s1 = pick(sym, "size1", s1r[0], s1r[1])
        s2 = pick(sym, "size2", s2r[0], s2r[1])
    elif framing in ("fixed", "close"):
        L = pick(sym, "bodylen", Lr[0], Lr[1])
    if framing != "close":
        t = pick(sym, "tail", 0, len(tails) - 1)
    # the message length depends only on realised values: compute it untraced
    with untraced(sym):
        nxt = NEXT_REQ if kind == "req" else NEXT_RSP
        tail = nxt[:tails[t]] if framing != "close" else b""
        msg, exp = gen(kind, framing, hstyle, ext, trailer, L, s1, s2)
        pre = b"HTTP/1.1 100 Continue\r\n\r\n" if interim else b""
        wire = pre + msg + tail
        n = len(wire)
    offs = []
    lo = 0
    for k in range(cuts):
        c = pick(sym, "cut%d" % k, 0, n, atleast=lo)
        offs.append(c)
        lo = c
    with untraced(sym):
        pieces = []
        a = 0
        for c in offs + [n]:
            pieces.append(wire[a:c])
            a = c
        close = framing == "close"
        if wire not in _WHOLE:
            _WHOLE[wire] = run_parser(kind, [wire], close)
        whole = _WHOLE[wire]
        split = run_parser(kind, pieces, close)
        fields = REQ_FIELDS if kind == "req" else RSP_FIELDS
        K = "C29/%s/" % ("request" if kind == "req" else "response")
        shape = "framing=%s hstyle=%s ext=%s trailer=%s wire=%r" % (framing, "Name:v" if hstyle else "Name: v", ext, trailer, wire)

        # 1. the whole message against the generator's content
        if whole[0] == "raise":
            sym.fail("C29/whole/raises-" + whole[1], "%s | %s" % (whole[2], shape))
        w = whole[1]
        alt = None
        if interim:   # either reading of an interim response is accepted (see ASSUMPTIONS)
            alt = dict(version=(1, 1), status=100, reason="Continue", headers={}, body=b"", trails={})
        if interim and w["ended"] and not w["errored"] and all(w[f] == alt[f] for f in fields):
            sym.check(w["rest"] == msg + tail, K + "whole/following-bytes-consumed", shape)
            exp_rest = msg + tail
            exp = alt
        else:
            sym.check(not w["errored"], K + "whole/well-formed-message-errored", "%s | %s" % (w["error"], shape))
            sym.check(w["ended"] and not w["parsing"], K + "whole/complete-message-not-ended", shape)
            for f in fields:
                sym.check(w[f] == exp[f], K + "whole/%s-differs-from-content" % f,
                          "got %r expected %r | %s" % (w[f], exp[f], shape))
            sym.check(w["rest"] == tail, K + "whole/following-bytes-consumed",
                      "left %r expected %r | %s" % (w["rest"], tail, shape))
            exp_rest = tail

        # 2. the pieces against the whole
        where = "%s cuts=%r" % (shape, offs)
        if split[0] == "raise":
            sym.fail("C29/split/raises-" + split[1], "%s | %s" % (split[2], where))
        s = split[1]
        sym.check(not s["errored"], K + "split/well-formed-message-errored", "%s | %s" % (s["error"], where))
        sym.check(s["ended"] and not s["parsing"], K + "split/complete-message-not-ended", where)
        for f in fields:
            sym.check(s[f] == w[f], K + "split/%s-differs-from-whole" % f,
                      "got %r whole %r | %s" % (s[f], w[f], where))
        sym.check(s["rest"] == exp_rest, K + "split/following-bytes-consumed",
                  "left %r expected %r | %s" % (s["rest"], exp_rest, where))

        # vacuity guards
        sym.cover("parsed")
        if any(0 < c < n and wire[c - 1:c + 1] == b"\r\n" for c in offs):
            sym.cover("cut-inside-crlf")
        if tail:
            sym.cover("tail-present")
        if framing == "chunked":
            if trailer:
                sym.cover("trailer")
            if s2:
                sym.cover("two-chunks")
    return True


# ---------------------------------------------------------------- obligations
def obligations(tier):
    quick = tier == "quick"
    out = []

    def add(name, kind, framing, cuts, Lr=(0, 0), s1r=(1, 1), s2r=(0, 0), exts=(0,), trailers=(0, 1),
            tails=(0, 6), interim=False):
        chunked = framing == "chunked"
        # vacuity guards only where the unchanged tree has passing paths (shards that exercise a
        # recorded defect on every path cannot reach a label on a confirmed path)
        covers = []
        if not interim and tuple(exts) == (0,):
            covers = ["parsed", "cut-inside-crlf"]
            if framing != "close":
                covers.append("tail-present")
            if chunked:
                covers += (["trailer"] if 1 in trailers else []) + (["two-chunks"] if s2r[1] else [])
        bounds = dict(kind="request" if kind == "req" else "response", framing=framing, pieces=cuts + 1,
                      header_styles=["Name: v", "Name:v"],
                      body_len="%d..%d" % tuple(Lr) if framing in ("fixed", "close") else None,
                      chunk1_size="%d..%d" % tuple(s1r) if chunked else None,
                      chunk2_size="%d..%d (0=absent)" % tuple(s2r) if chunked else None,
                      chunk_ext={0: "none", 1: ";e=1 on first chunk", 2: ";x on last chunk"}[exts[0]] if chunked else None,
                      trailer=list(trailers) if chunked else None,
                      tail_bytes_of_next_message=list(tails) if framing != "close" else None,
                      interim_100=interim)
        out.append(Ob(name, h, dict(kind=kind, framing=framing, cuts=cuts, Lr=tuple(Lr), s1r=tuple(s1r),
                                    s2r=tuple(s2r), exts=list(exts), trailers=list(trailers),
                                    tails=list(tails), interim=interim),
                      budget=900 if quick else 6000, per_path=20, covers=covers, bounds=bounds))

    for kind in ("req", "rsp"):
        if quick:
            add("%s/nobody/1cut" % kind, kind, "nobody", 1, tails=(0, 3, 6))
            add("%s/fixed/1cut" % kind, kind, "fixed", 1, Lr=(0, 4), tails=(0, 6))
            for e in (0, 1, 2):
                add("%s/chunked-ext%d/1cut" % (kind, e), kind, "chunked", 1, s1r=(1, 2), s2r=(0, 1),
                    exts=(e,), tails=(6,))
            add("%s/nobody/2cut" % kind, kind, "nobody", 2, tails=(3,))
            add("%s/fixed/2cut" % kind, kind, "fixed", 2, Lr=(2, 2), tails=(3,))
        else:
            add("%s/nobody/1cut" % kind, kind, "nobody", 1, tails=(0, 1, 3, 6))
            add("%s/fixed/1cut" % kind, kind, "fixed", 1, Lr=(0, 12), tails=(0, 1, 3, 6))
            for e in (0, 1, 2):
                add("%s/chunked-ext%d/1cut" % (kind, e), kind, "chunked", 1, s1r=(1, 17), s2r=(0, 1),
                    exts=(e,), tails=(6,))
            add("%s/nobody/2cut" % kind, kind, "nobody", 2, tails=(0, 3))
            add("%s/fixed/2cut" % kind, kind, "fixed", 2, Lr=(0, 3), tails=(3,))
            for e in (0, 1, 2):
                add("%s/chunked-ext%d/2cut" % (kind, e), kind, "chunked", 2, s1r=(2, 2), s2r=(0, 1),
                    exts=(e,), trailers=(1,), tails=(3,))
    # responses only: read until close, interim 100 Continue
    if quick:
        add("rsp/close/1cut", "rsp", "close", 1, Lr=(0, 6))
        add("rsp/close/2cut", "rsp", "close", 2, Lr=(2, 2))
        add("rsp/interim100/1cut", "rsp", "fixed", 1, Lr=(0, 2), tails=(0, 6), interim=True)
    else:
        add("rsp/close/1cut", "rsp", "close", 1, Lr=(0, 12))
        add("rsp/close/2cut", "rsp", "close", 2, Lr=(0, 4))
        add("rsp/interim100/1cut", "rsp", "fixed", 1, Lr=(0, 6), tails=(0, 3, 6), interim=True)
        add("rsp/interim100/2cut", "rsp", "fixed", 2, Lr=(2, 2), tails=(3,), interim=True)
    return out
