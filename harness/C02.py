"""C02 -- the scheduler runs each due tasker once per tick, on its period, in order (E1 + E2).

E1: the real `Skedder.run` drives a house built by the real Builder from a
generated script: 1-3 worker framers (front/mid/back order and declaration order
are selectors), a controller framer that bids `stop all` at tick K, optionally a
framer that bids `abort` on a worker at a symbolic tick, optionally a framer that
changes a worker's period by `bid run <worker> at <share>` at a symbolic tick.
 symbolic: tick period P, every worker period p_i, abort tick, change tick and
 the new period (integers = exact-time regime).
 oracle (from the statement): run k of worker i happens at the first tick after
 run k-1 whose time is >= k*p_i (t0 = 0); at most one run per tick; order inside a
 tick = front, mid, back in declaration order; nothing after an abort; after a
 period change the next reschedule adds the new period.
E2 (float regime): the three arithmetic statements of Skedder.run are located in
 the source by AST pattern, translated to FP(11,53) and unrolled: "a period that
 is exactly m times the tick (no rounding in m*P) runs exactly every m-th tick".
"""
import ast, inspect, time
from engine import Ob
from engine import flogen
from engine.flogen import STAMPS

PROPERTY = "C02"
ENGINE = "E1+E2"
FUNCTIONS = ["ioflo.base.skedding.Skedder.run", "ioflo.base.skedding.Skedder.addReadyTask", "ioflo.base.framing.Framer.makeRunner",
             "ioflo.base.wanting.WantStop/WantAbort/WantRun.action", "ioflo.base.building.Builder.build (concrete text)"]
ASSUMPTIONS = [
    "exact-time regime for E1: tick period and tasker periods are integers assigned after construction (skedder.period, framer.period); "
    "decimal periods are covered only by the E2 obligation below",
    "workers are framers with one frame recording the store stamp at every run; controller in back order bids stop all at tick K",
    "E1 bounds: K <= 4 (quick) / 6 (thorough) ticks, P in [1,3], p_i in [0,7], start time t0 in {0, 2P} (quick) / {0, P, 2P} (thorough), one shard each",
    "E2: Skedder.run's `retime + tasker.period`, `retime > stamp`, `self.stamp += self.period` extracted by AST pattern (a change to any of them changes the encoding); "
    "doubles with P in [2^-7,16], p = m*P exact, m in {2,3,4}, K <= 8 ticks; the converse monotonicity fact (p <= P => every tick) did not solve and is not claimed",
]

ORDERS = ["front", "mid", "back"]


def script(orders, K, abort=None, change=None):
    """orders: list of order words for workers t0.. in declaration order"""
    L = ["house h"]
    def worker(i, o):
        L.extend(["  framer t%d be active in %s first w" % (i, o), "    frame w", "      do verif stamp at recur"])
    def bidder(name, o, goal, bid):
        L.extend(["  framer %s be active in %s first b0" % (name, o), "    frame b0", "      do verif stamp at recur",
                  "      go b1 if recurred >= %s" % goal, "    frame b1", "      do verif stamp at recur", "      " + bid])
    pre = []
    if abort and abort[0] == "before":
        bidder("ab", "front", "agoal", "bid abort t%d" % abort[1])
    if change and change[0] == "before":
        bidder("pc", "front", "cgoal", "bid run t0 at pnew")
    for i, o in enumerate(orders):
        worker(i, o)
    if abort and abort[0] == "after":
        bidder("ab", "back", "agoal", "bid abort t%d" % abort[1])
    if change and change[0] == "after":
        bidder("pc", "back", "cgoal", "bid run t0 at pnew")
    L.extend(["  framer ctl be active in back first c0", "    frame c0", "      go c1 if recurred >= %d" % K,
              "    frame c1", "      bid stop all"])
    return "\n".join(L) + "\n"


def model_runs(P, p, K, abort_at=None, change=None):
    """ticks (indices) at which a worker with period p runs, t0 = 0.  abort_at: last tick index it may run
    (None = never aborted).  change = (tick index from which tasker.period is pnew, pnew)."""
    runs = []
    retime_k = 0           # ideal time of the next run: t0 + k*p accumulates exactly in integers
    for n in range(0, K + 1):
        if abort_at is not None and n > abort_at:
            break
        if n * P >= retime_k:
            runs.append(n)
            per = p
            if change is not None and n >= change[0]:
                per = change[1]
            retime_k = retime_k + per
    return runs


def h(sym, orders, K, mode, P=None, before=None, pmax=7, t0k=None):
    from ioflo.base import skedding
    n = len(orders)
    abort = change = None
    if mode == "abort":
        abort = ("before" if before else "after", 0)
    if mode == "change":
        change = ("before" if before else "after",)
    text = script(orders, K, abort, change)
    with flogen.notrace(sym):
        houses = flogen.build_text(text)
    house = houses[0]
    store = house.store
    if P is None:
        P = sym.int("P", 1, 3)
    ps = []
    for i in range(n):
        p = sym.int("p%d" % i, 0, pmax) if (mode == "plain" or i == 0) else 0
        ps.append(p)
        [f for f in house.framers if f.name == "t%d" % i][0].period = p
    a_at = c_at = pnew = None
    if abort:
        a_at = sym.int("agoal", 0, K)
        store.create("agoal").value = a_at
    if change:
        c_at = sym.int("cgoal", 0, K)
        pnew = sym.int("pnew", 0, pmax)
        store.create("cgoal").value = c_at
        store.create("pnew").value = pnew
    sk = skedding.Skedder(name="s", period=1.0, houses=houses)
    sk.period = P
    t0 = (sym.int("t0", 0, 2) if t0k is None else t0k) * P        # the run may start at a non-zero time (a multiple of the tick keeps tick times integral)
    sk.stamp = t0
    del STAMPS[:]
    orig_change = store.changeStamp
    nticks = [0]

    def changeStamp(stamp):
        nticks[0] += 1
        if nticks[0] > K + 12:
            raise RuntimeError("run did not end within %d ticks (controller bids stop all at tick %d)" % (K + 12, K))
        orig_change(stamp)
    store.changeStamp = changeStamp
    sk.run()
    taskorder = [f.name for f in house.taskables]
    # expected declared order: fronts, mids, backs in declaration order (computed from the selectors)
    decl = []
    if abort and abort[0] == "before":
        decl.append(("ab", "front"))
    if change and change[0] == "before":
        decl.append(("pc", "front"))
    decl += [("t%d" % i, o) for i, o in enumerate(orders)]
    if abort and abort[0] == "after":
        decl.append(("ab", "back"))
    if change and change[0] == "after":
        decl.append(("pc", "back"))
    decl.append(("ctl", "back"))
    exporder = [nm for o in ORDERS for (nm, oo) in decl if oo == o]
    sym.check(taskorder == exporder, "C02/harness/taskable-order", lambda: "%s %s" % (taskorder, exporder))
    # at most once per tick, order within a tick
    seen = set()
    last_stamp, last_pos = None, -1
    for (nm, st) in STAMPS:
        key = (nm, st)
        sym.check(key not in seen, "C02/tasker-ran-twice-in-one-tick", lambda: "%s at %s\n%s" % (nm, st, text))
        seen.add(key)
        pos = exporder.index(nm)
        if last_stamp is not None and st == last_stamp:
            sym.check(pos > last_pos, "C02/run-order-within-tick-differs-from-declared-order",
                      lambda: "%s\n%s" % (STAMPS, text))
        else:
            sym.check(last_stamp is None or st > last_stamp, "C02/harness/stamps-not-increasing")
        last_stamp, last_pos = st, pos
    # per worker: runs exactly at the model's ticks
    for i in range(n):
        nm = "t%d" % i
        runs = [st for (x, st) in STAMPS if x == nm]
        abort_at = None
        if abort and abort[1] == i:
            # the bid is issued in ab's frame b1 enter at tick a_at; the victim receives ABORT at its next run:
            # same tick if it runs after ab, otherwise its next due tick.  Either way no recorded run after that.
            bt = a_at if a_at >= 1 else 1      # transitions are first evaluated at tick 1
            abort_at = bt - 1 if abort[0] == "before" else bt
            sym.cover("aborted")
        chg = None
        if change and i == 0:
            # tasker.period is pnew from tick c_at on (for the reschedule made after t0's run in that tick when pc ran
            # before t0; from the next run's reschedule otherwise)
            ct = c_at if c_at >= 1 else 1
            chg = ((ct if change[0] == "before" else ct + 1), pnew)
            sym.cover("period-changed")
        exp = model_runs(P, ps[i], K, abort_at, chg)
        expst = [t0 + e * P for e in exp]
        sym.check(len(runs) == len(expst) and all(a == b for a, b in zip(runs, expst)),
                  "C02/run-times-differ-from-period-rule" + ("-after-abort" if abort_at is not None else "") + ("-after-period-change" if chg else ""),
                  lambda: "worker %s period %s tick %s: ran at %s expected %s (abort %s change %s)\n%s" % (nm, ps[i], P, runs, expst, abort_at, chg, text))
    sym.cover("ran")
    return True


# ---- E2: float drift of the accumulation arithmetic --------------------------------------------
def _kernel_ok():
    """the three arithmetic statements of Skedder.run, found by AST pattern; returns dict of booleans"""
    from ioflo.base import skedding
    src = inspect.getsource(skedding.Skedder.run)
    import textwrap
    tree = ast.parse(textwrap.dedent(src))
    found = dict(resched=None, due=None, advance=None)
    for node in ast.walk(tree):
        if isinstance(node, ast.BinOp) and isinstance(node.left, ast.Name) and node.left.id == "retime":
            found["resched"] = ast.dump(node)
        if isinstance(node, ast.Compare) and isinstance(node.left, ast.Name) and node.left.id == "retime":
            found["due"] = ast.dump(node)
        if isinstance(node, ast.AugAssign) and isinstance(node.target, ast.Attribute) and node.target.attr == "stamp":
            found["advance"] = ast.dump(node)
    return found


def e2_drift(params):
    import z3
    t0 = time.time()
    K = params["K"]
    found = _kernel_ok()
    F = z3.Float64()
    RNE = z3.RNE()
    binops = {"Add": lambda a, b: z3.fpAdd(RNE, a, b), "Sub": lambda a, b: z3.fpSub(RNE, a, b), "Mult": lambda a, b: z3.fpMul(RNE, a, b)}
    cmps = {"Gt": z3.fpGT, "GtE": z3.fpGEQ, "Lt": z3.fpLT, "LtE": z3.fpLEQ}
    def opname(dump, kinds):
        for k in kinds:
            if ("op=%s()" % k) in dump or ("ops=[%s()]" % k) in dump:
                return k
        return None
    if not all(found.values()):
        fails = {}
        validated = _validate_real(fails)
        return dict(paths=1, confirmed=0, unknown=1, failed=len(fails), exhausted=False, fails=fails, samples=[], solver_checks=0, solver_time=0,
                    validated=validated, extra="arithmetic kernel of Skedder.run not found by AST pattern: %s" % found)
    r_op = binops[opname(found["resched"], binops)]
    r_rhs_is_period = "attr='period'" in found["resched"]
    r_lhs = "retime"
    d_op = cmps[opname(found["due"], cmps)]
    d_rhs_stamp = "id='stamp'" in found["due"]
    a_op = binops[opname(found["advance"], binops)]
    fails, queries, stime, unknown, confirmed = {}, 0, 0.0, 0, 0
    samples = []
    for m in params["ms"]:
        P = z3.FP("P", F)
        s = z3.Solver()
        s.set("timeout", 120000)
        s.add(z3.fpGEQ(P, z3.FPVal(2.0 ** -7, F)), z3.fpLEQ(P, z3.FPVal(16.0, F)))
        if m == 1:
            p = P                       # 1*P is exactly P
        else:
            p = z3.fpMul(RNE, z3.FPVal(float(m), F), P)
            s.add(z3.fpToReal(p) == m * z3.fpToReal(P))
        stamp = z3.FPVal(0.0, F)
        retime = z3.FPVal(0.0, F)
        dev = []
        for n in range(K):
            notyet = d_op(retime, stamp) if d_rhs_stamp else d_op(stamp, retime)
            if retime.eq(stamp):        # syntactically the same term: x > x (x >= x) is decided without the solver
                notyet = z3.BoolVal(False) if d_op in (z3.fpGT, z3.fpLT) else z3.Not(z3.fpIsNaN(stamp))
            run = z3.simplify(z3.Not(notyet))
            dev.append(run != z3.BoolVal(n % m == 0))
            nxt = r_op(retime, p) if r_rhs_is_period else r_op(stamp, p)
            retime = nxt if z3.is_true(run) else (retime if z3.is_false(run) else z3.If(run, nxt, retime))
            stamp = a_op(stamp, P)
        s.add(z3.Or(dev))
        t = time.time()
        r = str(s.check())
        stime += time.time() - t
        queries += 1
        if r == "sat":
            mdl = s.model()
            Pv = float(mdl.eval(z3.fpToReal(P)).as_fraction()) if hasattr(mdl.eval(z3.fpToReal(P)), "as_fraction") else None
            key = "C02/float-drift/exact-multiple-period" if m > 1 else "C02/float-drift/period-equal-to-tick-skips-a-tick"
            fails.setdefault(key, dict(vals=dict(P=Pv, m=m, K=K), detail="period exactly %d x tick %r deviates from every-%d-th-tick within %d ticks" % (m, Pv, m, K), count=0))["count"] += 1
        elif r == "unsat":
            confirmed += 1
            samples.append(dict(m=m, K=K, result="unsat"))
        else:
            unknown += 1
    validated = _validate_real(fails)
    return dict(paths=queries, confirmed=confirmed, unknown=unknown, failed=len(fails), exhausted=unknown == 0, fails=fails,
                samples=samples or [dict(ms=params["ms"], K=K)], solver_checks=queries, solver_time=round(stime, 2),
                extra=dict(kernel=found), validated=validated, wall=round(time.time() - t0, 2))


def _validate_real(fails):
    """Validation of the encoding against the real code (not the deciding step): the REAL Skedder is run on decimal and
    dyadic ticks with a tasker whose period EQUALS the tick (m = 1).  The encoding says such a tasker runs every tick
    (both accumulations are the same operations on the same values); a real run that disagrees is a replayed
    counterexample in its own right."""
    n = 0
    for P in (0.1, 0.05, 0.2, 0.3, 0.01, 0.7, 0.125, 1.0):
        out = e2_replay(dict(P=P, m=1, K=40), {})
        n += 1
        if out[0] == "fail":
            fails.setdefault("C02/float-drift/period-equal-to-tick-skips-a-tick",
                             dict(vals=dict(P=P, m=1, K=40), detail=out[2], count=0))["count"] += 1
    return n


def e2_replay(vals, params):
    """run the REAL Skedder with tick P and a tasker of period m*P for K ticks; fail if it does not run every m-th tick"""
    from ioflo.base import skedding, housing, tasking
    from ioflo.base.globaling import STOPPED, STOP, START, RUN, STARTED, RUNNING, ABORTED, ACTIVE
    P, m, K = vals["P"], vals["m"], vals["K"]
    housing.House.Clear()
    housing.ClearRegistries()
    house = housing.House(name="h")
    house.assignRegistries()
    ticks = []
    n = [0]

    class T(tasking.Tasker):
        def makeRunner(self):
            self.status = STOPPED
            self.desire = STOP
            while True:
                c = (yield self.status)
                if c in (START, RUN):
                    ticks.append(n[0])
                    self.status = RUNNING if c == RUN else STARTED
                    self.desire = RUN
                elif c == STOP:
                    self.status = STOPPED
                else:
                    self.status = ABORTED
    t = T(name="t", store=house.store, period=m * P, schedule=ACTIVE)

    class C(tasking.Tasker):
        def makeRunner(self):
            self.status = STOPPED
            self.desire = STOP
            while True:
                c = (yield self.status)
                if c == START:
                    self.status = STARTED
                    self.desire = RUN
                    n[0] += 1
                elif c == RUN:
                    self.status = RUNNING
                    n[0] += 1
                    if n[0] >= K:
                        t.desire = STOP
                        self.desire = STOP
                elif c == STOP:
                    self.status = STOPPED
                else:
                    self.status = ABORTED
    c = C(name="c", store=house.store, schedule=ACTIVE)
    house.taskables = [t, c]
    sk = skedding.Skedder(name="s", period=P, houses=[house])
    sk.run()
    exp = [k for k in range(K) if k % m == 0]
    if ticks[:len(exp)] != exp[:len(ticks)] or len(ticks) < len(exp):
        return ("fail", "C02/float-drift/exact-multiple-period" if m > 1 else "C02/float-drift/period-equal-to-tick-skips-a-tick", "tick %r period %d*tick: ran at ticks %s, expected %s" % (P, m, ticks, exp))
    return ("pass", None, "")


def obligations(tier):
    out = []
    K = 4 if tier == "quick" else 6
    if tier == "quick":
        shapes = [["mid"], ["mid", "front"], ["back", "mid"]]
    else:
        shapes = [["mid"], ["mid", "mid"], ["mid", "front"], ["back", "mid"], ["back", "front"], ["mid", "back", "front"], ["front", "mid", "mid"]]
    # the start time of the run is t0k ticks (a shard parameter: a symbolic start time made a few path conditions
    # undecidable within the per-path solver budget, which left whole obligations inconclusive)
    for t0k in ((0, 2) if tier == "quick" else (0, 1, 2)):
      for orders in shapes:
        for P in ([None] if t0k == 0 else [1, 2, 3]):     # symbolic tick length only with start time 0 (t0 = t0k * P)
            out.append(Ob("periods/%s/K%d/start%d%s" % ("-".join(orders), K, t0k, "" if P is None else "/P%d" % P), h,
                          dict(orders=orders, K=K, mode="plain", t0k=t0k, P=P),
                          budget=900 if tier == "quick" else 1200, covers=["ran"],
                          bounds=dict(workers=len(orders), orders=orders, ticks=K, P="[1,3]" if P is None else P, p="[0,7]", start_time="%d ticks" % t0k)))
      for P in (1, 2, 3):
        for before in (True, False):
            for orders in ([["mid", "mid"]] if tier == "quick" else [["mid", "mid"], ["front", "back"]]):
                out.append(Ob("abort/%s/K%d/P%d/%s/start%d" % ("-".join(orders), K, P, "bidder-first" if before else "bidder-last", t0k), h,
                              dict(orders=orders, K=K, mode="abort", P=P, before=before, t0k=t0k),
                              budget=900 if tier == "quick" else 1200, covers=["aborted"],
                              bounds=dict(workers=len(orders), ticks=K, P=P, victim_period="[0,7]", abort_tick="[0,K]", start_time="%d ticks" % t0k)))
            out.append(Ob("period-change/mid/K%d/P%d/%s/start%d" % (K, P, "bidder-first" if before else "bidder-last", t0k), h,
                          dict(orders=["mid"], K=K, mode="change", P=P, before=before, pmax=3 if tier == "quick" else 7, t0k=t0k),
                          budget=900 if tier == "quick" else 1200, covers=["period-changed"],
                          bounds=dict(workers=1, ticks=K, P=P, period="[0,3]" if tier == "quick" else "[0,7]", change_tick="[0,K]",
                                      new_period="[0,3]" if tier == "quick" else "[0,7]", start_time="%d ticks" % t0k)))
    ms = [1, 2] if tier == "quick" else [1, 2, 3, 4]
    out.append(Ob("float/exact-multiple-period", e2_drift, dict(K=8, ms=ms), kind="e2", replay=e2_replay, budget=900,
                  bounds=dict(K=8, m=ms, P="double in [2^-7,16]")))
    return out
