"""C12 -- cloned framers run like their originals and never share relative state (E1).

Real Builder (aux ... as mine / as NAME, rear, raze, moot framers) and real
framer code.  A moot framer `orig` with framer-relative and frame-relative store
data is cloned several times (insular and named clones on different frames, a
clone nested inside another moot framer's clone, a clone reared at run time and
razed later).  The same inputs drive a second house in which the ORIGINAL (as a
plain auxiliary) hangs on the same frame alone.
 symbolic: the inputs x*, y of every tick; selectors: program variant.
 oracle: (i) per tick the (frame, context) action sequence of the clone under
 test equals that of the original run alone; (ii) the store paths that distinct
 clones resolve their framer-/frame-relative references to are pairwise disjoint,
 and each clone's relative counter counts only its own iterations; (iii) raze
 removes exactly the reared (razeable insular) clones of the named frame: they
 never act again and their names are free; build-time clones stay.
"""
from engine import Ob
from engine import flogen
from engine.flogen import LOG

PROPERTY = "C12"
ENGINE = "E1"
FUNCTIONS = ["ioflo.base.framing.Framer.clone/resolveMoots/prune/newAuxTag/newMootTag", "ioflo.base.framing.Frame.clone",
             "ioflo.base.acting.Act.clone/resolve/resolvePath", "ioflo.base.acting.Rearer.action", "ioflo.base.acting.Razer.action",
             "ioflo.base.building.Builder.buildAux/buildRear/buildRaze (concrete text)"]
ASSUMPTIONS = [
    "variants: V1 two insular clones + one named clone on two frames; V2 clone nested inside a clone of a second moot framer; "
    "V3 clone reared at run time into another frame, razed later (raze all / first / last); V4 moot framer with nested frames and an explicit `under` primary-child override",
    "moot framer: c0 (inc 'cnt of framer' at recur; go c1 if y >= 1; timeout 3) -> c1 (put 7 into 'mark of frame'; repeat 2) -> c2 (done me): explicit, implicit-clock and relative-data references",
    "the reference house replaces the clones on the frame under test by the plain original (schedule aux)",
    "integer store time; inputs in [0,1], fresh each tick; 3 (quick) / 4 (thorough) ticks after start",
]

START, RUN = 1, 2

ORIG = [
    "    frame c0",
    "      do verif record at enter", "      do verif record at recur", "      do verif record at exit",
    "      put 0 into cnt of framer",
    "      recur", "      inc cnt of framer with 1", "      native",
    "      go c1 if y >= 1",
    "      timeout 3",
    "    frame c1",
    "      do verif record at enter", "      do verif record at recur", "      do verif record at exit",
    "      put 7 into mark of frame",
    "      repeat 2",
    "    frame c2",
    "      do verif record at enter", "      do verif record at recur", "      do verif record at exit",
    "      done me",
]


UNDER = [
    "    frame top",
    "      do verif record at enter", "      do verif record at recur", "      do verif record at exit",
    "      under beta",
    "    frame alpha in top",
    "      do verif record at enter", "      do verif record at recur", "      do verif record at exit",
    "    frame beta in top",
    "      do verif record at enter", "      do verif record at recur", "      do verif record at exit",
    "      put 0 into cnt of framer",
    "      recur", "      inc cnt of framer with 1", "      native",
    "      go alpha if y >= 1",
]


def script(variant, who="all"):
    if variant == "V4":
        L = ["house h", "  framer orig be moot first top"] + UNDER
        L += ["  framer m be active first f0", "    frame f0", "      do verif record at enter", "      do verif record at exit",
              "      aux orig as mine", "      aux orig as twin", "      go f1 if x >= 1",
              "    frame f1", "      do verif record at enter", "      do verif record at exit", "      aux orig as mine", "      go f0 if x >= 1"]
        return "\n".join(L) + "\n"
    L = ["house h", "  framer orig be moot first c0"] + ORIG
    if variant == "V2":
        L += ["  framer outer be moot first o0", "    frame o0", "      do verif record at enter", "      do verif record at recur",
              "      do verif record at exit", "      aux orig as mine", "      put 0 into cnt of framer", "      recur", "      inc cnt of framer with 1", "      native"]
    L += ["  framer m be active first f0", "    frame f0", "      do verif record at enter", "      do verif record at exit"]
    if variant == "V1":
        L += ["      aux orig as mine", "      aux orig as twin", "      go f1 if x >= 1",
              "    frame f1", "      do verif record at enter", "      do verif record at exit", "      aux orig as mine", "      go f0 if x >= 1"]
    elif variant == "V2":
        L += ["      aux outer as mine", "      aux orig as mine", "      go f1 if x >= 1",
              "    frame f1", "      do verif record at enter", "      do verif record at exit", "      aux outer as second", "      go f0 if x >= 1"]
    else:
        L += ["      aux orig as mine", "      rear orig as mine be aux in frame f1", "      go f1 if x >= 1",
              "    frame f1", "      do verif record at enter", "      do verif record at exit", "      aux orig as mine", "      go f2 if x >= 1",
              "    frame f2", "      do verif record at enter", "      do verif record at exit", "      raze %s in frame f1" % who, "      go f3 if x >= 1",
              "    frame f3", "      do verif record at enter"]
    return "\n".join(L) + "\n"


def ref_script(variant):
    if variant == "V4":
        L = ["house h", "  framer orig be aux first top"] + UNDER
        L += ["  framer m be active first f0", "    frame f0", "      aux orig", "      go f1 if x >= 1", "    frame f1", "      go f0 if x >= 1"]
        return "\n".join(L) + "\n"
    L = ["house h", "  framer orig be aux first c0"] + ORIG
    if variant == "V3":
        L += ["  framer m be active first f0", "    frame f0", "      aux orig", "      go f1 if x >= 1", "    frame f1", "      go f2 if x >= 1",
              "    frame f2", "      go f3 if x >= 1", "    frame f3"]
    else:
        L += ["  framer m be active first f0", "    frame f0", "      aux orig", "      go f1 if x >= 1", "    frame f1", "      go f0 if x >= 1"]
    return "\n".join(L) + "\n"


def rel_paths(framer):
    """store paths of the Share objects referenced by the framer's own acts"""
    from ioflo.base import storing
    out = set()
    for frame in framer.frameNames.values():
        for lst in (frame.enacts, frame.reacts, frame.exacts, frame.preacts, frame.beacts):
            for act in lst:
                stack = [act]
                while stack:        # transitions keep their condition acts in parms['needs']
                    a = stack.pop()
                    parms = getattr(a, "parms", None) or {}
                    for v in parms.values():
                        if isinstance(v, storing.Share):
                            out.add(v.name)
                        elif isinstance(v, (list, tuple)):
                            stack.extend(x for x in v if hasattr(x, "parms"))
    return out


def h(sym, variant, ticks, who="all"):
    from ioflo.base import framing
    text = script(variant, who)
    with flogen.notrace(sym):
        house = flogen.build_text(text, "p.flo")[0]
        names_after_build = set(house.names["tasker"].keys())
    store = house.store
    m = [f for f in house.framers if f.name == "m"][0]
    x, y = store.create("x"), store.create("y")
    clones = [f for f in house.framers if not f.original]
    sym.check(len(clones) >= 2, "C12/harness/clones-built", lambda: str([f.name for f in house.framers]))
    # (ii) static: relative paths of distinct clones are disjoint
    rp = {}
    for c in clones:
        rp[c.name] = set(p for p in rel_paths(c) if p not in ("x", "y"))
        sym.check(rp[c.name], "C12/harness/no-relative-paths", lambda: c.name)
    cl = sorted(rp)
    for i in range(len(cl)):
        for j in range(i + 1, len(cl)):
            common = rp[cl[i]] & rp[cl[j]]
            sym.check(not common, "C12/distinct-clones-share-relative-store-path", lambda: "%s %s share %s\n%s" % (cl[i], cl[j], sorted(common), text))
    # run, collecting per tick logs
    inputs = []
    per_tick = []
    store.stamp = 0
    x.value = 0
    y.value = 0
    del LOG[:]
    m.runner.send(START)
    per_tick.append(list(LOG))
    inputs.append((0, 0))
    razed_at = None
    for k in range(1, ticks + 1):
        store.stamp = k
        xv = sym.int("x%d" % k, 0, 1)
        yv = sym.int("y%d" % k, 0, 1)
        x.value = xv
        y.value = yv
        inputs.append((xv, yv))
        del LOG[:]
        m.runner.send(RUN)
        per_tick.append(list(LOG))
    # clone under test: the first insular clone on f0
    f0 = m.frameNames["f0"]
    test = [a for a in f0.auxes if a.insular and a.name.startswith("m_orig")][0] if variant != "V2" else \
        [a for a in f0.auxes if a.name.startswith("m_orig")][0]
    tname = test.name
    # (ii) dynamic: each clone's framer-relative counter == its own number of recur actions in c0
    for c in [f for f in house.framers if not f.original and f.name in store.fetch("framer")]:
        sh = store.fetch("framer.%s.cnt" % c.name)
        if sh is None:
            continue
        if not any(e[0] == c.name and e[2] == "enter" for tk in per_tick for e in tk):
            continue     # never entered
        own = 0      # recur actions of the clone's first frame since that frame was last entered
        for tk in per_tick:
            for e in tk:
                if e[0] == c.name and e[1] in ("c0", "o0", "beta"):
                    if e[2] == "enter":
                        own = 0
                    elif e[2] == "recur":
                        own += 1
        sym.check(sh.value == own, "C12/clone-relative-counter-polluted",
                  lambda: "%s cnt %s own recurs %s\n%s" % (c.name, sh.value, own, text))
    # (i) compare with the original alone
    with flogen.notrace(sym):
        house2 = flogen.build_text(ref_script(variant), "q.flo")[0]
    s2 = house2.store
    m2 = [f for f in house2.framers if f.name == "m"][0]
    x2, y2 = s2.create("x"), s2.create("y")
    for k, (xv, yv) in enumerate(inputs):
        s2.stamp = k
        x2.value = xv
        y2.value = yv
        del LOG[:]
        m2.runner.send(START if k == 0 else RUN)
        ref = [(e[1], e[2]) for e in LOG if e[0] == "orig"]
        got = [(e[1], e[2]) for e in per_tick[k] if e[0] == tname]
        sym.check(got == ref, "C12/clone-trace-differs-from-original",
                  lambda: "tick %d clone %s %s original %s\n%s" % (k, tname, got, ref, text))
        if ref:
            sym.cover("clone-acted")
    # (iii) rear / raze
    if variant == "V3":
        f1 = m.frameNames["f1"]
        acted = {}
        for k, tk in enumerate(per_tick):
            for e in tk:
                acted.setdefault(e[0], []).append(k)
        entered_f2 = [k for k, tk in enumerate(per_tick) if ("m", "f2", "exit") in tk]   # raze's native context is exit
        reared = sorted(n for n in acted if n.startswith("m_orig") and n not in names_after_build)
        if entered_f2:
            sym.cover("razed")
            rz = entered_f2[0]
            reg = house.names["tasker"]
            # reared clones existing at raze time in f1
            victims_all = [n for n in reared if acted[n][0] <= rz]
            still = [a.name for a in f1.auxes]
            built = [a.name for a in f1.auxes if a.name in names_after_build]
            sym.check(len(built) == 1, "C12/raze-removed-a-build-time-clone", lambda: "%s\n%s" % (still, text))
            # a razed clone never acts again and its name is free
            for n in victims_all:
                if n not in still:
                    sym.check(all(k <= rz for k in acted[n]), "C12/razed-clone-ran-again", lambda: "%s acted %s razed at %s" % (n, acted[n], rz))
                    sym.check(n not in reg, "C12/razed-clone-name-not-freed", lambda: n)
            nvict = len([n for n in victims_all if n not in still])
            if who == "all":
                sym.check(all(n not in still for n in victims_all) or len(entered_f2) == 0, "C12/raze-all-left-a-razeable-clone",
                          lambda: "%s still %s" % (victims_all, still))
            elif victims_all:
                sym.check(nvict >= 1, "C12/raze-%s-removed-nothing" % who, lambda: "%s still %s" % (victims_all, still))
    return True


def obligations(tier):
    out = []
    ticks = 3 if tier == "quick" else 5
    for v in ("V1", "V2", "V4"):
        out.append(Ob("clones/%s/t%d" % (v, ticks), h, dict(variant=v, ticks=ticks), budget=900 if tier == "quick" else 2400,
                      covers=["clone-acted"], bounds=dict(variant=v, ticks=ticks, inputs="[0,1]")))
    for who in (("all",) if tier == "quick" else ("all", "first", "last")):
        out.append(Ob("clones/V3-rear-raze-%s/t%d" % (who, ticks + 1), h, dict(variant="V3", ticks=ticks + 1, who=who),
                      budget=900 if tier == "quick" else 2400, covers=["clone-acted", "razed"],
                      bounds=dict(variant="V3", raze=who, ticks=ticks + 1, inputs="[0,1]")))
    return out
