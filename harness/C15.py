"""C15 -- optional clauses of a command may appear in any order (E1, selector-symbolic).

Per verb of the statement's list (framer, frame, do, logger, log, server, aux apart from its
trailing condition, rear, need 'in frame'/'by'): a command is assembled from a symbolic choice of
k optional clauses (each clause key at most once, one of its spellings chosen symbolically) and a
symbolic permutation (Lehmer code).  The script with the clauses in the canonical (doc-string)
order and the script with the permuted order are both built by the REAL Builder; the two houses
must serialise identically (structure, links, every act's actor / inits / ioinits / prerefs /
parms / context, store contents) or both builds must fail with the same error (exception class and
message text).  On a difference the harness localises the adjacent clause pair whose order matters
and uses it as the counterexample class.
"""
from engine import Ob
from engine import flobuild as fb

PROPERTY = "C15"
ENGINE = "E1"
FUNCTIONS = ["ioflo.base.building.Builder.buildFramer", "Builder.buildFrame", "Builder.buildDo",
             "Builder.buildLogger", "Builder.buildLog", "Builder.buildServer", "Builder.buildAux",
             "Builder.buildRear", "Builder.makeMarkerNeed", "Builder.parseIndirect", "Builder.parseRelation",
             "Builder.parseDirect", "Builder.parseFields", "ioflo.base.housing.House.resolve"]
ASSUMPTIONS = [
    "selector-symbolic only: the clause subset, the spelling of each clause and the permutation (Lehmer code) are "
    "symbolic selectors realised per path; the Builder runs under NoTracing() on concrete text; the solver's role "
    "is the proof that the bounded choice space was exhausted",
    "indirect-path clauses (via of framer/frame/do/aux, from/for/qua of do) are spelled with no relation, one-level "
    "relations with and without name, and two-level relations whose last name is omitted (`of frame [name] of framer`, "
    "`of actor [name] of frame`, three levels in the thorough tier); log/loggee/server paths take no relation clause",
    "clause pools per verb are the doc-string clauses of the build method (plus the implemented `in order` clause of "
    "framer/logger/server); distinct keys per clause; at most one deliberately invalid clause value per command",
    "canonical order = doc-string order; compared: flobuild.dump_houses (no `human` text, no line counts) or "
    "(exception class, message attribute without the token list)",
    "raze has a single optional clause, so it has no non-trivial permutation (not exercised)",
    "rear: the frame name of `in frame <name>` is always given (the doc string makes it mandatory)",
    "fixed prelude: house, two shares, logger+log, aux framer fx, moot framer fm, active framer ff with frames fa, fb",
]

PRELUDE = """house h1
init .sx with value 5
init .sm with a 1 b 2
init .sp with pth "spx"
logger lg to /tmp/verif_c15_nolog
  log lo on update
    loggee .sx as tg
framer fx be aux first xa
  frame xa
framer fm be moot first ma
  frame ma
framer ff be active first fa
  frame fa
  frame fb in fa
"""

# two-level relations whose LAST relation name is omitted: the nested optional name sits directly in
# front of the following clause keyword (label class via[of-nested-relation])
VIA_NESTED_Q = [("via n of frame of framer", "via[of-frame-of-framer]"),
                ("via n of frame fa of framer", "via[of-frame-name-of-framer]"),
                ("via n of actor of frame", "via[of-actor-of-frame]"),
                ("via n of actor nm of frame", "via[of-actor-name-of-frame]")]
VIA_NESTED_T = VIA_NESTED_Q + [("via n of actor of frame of framer", "via[of-actor-of-frame-of-framer]"),
                               ("via n of actor nm of frame fa of framer", "via[of-actor-name-of-frame-name-of-framer]"),
                               ("via .n of frame main of framer", "via[abs-of-frame-main-of-framer]")]
VIA_Q = [("via n", "via[rel]"), ("via .n", "via[abs]"), ("via n of framer", "via[of-framer]"),
         ("via n of frame", "via[of-frame]"), ("via n of actor", "via[of-actor]"), ("via n of me", "via[of-me]")] + VIA_NESTED_Q
VIA_T = VIA_Q + [("via n of framer fx", "via[of-framer-name]"), ("via n of frame fa", "via[of-frame-name]"),
                 ("via n of root", "via[of-root]"), ("via me.n", "via[me-inline]")] + VIA_NESTED_T[len(VIA_NESTED_Q):]
NESTED = set(l for _, l in VIA_NESTED_T) | set(["from[of-frame-of-framer]", "from[of-actor-of-frame]",
                                                 "for[of-frame-of-framer]", "qua[of-actor-of-frame]"])

# verb -> dict(head, tail, before, after, indent, clauses=[(key, [(text,label),...])]) in canonical order
def specs(tier):
    via = VIA_Q if tier == "quick" else VIA_T
    S = {}
    S["framer"] = dict(head="framer f2", tail="", before="", after="  frame q\n  frame q2\n", clauses=[
        ("be", [("be active", "be"), ("be aux", "be"), ("be moot", "be"), ("be zz", "be[bad]")]),
        ("at", [("at 0.5", "at")]),
        ("first", [("first q2", "first")]),
        ("via", via),
        ("in", [("in front", "in"), ("in back", "in")]),
    ])
    S["frame"] = dict(head="  frame fc", tail="", before="", after="", clauses=[
        ("in", [("in fa", "in"), ("in zz", "in[dangling]")]),
        ("via", via),
    ])
    S["do"] = dict(head="    do doer param", tail="", before="", after="", clauses=[
        ("as", [("as nm", "as"), ("as my name", "as[two-part]")]),
        ("at", [("at enter", "at"), ("at zz", "at[bad]")]),
        ("via", via),
        ("with", [("with a 1", "with"), ("with 7", "with[value]")]),
        ("from", [("from b in .sm", "from"), ("from q of frame", "from[of-frame]"),
                  ("from q of frame of framer", "from[of-frame-of-framer]")] +
                 ([] if tier == "quick" else [("from q of actor of frame", "from[of-actor-of-frame]")])),
        ("per", [("per k p", "per"), ("per k2 .sx j \"me.z\"", "per[two]")]),
        ("for", [("for pth in .sp", "for")] +
                ([] if tier == "quick" else [("for pth in sq of frame of framer", "for[of-frame-of-framer]")])),
        ("cum", [("cum c 1", "cum")]),
        ("qua", [("qua b in .sm", "qua")] +
                ([] if tier == "quick" else [("qua b in sq of actor of frame", "qua[of-actor-of-frame]")])),
    ])
    S["logger"] = dict(head="logger l2", tail="", before="", after="", clauses=[
        ("to", [("to /tmp/verif_c15_x", "to")]),
        ("at", [("at 0.5", "at"), ("at xx", "at[bad]")]),
        ("be", [("be active", "be"), ("be slave", "be")]),
        ("in", [("in front", "in")]),
        ("flush", [("flush 2", "flush")]),
        ("keep", [("keep 3", "keep")]),
        ("cycle", [("cycle 10", "cycle")]),
        ("size", [("size 100", "size")]),
        ("reuse", [("reuse", "reuse")]),
    ])
    S["log"] = dict(head="  log l3", tail="", before="", after="    loggee .sm as t9\n", clauses=[
        ("to", [("to fnm", "to")]),
        ("as", [("as text", "as"), ("as binary", "as"), ("as zz", "as[bad]")]),
        ("on", [("on update", "on"), ("on streak", "on")]),
    ])
    S["server"] = dict(head="server sv", tail="", before="", after="", clauses=[
        ("at", [("at 0.5", "at")]),
        ("be", [("be active", "be"), ("be slave", "be")]),
        ("rx", [("rx h:1", "rx")]),
        ("tx", [("tx :2", "tx")]),
        ("in", [("in front", "in")]),
        ("to", [("to /tmp/verif_c15_x", "to")]),
        ("per", [("per a 1", "per")]),
        ("for", [("for b in .sm", "for")]),
    ])
    S["aux"] = dict(head="    aux fm", tail="", before="", after="", clauses=[
        ("as", [("as cl", "as"), ("as mine", "as[mine]")]),
        ("via", via),
    ])
    S["auxif"] = dict(head="    aux fx", tail=" if .sx == 5", before="", after="", clauses=[
        ("as", [("as cl", "as")]),
        ("via", via),
    ])
    S["rear"] = dict(head="    rear fm", tail="", before="", after="", clauses=[
        ("as", [("as mine", "as"), ("as zz", "as[bad]")]),
        ("be", [("be aux", "be"), ("be active", "be[bad]")]),
        ("in", [("in frame fa", "in")]),
    ])
    S["need"] = dict(head="    go fa if .sx is updated", tail="", before="", after="", clauses=[
        ("in", [("in frame fa", "in[name]"), ("in frame me", "in[me]"), ("in frame", "in[bare]")]),
        ("by", [("by mk", "by"), ('by "m k"', "by[quoted]")]),
    ])
    S["needand"] = dict(head="    go fa if q of frame is changed", tail=" and .sx == 5", before="", after="", clauses=[
        ("in", [("in frame fa", "in[name]"), ("in frame", "in[bare]")]),
        ("by", [("by mk", "by")]),
    ])
    return S


SPECS = {"quick": specs("quick"), "thorough": specs("thorough")}


def script(spec, clause_texts):
    line = spec["head"] + "".join(" " + c for c in clause_texts) + spec["tail"]
    return PRELUDE + spec["before"] + line + "\n" + spec["after"], line


def outcome(spec, clause_texts):
    text, line = script(spec, clause_texts)
    r = fb.build(text, cpu_limit=2.0)
    if r.hung:
        return ("hang",), line
    if r.exc is not None:
        return ("raise", type(r.exc).__name__, r.message()), line
    if not r.ok:
        return ("false",), line
    return ("ok", fb.dump_houses(r.houses)), line


def label_class(label):
    """the construct a clause spelling stands for (counterexample classes name constructs, not spellings)"""
    if label in NESTED:                    # two-level relation, the nested (last) name omitted
        return label.split("[")[0] + "[of-nested-relation]"
    if label in ("via[of-framer]", "via[of-frame]", "via[of-actor]", "from[of-frame]"):
        return label.split("[")[0] + "[of-relation]"   # ends in a relation keyword whose name is optional
    if label.endswith("[bad]") or label.endswith("[dangling]"):
        return label
    return label.split("[")[0]


def describe(o):
    if o[0] == "ok":
        return "builds"
    return " ".join(str(x) for x in o)[:140]


def h(sym, verb, tier, kmax, first):
    """first = index of the first clause key of the pool that is present (shard), or -1 for 'free'"""
    spec = SPECS[tier][verb]
    pool = spec["clauses"]
    chosen = []          # (pool index, variant index)
    for i, (key, variants) in enumerate(pool):
        if first >= 0 and i < first:
            continue
        if first >= 0 and i == first:
            v = fb.pick(sym, "v_" + key, len(variants))
            chosen.append((i, v))
            continue
        if len(chosen) >= kmax:
            break
        c = fb.pick(sym, "v_" + key, len(variants) + 1)     # 0 = clause absent
        if c:
            chosen.append((i, c - 1))
    k = len(chosen)
    sym.assume(k >= 2)
    # Lehmer code of the permutation
    order = list(range(k))
    perm = []
    for j in range(k - 1):
        d = sym.choice("p%d" % j, k - j)
        perm.append(order.pop(d))
    perm.append(order.pop(0))
    sym.assume(perm != list(range(k)))
    with fb.notrace(sym):
        items = [(pool[i][0],) + pool[i][1][v] for i, v in chosen]        # (key, text, label) canonical order
        nbad = sum(1 for it in items if it[2].endswith("[bad]") or it[2].endswith("[dangling]"))
        if nbad > 1:
            verdict = None
        else:
            canon, line_c = outcome(spec, [it[1] for it in items])
            permd, line_p = outcome(spec, [items[p][1] for p in perm])
            if canon == permd:
                verdict = ("same", canon[0])
            else:
                # localise: an adjacent pair of the failing order whose two orders already differ
                seq = [items[p] for p in perm]
                culprit = None
                for a, b in zip(seq, seq[1:]):
                    o1, _ = outcome(spec, [a[1], b[1]])
                    o2, _ = outcome(spec, [b[1], a[1]])
                    if o1 != o2:
                        culprit = (a, b)
                        break
                if culprit is None:
                    seqc = items
                    for a, b in zip(seqc, seqc[1:]):
                        o1, _ = outcome(spec, [a[1], b[1]])
                        o2, _ = outcome(spec, [b[1], a[1]])
                        if o1 != o2:
                            culprit = (a, b)
                            break
                diff = fb.first_diff(canon[1], permd[1]) if canon[0] == "ok" and permd[0] == "ok" else ""
                verdict = ("differ", culprit, "[%s] -> %s  BUT  [%s] -> %s %s" % (
                    line_c.strip(), describe(canon), line_p.strip(), describe(permd), diff[:160]))
    sym.assume(verdict is not None)     # more than one deliberately invalid clause: "same error" is not defined
    v = verb.replace("auxif", "aux").replace("needand", "need")
    if verdict[0] == "same":
        sym.cover("same-house" if verdict[1] == "ok" else "same-error")
        return True
    _, culprit, detail = verdict
    if culprit is None:
        sym.fail("C15/%s/permutation-changes-result" % v, detail)
    a, b = culprit
    keys = [kk for kk, _ in SPECS[tier][verb]["clauses"]]
    if keys.index(a[0]) > keys.index(b[0]):
        a, b = b, a          # name the pair in canonical order: the class is symmetric
    sym.fail("C15/%s/%s+%s-order-matters" % (v, label_class(a[2]), label_class(b[2])), detail)


def obligations(tier):
    quick = tier == "quick"
    out = []
    S = SPECS[tier]
    for verb, spec in S.items():
        pool = spec["clauses"]
        kmax = min(len(pool), 3 if quick else 4)
        if verb in ("do", "logger", "server") and quick:
            kmax = 2
        if verb == "do" and not quick:
            kmax = 3          # 9 clause keys x 11 via spellings: all triples (size-4 subsets would be ~150k paths)
        bounds = dict(head=spec["head"].strip(), tail=spec["tail"].strip(),
                      clauses={k: [t for t, _ in v] for k, v in pool}, clauses_per_command="2..%d" % kmax,
                      permutations="all (Lehmer code)")
        if len(pool) <= 3:
            out.append(Ob("perm/" + verb, h, dict(verb=verb, tier=tier, kmax=kmax, first=-1),
                          budget=300 if quick else 900, per_path=60,
                          covers=["same-error"] if verb == "auxif" else ["same-house"], bounds=bounds,
                          max_fail_keys=40))
        else:
            for f in range(len(pool) - 1):
                out.append(Ob("perm/%s/first=%s" % (verb, pool[f][0]), h,
                              dict(verb=verb, tier=tier, kmax=kmax, first=f),
                              budget=300 if quick else 1200, per_path=60, covers=["same-house"], bounds=bounds,
                              max_fail_keys=40))
    return out
