"""C25 -- transport errors are classified: connection loss cuts off, others raise (E1).

One socket operation of one transport object fails once with an error whose errno
is a *genuinely symbolic* integer in [1,200] (carried by a Python-level socket.error
subclass so that it is not realised).  The solver partitions the range by the
membership tests of the real code; the oracle is written from the statement:

  loss errno (reset, net/host unreachable or down, timed out, refused) or TLS EOF
      -> no exception, connection marked cut off, no data returned
  would-block -> no exception demanded / no change of connection state
  any other error -> propagates
  datagram stacks: loss-class destination errors -> no exception, packet kept for
      retry (send) / nothing received (receive)

For TLS classes the SSL-level error code is a selector over the exception objects
CPython's ssl module really raises (SSLError, SSLWantRead, SSLWantWrite, SSLEOFError).
"""
import errno
import ssl
import socket

from engine import Ob
from engine import doubles_aio as D
from ioflo.aio.tcp import clienting, serving
from ioflo.aio.udp import udping
from ioflo.aio.proto import stacking, packeting

PROPERTY = "C25"
ENGINE = "E1"
LEVEL_TEXT = "bounded model checking: symbolic errno in [1,200] through the real except-branches"
TECHNIQUE = "E1 symx: Python-level socket.error subclass keeps errno symbolic; solver partitions the errno range"
FUNCTIONS = [
    "ioflo.aio.tcp.clienting.Client.send", "Client.receive", "Client.accept", "Client.serviceTxes",
    "Client.serviceReceives",
    "ioflo.aio.tcp.clienting.ClientTls.send", "ClientTls.receive", "ClientTls.handshake", "ClientTls.connect",
    "ioflo.aio.tcp.serving.Incomer.send", "Incomer.receive", "Incomer.serviceTxes", "Incomer.serviceReceives",
    "ioflo.aio.tcp.serving.IncomerTls.send", "IncomerTls.receive", "IncomerTls.handshake",
    "IncomerTls.serviceHandshake", "ioflo.aio.tcp.serving.Acceptor.accept",
    "ioflo.aio.udp.udping.SocketUdpNb.send", "SocketUdpNb.receive",
    "ioflo.aio.proto.stacking.GramStack._serviceOneTxPkt", "GramStack.serviceTxPkts", "GramStack.serviceTxPktsOnce",
    "GramStack._serviceOneReceived", "Stack.serviceReceives", "Stack.serviceReceivesOnce",
    "ioflo.aio.proto.stacking.TcpClientStack.serviceTxPkts", "TcpClientStack.serviceReceives",
]
ASSUMPTIONS = [
    "socket doubles (engine/doubles_aio.py) raise, from exactly one operation, D.SymErr(e): a socket.error whose "
    "args/errno are Python properties returning the symbolic errno e in [1,200]",
    "connection-loss set (from the statement): ECONNRESET ENETRESET ENETUNREACH EHOSTUNREACH ENETDOWN EHOSTDOWN "
    "ETIMEDOUT ECONNREFUSED, plus ssl.SSLEOFError for TLS classes; would-block: EAGAIN/EWOULDBLOCK (plain), "
    "SSLWantRead/SSLWantWrite (TLS); connect_ex would-block results: EINPROGRESS EALREADY EAGAIN",
    "TLS classes: the SSL error is one of the real exception objects SSLError(1) SSLWantRead(2) SSLWantWrite(3) "
    "SSLEOFError(8) (selector); for an OSError the errnos 2, 3, 8 (ENOENT ESRCH ENOEXEC, which sockets do not "
    "produce and which collide with SSL error codes) are excluded; an OSError EAGAIN on a TLS socket may raise or not",
    "connect: connect_ex *returns* its errno; only 'loss or would-block result -> no exception, not connected' and "
    "'would-block result -> same socket, state unchanged' are demanded (the statement is silent on other results)",
    "handshake loss / TLS EOF: demanded 'no exception, not connected, and cut off or socket closed'",
    "datagram level: SocketUdpNb alone is only required to swallow would-block on receive and to propagate "
    "non-loss errors; the retry demand is checked on UdpStack over a real SocketUdpNb (udping.socket replaced by a "
    "factory of doubles); ETIME (in the code's list, not in the statement) may go either way",
    "stream stacks: TcpClientStack over a real Client built with clienting.socket replaced by a factory of doubles",
    "transport objects are built by their real constructors with a clock double as store and an ssl-context double",
]

CA = ("127.0.0.1", 50001)
HA = ("127.0.0.1", 8080)
SSL_CODES = [ssl.SSL_ERROR_SSL, ssl.SSL_ERROR_WANT_READ, ssl.SSL_ERROR_WANT_WRITE, ssl.SSL_ERROR_EOF]
CONNECT_BLOCK = (errno.EINPROGRESS, errno.EALREADY, errno.EAGAIN, errno.EWOULDBLOCK)


def build(kind, sock):
    clock = D.Clock(0)
    if kind == "Client":
        c = clienting.Client(ha=HA, bufsize=8, store=clock)
        c.cs, c.ca, c.accepted, c.opened = sock, CA, True, True
        return c
    if kind == "ClientTls":
        c = clienting.ClientTls(context=D.TlsContext(), ha=HA, bufsize=8, store=clock)
        c.cs, c.ca, c.accepted, c.connected, c.opened = sock, CA, True, True, True
        return c
    if kind == "Incomer":
        return serving.Incomer(ha=HA, bs=8, ca=CA, cs=sock, store=clock, timeout=0)
    if kind == "IncomerTls":
        ix = serving.IncomerTls(context=D.TlsContext(), ha=HA, bs=8, ca=CA, cs=sock, store=clock, timeout=0)
        ix.connected = True
        return ix
    raise AssertionError(kind)


def pick_error(sym, tls):
    """returns (make, cls, e): make() builds the exception; cls in loss|block|other|free; e errno or None"""
    if tls:
        ek = sym.choice("errkind", 1 + len(SSL_CODES))
        if ek > 0:
            code = SSL_CODES[ek - 1]
            cls = {ssl.SSL_ERROR_SSL: "other", ssl.SSL_ERROR_WANT_READ: "block",
                   ssl.SSL_ERROR_WANT_WRITE: "block", ssl.SSL_ERROR_EOF: "loss"}[code]
            return (lambda: D.ssl_error(code)), cls, None
    e = sym.int("errno", 1, 200)
    if tls:
        sym.assume(e != 2 and e != 3 and e != 8)
    if D.is_in(e, D.LOSS):
        cls = "loss"
    elif D.is_in(e, D.BLOCK):
        cls = "free-noraise" if tls else "block"
    else:
        cls = "other"
    return (lambda: D.SymErr(e, "double")), cls, e


def snapshot(obj):
    return (obj.cs, bool(obj.cutoff), bool(getattr(obj, "connected", True)),
            bool(getattr(obj, "accepted", True)), list(obj.txes), bytes(obj.rxbs))


def h_stream(sym, kind, op):
    """send / receive of the four stream classes, directly and through the service loop"""
    tls = kind.endswith("Tls")
    make, cls, e = pick_error(sym, tls)
    sock = D.ErrSock(make, local=CA, peer=HA)
    obj = build(kind, sock)
    via = sym.choice("via", 2)          # 0 direct call, 1 through serviceTxes / serviceReceives
    if op == "send" and via == 1:
        obj.tx(b"abc")
    before = snapshot(obj)
    raised = None
    r = None
    try:
        if op == "send":
            r = obj.send(b"abc") if via == 0 else obj.serviceTxes()
        else:
            r = obj.receive() if via == 0 else obj.serviceReceives()
    except Exception as ex:
        raised = ex
    key = "C25/%s/%s/" % (kind, op)
    sym.check(sock.calls == 1, "C25/harness/operation-not-reached")
    if cls == "loss":
        sym.cover("loss")
        sym.check(raised is None, key + "loss-error-raised", repr(raised))
        sym.check(obj.cutoff, key + "loss-error-not-cut-off")
        sym.check(not r, key + "loss-error-returned-data", repr(r))
        sym.check(bytes(obj.rxbs) == before[5], key + "loss-error-changed-rx-buffer")
    elif cls == "block":
        sym.cover("block")
        sym.check(raised is None, key + "would-block-raised", repr(raised))
        sym.check(not r, key + "would-block-returned-data", repr(r))
        sym.check(snapshot(obj) == before, key + "would-block-changed-state")
    elif cls == "free-noraise":
        sym.check(snapshot(obj)[:4] == before[:4], key + "would-block-changed-state")
    else:
        sym.cover("other")
        sym.check(raised is not None, key + "other-error-swallowed", "errno=%s" % (e,))
        sym.check(isinstance(raised, OSError), key + "other-error-replaced", repr(raised))
    return True


def h_connect(sym, kind):
    """connect_ex returns a symbolic result"""
    res = sym.int("result", 0, 200)
    fake = D.FakeSocketModule(lambda *pa, **kwa: D.ConnSock(lambda s, ha: res, local=CA, peer=HA))
    clienting.socket = fake
    clock = D.Clock(0)
    if kind == "Client":
        c = clienting.Client(ha=HA, bufsize=8, store=clock)
    else:
        c = clienting.ClientTls(context=D.TlsContext(), ha=HA, bufsize=8, store=clock)
    c.reopen()
    cs0 = c.cs
    raised = None
    r = None
    try:
        r = c.accept()
    except Exception as ex:
        raised = ex
    key = "C25/%s/connect/" % kind
    if res == 0 or res == errno.EISCONN:
        sym.cover("connected")
        sym.check(raised is None and r and c.accepted, key + "success-not-accepted", repr(raised))
        sym.check(c.ca == CA and c.ha == HA, key + "addresses-not-from-socket")
    elif D.is_in(res, D.LOSS):
        sym.cover("loss")
        sym.check(raised is None, key + "loss-result-raised", repr(raised))
        sym.check(not r and not c.accepted and not c.connected, key + "loss-result-connected")
    elif D.is_in(res, CONNECT_BLOCK):
        sym.cover("block")
        sym.check(raised is None, key + "would-block-raised", repr(raised))
        sym.check(not r and not c.accepted and not c.connected, key + "would-block-connected")
        sym.check(c.cs is cs0 and not c.cutoff and fake.created == 1, key + "would-block-changed-state")
    # any other result: the statement is silent (connect_ex reports errors by value), nothing is demanded
    return True


def h_handshake(sym, kind, part):
    make, cls, e = pick_error(sym, True)
    sym.assume((cls == "loss") == (part == "loss"))
    sock = D.ErrSock(make, local=CA, peer=HA)
    obj = build(kind, sock)
    obj.connected = False
    via = sym.choice("via", 2)
    raised = None
    r = None
    try:
        if via == 0:
            r = obj.handshake()
        elif kind == "ClientTls":
            r = obj.connect()
        else:
            r = obj.serviceHandshake()
    except Exception as ex:
        raised = ex
    key = "C25/%s/handshake/" % kind
    sym.check(sock.calls == 1, "C25/harness/operation-not-reached")
    if cls == "loss":
        sym.cover("loss")
        sym.check(raised is None, key + "loss-error-raised", repr(raised))
        sym.check(not r and not obj.connected, key + "loss-error-connected")
        sym.check(obj.cutoff or obj.cs is None or sock.closed, key + "loss-error-not-cut-off")
    elif cls == "block":
        sym.cover("block")
        sym.check(raised is None, key + "would-block-raised", repr(raised))
        sym.check(not r and not obj.connected, key + "would-block-connected")
        sym.check(obj.cs is sock and not sock.closed and not obj.cutoff, key + "would-block-changed-state")
    elif cls == "free-noraise":
        sym.check(not obj.connected, key + "would-block-connected")
    else:
        sym.cover("other")
        sym.check(raised is not None, key + "other-error-swallowed", "errno=%s" % (e,))
        sym.check(not obj.connected, key + "other-error-connected")
    return True


def h_accept(sym):
    e = sym.int("errno", 1, 200)
    srv = serving.Server(ha=("127.0.0.1", 8080), bufsize=8, store=D.Clock(0))
    srv.ss = D.ErrSock(lambda: D.SymErr(e), local=HA, peer=None)
    srv.opened = True
    raised = None
    try:
        srv.serviceAccepts()
    except Exception as ex:
        raised = ex
    if D.is_in(e, D.BLOCK):
        sym.cover("block")
        sym.check(raised is None, "C25/Server/accept/would-block-raised", repr(raised))
        sym.check(not srv.axes and not srv.ixes and srv.opened and srv.ss is not None,
                  "C25/Server/accept/would-block-changed-state")
    elif not D.is_in(e, D.LOSS):
        sym.cover("other")
        sym.check(raised is not None, "C25/Server/accept/other-error-swallowed", "errno=%s" % (e,))
    return True


def h_udp(sym, op):
    """SocketUdpNb alone"""
    e = sym.int("errno", 1, 200)
    sock = D.ErrSock(lambda: D.SymErr(e), local=("127.0.0.1", 5000), peer=None)
    s = udping.SocketUdpNb(ha=("127.0.0.1", 5000), bufsize=64)
    s.ss = sock
    s.opened = True
    raised = None
    r = None
    try:
        r = s.receive() if op == "recvfrom" else s.send(b"abc", ("127.0.0.1", 5001))
    except Exception as ex:
        raised = ex
    key = "C25/SocketUdpNb/%s/" % op
    if D.is_in(e, D.BLOCK):
        sym.cover("block")
        if op == "recvfrom":
            sym.check(raised is None, key + "would-block-raised", repr(raised))
            sym.check(isinstance(r, tuple) and len(r) == 2 and not r[0], key + "would-block-returned-data", repr(r))
        sym.check(s.opened and s.ss is sock, key + "would-block-changed-state")
    elif not D.is_in(e, D.LOSS) and e != errno.ETIME:
        sym.cover("other")
        sym.check(raised is not None, key + "other-error-swallowed", "errno=%s" % (e,))
    return True


def h_gram(sym, op, part="all"):
    """UdpStack (GramStack) over a real SocketUdpNb over a failing socket double"""
    e = sym.int("errno", 1, 200)
    if part != "all":
        sym.assume(D.is_in(e, D.LOSS) == (part == "loss"))
    made = []

    def factory(*pa, **kwa):
        s = D.ErrSock(lambda: D.SymErr(e), local=None, peer=None)
        made.append(s)
        return s
    udping.socket = D.FakeSocketModule(factory)
    stack = stacking.UdpStack(ha=("127.0.0.1", 5000), stamper=D.Clock(0))
    dest = ("127.0.0.1", 5001)
    once = sym.flag("once")
    raised = None
    key = "C25/UdpStack/%s/" % op
    if op == "sendto":
        pkt = packeting.Packet(stack=stack, packed=b"abc")
        stack.transmit(pkt, ha=dest)
        sym.check(len(stack.txPkts) == 1, "C25/harness/packet-not-queued")
        try:
            if once:
                stack.serviceTxPktsOnce()
            else:
                stack.serviceTxPkts()
        except Exception as ex:
            raised = ex
        sym.check(made and made[-1].calls == 1, "C25/harness/operation-not-reached")
        if D.is_in(e, D.LOSS):
            sym.cover("loss")
            sym.check(raised is None, key + "transient-error-raised", repr(raised))
            sym.check(len(stack.txPkts) == 1 and stack.txPkts[0][0] is pkt and stack.txPkts[0][1] == dest,
                      key + "transient-error-packet-not-kept")
        else:
            sym.cover("other")
    else:
        try:
            if once:
                stack.serviceReceivesOnce()
            else:
                stack.serviceReceives()
        except Exception as ex:
            raised = ex
        sym.check(made and made[-1].calls == 1, "C25/harness/operation-not-reached")
        if D.is_in(e, D.LOSS):
            sym.cover("loss")
            sym.check(raised is None, key + "transient-error-raised", repr(raised))
            sym.check(not stack.rxPkts, key + "transient-error-delivered-packet")
        elif D.is_in(e, D.BLOCK):
            sym.cover("block")
            sym.check(raised is None, key + "would-block-raised", repr(raised))
            sym.check(not stack.rxPkts, key + "would-block-delivered-packet")
        else:
            sym.cover("other")
    return True


def h_tcpstack(sym, op):
    """TcpClientStack over a real Client over a failing connected socket double"""
    e = sym.int("errno", 1, 200)
    clienting.socket = D.FakeSocketModule(lambda *pa, **kwa: D.ConnSock(lambda s, ha: 0, local=CA, peer=HA))
    stack = stacking.TcpClientStack(ha=HA, stamper=D.Clock(0), bufsize=8, timeout=0)
    sock = D.ErrSock(lambda: D.SymErr(e), local=CA, peer=HA)
    h = stack.handler
    h.cs, h.ca, h.accepted, h.opened = sock, CA, True, True
    raised = None
    key = "C25/TcpClientStack/%s/" % op
    if op == "send":
        stack.transmit(packeting.Packet(stack=stack, packed=b"abc"))
    try:
        if op == "send":
            stack.serviceTxPkts()
        else:
            stack.serviceReceives()
    except Exception as ex:
        raised = ex
    sym.check(sock.calls == 1, "C25/harness/operation-not-reached")
    if D.is_in(e, D.LOSS):
        sym.cover("loss")
        sym.check(raised is None, key + "loss-error-raised", repr(raised))
        sym.check(h.cutoff, key + "loss-error-not-cut-off")
        sym.check(not stack.rxPkts, key + "loss-error-delivered-packet")
    elif D.is_in(e, D.BLOCK):
        sym.cover("block")
        sym.check(raised is None, key + "would-block-raised", repr(raised))
        sym.check(not h.cutoff and h.connected and h.cs is sock, key + "would-block-changed-state")
        if op == "send":
            left = bytes(stack.txbs) + b"".join(bytes(p.packed) for p in stack.txPkts)
            sym.check(left == b"abc", key + "would-block-lost-packet", repr(left))
    else:
        sym.cover("other")
        sym.check(raised is not None, key + "other-error-swallowed", "errno=%s" % (e,))
    return True


def obligations(tier):
    rng = dict(errno="symbolic int in [1,200]", failing_operations=1)
    out = []
    for kind in ("Client", "ClientTls", "Incomer", "IncomerTls"):
        tls = kind.endswith("Tls")
        for op in ("send", "recv"):
            out.append(Ob("%s/%s" % (kind, op), h_stream, dict(kind=kind, op=op), budget=120,
                          covers=["loss", "block", "other"],
                          bounds=dict(rng, ssl_codes=SSL_CODES if tls else None, via="direct | service loop")))
    for kind in ("Client", "ClientTls"):
        out.append(Ob("%s/connect" % kind, h_connect, dict(kind=kind), budget=120,
                      covers=["connected", "loss", "block"],
                      bounds=dict(connect_ex_result="symbolic int in [0,200]")))
    # shards whose loss class is split off: a cover label is only counted on confirmed paths, so a shard in
    # which every loss path fails would otherwise be reported as vacuous instead of as a violation
    for kind in ("ClientTls", "IncomerTls"):
        out.append(Ob("%s/handshake" % kind, h_handshake, dict(kind=kind, part="rest"), budget=120,
                      covers=["block", "other"], bounds=dict(rng, ssl_codes=SSL_CODES, classes="would-block, other")))
        out.append(Ob("%s/handshake-loss" % kind, h_handshake, dict(kind=kind, part="loss"), budget=120,
                      bounds=dict(rng, ssl_codes=SSL_CODES, classes="loss errno, TLS EOF")))
    out.append(Ob("Server/accept", h_accept, {}, budget=120, covers=["block", "other"], bounds=rng))
    for op in ("recvfrom", "sendto"):
        out.append(Ob("SocketUdpNb/" + op, h_udp, dict(op=op), budget=120, covers=["block", "other"], bounds=rng))
    out.append(Ob("UdpStack/sendto", h_gram, dict(op="sendto"), budget=120, covers=["loss", "other"],
                  bounds=dict(rng, via="serviceTxPkts | serviceTxPktsOnce")))
    out.append(Ob("UdpStack/recvfrom", h_gram, dict(op="recvfrom", part="rest"), budget=120, covers=["block", "other"],
                  bounds=dict(rng, via="serviceReceives | serviceReceivesOnce", classes="would-block, other")))
    out.append(Ob("UdpStack/recvfrom-loss", h_gram, dict(op="recvfrom", part="loss"), budget=120,
                  bounds=dict(rng, via="serviceReceives | serviceReceivesOnce", classes="loss errno")))
    for op in ("send", "recv"):
        out.append(Ob("TcpClientStack/" + op, h_tcpstack, dict(op=op), budget=120,
                      covers=["loss", "block", "other"], bounds=rng))
    return out
