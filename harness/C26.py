"""C26 -- a TCP server keeps one live connection entry per peer address (E1, inductive step).

Real `Server` / `ServerTls` (and the real `Incomer` / `IncomerTls` they create) over socket
doubles: a listening-socket double whose `accept()` hands out queued connection doubles and
then raises EAGAIN, connection doubles that record `shutdown` / `close` and answer `recv`
under solver control, and (TLS) a context double whose `wrap_socket` returns the connection
double, whose `do_handshake` succeeds or wants-read under solver control.

Pre-state (built through the real accept path, each peer once): for every peer address in
{A, B} one of absent / live / stale-open (far side gone: cutoff set, socket not yet closed)
/ stale-closed (cutoff set and closed with closeIx) / closed-live (closed with closeIx, not
cutoff) / (TLS only) pending handshake.  One operation:

* accept     1..m queued connections from peers in {A, B, C} (repeats allowed) + serviceConnects()
             (TLS: + one more serviceConnects() after every handshake is allowed to complete)
* closeIx / removeIx / removeIx(shutclose=False) for a peer in {A, B, C}
* serviceReceivesAllIx / serviceTxesAllIx / serviceAll with nothing to accept

Post (from the statement): no exception (ValueError only for an address that has no entry);
exactly one entry per peer that has an entry or connected, keyed by its address, holding the
socket of that peer's latest connection; entries of untouched peers are the same objects; a
replaced stale entry's socket had shutdown() called (or was closed); a removed entry's socket is
closed.
"""
import errno
import ssl

from engine import Ob
from engine import symx  # noqa: F401
from ioflo.base.storing import Store, Node
from ioflo.aio.tcp import serving

PROPERTY = "C26"
ENGINE = "E1"
FUNCTIONS = ["ioflo.aio.tcp.serving.Server.serviceAxes", "Server.serviceConnects", "Acceptor.serviceAccepts", "Acceptor.accept",
             "Server.closeIx", "Server.removeIx", "Server.shutdownIx", "Server.serviceReceivesAllIx", "Server.serviceTxesAllIx",
             "Server.serviceAll", "ServerTls.serviceAxes", "ServerTls.serviceCxes", "ServerTls.serviceConnects",
             "Incomer.__init__", "Incomer.shutdown", "Incomer.shutclose", "Incomer.serviceReceives", "Incomer.receive",
             "IncomerTls.__init__", "IncomerTls.shutclose", "IncomerTls.serviceHandshake", "IncomerTls.receive"]
TECHNIQUE = "E1: symbolic execution of the real Server/ServerTls/Incomer/IncomerTls over socket and TLS-context doubles; inductive step from any table state"
LEVEL_TEXT = "bounded model checking: peers {A,B} x {absent, live, stale-open, stale-closed, closed-live, (TLS) pending} + one op (accept 1..2/3 queued connections from {A,B,C}, closeIx, removeIx, service calls)"
LEVEL_NOTE = "table states, ops and peers are selector-symbolic; shutdown errors, handshake outcomes and recv behaviour symbolic"
ASSUMPTIONS = [
    "listening socket, connection sockets and the TLS context are doubles; accept() raises EAGAIN when its queue is empty",
    "peer addresses are the concrete tuples A, B, C (used as dict keys by the code); table states, operation, peers of the queued "
    "connections are selector-symbolic; shutdown-raises-ENOTCONN, handshake outcome and recv behaviour are symbolic bools / ints",
    "a connection double's getpeername() equals the address returned by accept(); getsockname() equals the server's eha",
    "'shuts the stale connection down' is asserted as: shutdown() was called on the replaced stale entry's socket, or it was closed; "
    "only for entries that were stale (cutoff) and still had a socket; replacing a live or already closed entry is only required not to raise",
    "service calls on a table that contains an entry closed with closeIx but not cut off are outside the statement and not exercised",
    "TLS: a connection whose handshake is pending is not yet an entry of the connection table; the final state is checked after the handshakes completed",
    "Store built without __init__'s bookkeeping shares, stamp 0",
]

A = ("10.0.0.1", 4001)
B = ("10.0.0.2", 4002)
C = ("10.0.0.3", 4003)
PEERS = [A, B, C]
EHA = ("127.0.0.1", 5000)
STATES = ["absent", "live", "stale-open", "stale-closed", "closed-live", "pending"]


class SockD:
    count = 0

    def __init__(self, peer):
        SockD.count += 1
        self.n = SockD.count
        self.peer = peer
        self.shut = []
        self.closed = False
        self.shut_raises = False
        self.rxmode = 0          # 0: EAGAIN, 1: far side closed (b''), 2: one chunk then EAGAIN
        self.hs_ok = True
        self.handshakes = 0
        self.tls = False

    def setblocking(self, flag):
        pass

    def getpeername(self):
        return self.peer

    def getsockname(self):
        return EHA

    def shutdown(self, how):
        if self.closed:
            raise OSError(errno.EBADF, "closed")
        self.shut.append(how)
        if self.shut_raises:
            raise OSError(errno.ENOTCONN, "not connected")

    def close(self):
        self.closed = True

    def recv(self, bs):
        if self.closed:
            raise OSError(errno.EBADF, "closed")
        if self.rxmode == 1:
            return b""
        if self.rxmode == 2:
            self.rxmode = 0
            return b"data"
        if self.tls:    # a wrapped non-blocking socket reports "no data yet" as SSLWantReadError
            raise ssl.SSLWantReadError(ssl.SSL_ERROR_WANT_READ, "want read")
        raise BlockingIOError(errno.EAGAIN, "again")

    def send(self, data):
        if self.closed:
            raise OSError(errno.EBADF, "closed")
        return len(data)

    def do_handshake(self):
        self.handshakes += 1
        if not self.hs_ok:
            raise ssl.SSLError(ssl.SSL_ERROR_WANT_READ, "want read")


class ListenD:
    def __init__(self):
        self.pending = []

    def accept(self):
        if self.pending:
            return self.pending.pop(0)
        raise BlockingIOError(errno.EAGAIN, "again")

    def shutdown(self, how):
        pass

    def close(self):
        pass


class ContextD:
    def wrap_socket(self, sock, server_side=False, do_handshake_on_connect=True, **kwa):
        sock.tls = True
        return sock


def mkstore():
    store = Store.__new__(Store)
    store.name = "s"
    store.stamp = 0
    store.house = None
    store.shares = Node().byName('')
    return store


def mkserver(tls):
    if tls:
        srv = serving.ServerTls(context=ContextD(), ha=EHA, store=mkstore(), timeout=0)
    else:
        srv = serving.Server(ha=EHA, store=mkstore(), timeout=0)
    srv.ss = ListenD()
    srv.opened = True
    return srv


def table(srv):
    return dict((ca, ix) for ca, ix in srv.ixes.items())


def h(sym, tls, op, m):
    srv = mkserver(tls)
    cls = "ServerTls" if tls else "Server"
    nstates = 6 if tls else 5
    # ---- pre-state through the real accept path ----
    state = {}
    sock = {}
    for name, ca in (("A", A), ("B", B)):
        st = STATES[sym.choice("st_" + name, nstates)]
        if op.startswith("service") and st in ("closed-live", "pending"):
            sym.assume(False)
        state[ca] = st
        if st == "absent":
            continue
        s = SockD(ca)
        sock[ca] = s
        if st == "pending":
            s.hs_ok = False
        srv.ss.pending.append((s, ca))
        srv.serviceConnects()
        if st == "pending":
            sym.check(ca in srv.cxes and ca not in srv.ixes, "C26/harness/pre-state-pending")
            continue
        sym.check(ca in srv.ixes and srv.ixes[ca].cs is s, "C26/harness/pre-state")
        if st in ("stale-open", "stale-closed"):
            srv.ixes[ca].cutoff = True
            s.shut_raises = sym.bool("enotconn_" + name)
        if st in ("stale-closed", "closed-live"):
            srv.closeIx(ca)
            sym.check(s.closed and srv.ixes[ca].cs is None, "C26/harness/pre-state-closed")
    before = table(srv)
    had_sock = dict((ca, ix.cs is not None) for ca, ix in before.items())
    shut_before = dict((ca, len(s.shut)) for ca, s in sock.items())

    def guarded(key, fn, allow_valueerror=False):
        try:
            fn()
        except ValueError as e:
            if allow_valueerror:
                return "ValueError"
            sym.fail("C26/%s/%s/raised-ValueError" % (cls, key), str(e)[:100])
        except Exception as e:
            sym.fail("C26/%s/%s/raised-%s" % (cls, key, type(e).__name__), str(e)[:100])
        return None

    def untouched(skip=()):
        after = table(srv)
        for ca, ix in before.items():
            if ca in skip:
                continue
            sym.check(ca in after and after[ca] is ix, "C26/%s/%s/other-entry-disturbed" % (cls, op))
        for ca, ix in after.items():
            sym.check(ix.ca == ca, "C26/%s/%s/entry-keyed-by-wrong-address" % (cls, op))

    if op == "accept":
        k = sym.int("m", 1, m)
        news = []
        latest = {}
        for j in range(m):
            if not (j < k):
                break
            ca = PEERS[sym.choice("peer%d" % j, 3)]
            s = SockD(ca)
            if tls:
                s.hs_ok = sym.bool("hs%d" % j)
            news.append(s)
            latest[ca] = s
            srv.ss.pending.append((s, ca))
        guarded("accept", srv.serviceConnects)
        if tls:
            for s in news + list(sock.values()):
                s.hs_ok = True
            guarded("accept", srv.serviceConnects)
            sym.check(len(srv.cxes) == 0, "C26/ServerTls/accept/handshake-complete-but-not-moved")
        after = table(srv)
        expect = set(before) | set(latest) | set(ca for ca, st in state.items() if st == "pending")
        sym.check(set(after) == expect, "C26/%s/accept/entries-differ-from-connected-peers" % cls,
                  "table %r expected %r" % (sorted(after), sorted(expect)))
        for ca, s in latest.items():
            sym.check(after[ca].cs is s, "C26/%s/accept/entry-not-latest-connection" % cls)
            sym.check(not s.closed, "C26/%s/accept/new-connection-closed" % cls)
            if ca in before:
                sym.cover("replaced-existing")
                sym.check(after[ca] is not before[ca], "C26/%s/accept/stale-entry-kept" % cls)
                if state[ca] == "stale-open":
                    sym.cover("replaced-stale")
                    old = sock[ca]
                    sym.check(len(old.shut) > shut_before[ca] or old.closed,
                              "C26/%s/accept/stale-connection-not-shut-down" % cls)
            else:
                sym.cover("new-peer")
        if len(news) > len(latest):
            sym.cover("repeated-peer-in-one-call")
        for ca, st in state.items():
            if st == "pending" and ca not in latest:
                sym.check(after[ca].cs is sock[ca], "C26/ServerTls/accept/pending-connection-lost")
        untouched(skip=set(latest))
        return True

    if op in ("closeIx", "removeIx", "removeIx-noclose"):
        ca = PEERS[sym.choice("target", 3)]
        present = ca in before
        if op == "closeIx":
            r = guarded(op, lambda: srv.closeIx(ca), allow_valueerror=not present)
        elif op == "removeIx":
            r = guarded(op, lambda: srv.removeIx(ca), allow_valueerror=not present)
        else:
            r = guarded(op, lambda: srv.removeIx(ca, shutclose=False), allow_valueerror=not present)
        after = table(srv)
        if not present:
            sym.cover("no-such-entry")
            sym.check(set(after) == set(before), "C26/%s/%s/table-changed-for-unknown-address" % (cls, op))
            untouched()
            return True
        sym.cover("entry-present")
        if op == "closeIx":
            sym.check(set(after) == set(before), "C26/%s/closeIx/table-keys-changed" % cls)
            if had_sock[ca]:
                sym.cover("had-socket")
                sym.check(sock[ca].closed, "C26/%s/closeIx/socket-not-closed" % cls)
        else:
            sym.check(set(after) == set(before) - set([ca]), "C26/%s/%s/entry-not-removed" % (cls, op))
            if op == "removeIx" and had_sock[ca]:
                sym.cover("had-socket")
                sym.check(sock[ca].closed, "C26/%s/removeIx/socket-not-closed" % cls)
        untouched(skip=set([ca]))
        return True

    # service calls with nothing to accept
    for name, ca in (("A", A), ("B", B)):
        if state[ca] == "live":
            sock[ca].rxmode = sym.int("rx_" + name, 0, 2)
    guarded(op, getattr(srv, op))
    after = table(srv)
    sym.check(set(after) == set(before), "C26/%s/%s/table-keys-changed" % (cls, op))
    untouched()
    for ca, st in state.items():
        if st == "live":
            sym.cover("live-entry")
            sym.check(not sock[ca].closed and after[ca].cs is sock[ca], "C26/%s/%s/live-connection-dropped" % (cls, op))
    return True


def obligations(tier):
    quick = tier == "quick"
    m = 2 if quick else 3
    out = []
    for tls in (False, True):
        cls = "ServerTls" if tls else "Server"
        base = dict(peers_pre=["A", "B"], peers_new=["A", "B", "C"], states=STATES[:6 if tls else 5])
        out.append(Ob("%s/accept" % cls, h, dict(tls=tls, op="accept", m=m), hang_s=240, budget=300 if quick else 900,
                      covers=["replaced-existing", "replaced-stale", "new-peer", "repeated-peer-in-one-call"],
                      bounds=dict(base, queued_connections=[1, m], steps="1 (inductive) from any table state")))
        for op in ("closeIx", "removeIx", "removeIx-noclose"):
            out.append(Ob("%s/%s" % (cls, op), h, dict(tls=tls, op=op, m=0), hang_s=240, budget=200,
                          covers=["no-such-entry", "entry-present"] + (["had-socket"] if op != "removeIx-noclose" else []),
                          bounds=dict(base, steps="1 (inductive) from any table state")))
        for op in ("serviceReceivesAllIx", "serviceTxesAllIx", "serviceAll"):
            out.append(Ob("%s/%s" % (cls, op), h, dict(tls=tls, op=op, m=0), hang_s=240, budget=200, covers=["live-entry"],
                          bounds=dict(base, recv=["EAGAIN", "closed by peer", "one chunk"],
                                      steps="1 (inductive) from any table state without closed-live / pending entries")))
    return out
