"""C22 -- each log rule records exactly the runs / updates it promises (E1, bounded histories).

The unmodified Logger (runner START / RUN / STOP) and Log objects run against the in-memory
file-system double (engine/doubles_fs.py).  A history is START, then K steps chosen by the solver
from {advance the store stamp by a symbolic d >= 0, stamped write of a symbolic value to a logged
field, write to the "other" field / share of the configuration, unstamped write, RUN}, then STOP
(which performs the final logger run and closes the file).  After every logger run the text that
was appended to the log file is compared with what the rule promises (model kept by the harness):

  never   nothing                      once    one record, at the first run
  always  one record per run           update  first run; afterwards a record iff a stamped write to a
  change  first run; afterwards a              logged field happened after the previous record (a write
          record iff a logged field            to an unlogged field / an unstamped write: record optional)
          differs from its last logged value
  streak / deck: every queued element once, FIFO, queue empty afterwards.

restart/...: START, steps, STOP, steps without RUN, START, steps, STOP with the same Logger.
A record must carry the store stamp of the run and the current values of the logged fields.
Every new file starts with exactly one header; appending to an existing file adds none.
"""
from engine import Ob
from engine.doubles_fs import MemFS, install
from collections import deque
from ioflo.aid.odicting import odict
from ioflo.base import logging as L, tasking
from ioflo.base.storing import Store, Node
from ioflo.base.globaling import (NEVER, ONCE, ALWAYS, UPDATE, CHANGE, STREAK, DECK,
                                  START, RUN, STOP)

PROPERTY = "C22"
ENGINE = "E1"
FUNCTIONS = ["ioflo.base.logging.Log.once", "Log.always", "Log.never", "Log.update", "Log.change",
             "Log.streak", "Log.deck", "Log.log", "Log.logStreak", "Log.logDeck", "Log.prepare",
             "Log.buildHeader", "Log.reopen", "Log.close", "Log.flush", "Log.addLoggee",
             "ioflo.base.logging.Logger.makeRunner", "Logger.log", "Logger.reopen", "Logger.prepare",
             "Logger.createPath", "ioflo.aid.filing.ocfn", "ioflo.base.storing.Share.update", "Share.change"]
ASSUMPTIONS = [
    "file system = in-memory double engine/doubles_fs.py installed as ioflo.base.logging.os / ioflo.aid.filing.os+open (real ocfn runs on it); no I/O errors",
    "exact integer time: store.stamp is assigned directly (never decreases); values are small ints",
    "Store built without __init__'s bookkeeping shares; store.house is a stub with a name; Logger built with concrete args (reuse=True, keep=0, flushPeriod=1000)",
    "one session START .. RUN* .. STOP per history, or (restart/...) two sessions of the same Logger with writes in between; one Log per Logger; text kind",
    "at the START of a restarted logger a record is demanded only where both readings of a restart (first run of a new session / next run of the same history) demand it; an extra record there is accepted",
    "a 'logger run' is one call of Logger.log by the runner (START, each RUN, the final log of STOP)",
    "update rule: a write to a field that is not logged, or a write through Share.change (no stamp), neither demands nor forbids a record",
    "fields are never deleted from a share; a logged field that does not exist yet is logged as an empty column",
    "deck entries are mappings; streak values are list / deque / odict; records compared as text",
]

RULENAME = {NEVER: "never", ONCE: "once", ALWAYS: "always", UPDATE: "update", CHANGE: "change",
            STREAK: "streak", DECK: "deck"}
ABSENT = "<absent>"
KNOWN_SAME_TICK = "C22/update/update-after-record-in-same-tick-not-logged"
RESTART_CHANGE = "C22/change/change-while-stopped-not-logged-at-restart"


class _House(object):
    name = "h"


def _world(rule):
    L.Logger.Clear(); tasking.Tasker.Clear(); L.Log.Clear()
    store = Store.__new__(Store)
    store.name = "s"
    store.stamp = 0
    store.house = _House()
    store.shares = Node().byName('')
    logger = L.Logger(name="lgr", store=store, prefix="/x", reuse=True, flushPeriod=1000)
    logger.flushStamp = 0                   # all-int time domain (Logger.__init__ puts 0.0 there)
    logger.cycleStamp = 0
    log = L.Log(name="lg", store=store, kind="text", rule=rule)
    logger.addLog(log)
    return store, logger, log


def _shutdown(ctx):
    """finish the runner generator while the double is still installed (its finally clause closes the files)"""
    logger = ctx.get("logger")
    if logger is not None and logger.runner is not None:
        try:
            logger.runner.close()
        except Exception:
            pass


class _Plain(object):
    def __enter__(self):
        return self

    def __exit__(self, *a):
        return False


def _untraced(sym):
    """text bookkeeping on concrete strings needs no symbolic tracing (the double realises written text)"""
    if sym.symbolic:
        from crosshair.tracers import NoTracing
        return NoTracing()
    return _Plain()


def _newlines(sym, fs, path, seen, header, strip_header):
    """(new length, complete lines appended since `seen` minus the header if expected, problem)"""
    with _untraced(sym):
        text = fs.logical(path)
        if text is None:
            text = ""
        new = text[seen:]
        if strip_header:
            if header == "" or not new.startswith(header):
                return len(text), [], ("C22/header/new-file-does-not-start-with-header", "%r" % new[:60])
            new = new[len(header):]
        lines = new.split("\n")
        if lines[-1] != "":
            return len(text), [], ("partial-line-written", "%r" % new[-40:])
        lines = lines[:-1]
        hl = header.split("\n")[:-1]
        for ln in lines:
            if ln in hl:
                return len(text), [], ("C22/header/header-repeated", "%r" % ln)
        return len(text), lines, None


# ---------------------------------------------------------------------------------------------
# once / always / never / update / change
# ---------------------------------------------------------------------------------------------
SELS = ["all", "one", "late", "two"]


def h_rule(sym, rule, sel, K, dmax, vmax, nops, pre=False, op0=None, stop_at=None, start_at=None):
    fs = MemFS()
    fs.realize = sym.realize
    undo = install(fs)
    ctx = {}
    try:
        return _rule(sym, fs, ctx, rule, sel, K, dmax, vmax, nops, pre, op0, stop_at, start_at)
    finally:
        _shutdown(ctx)
        undo()


def _rule(sym, fs, ctx, rule, sel, K, dmax, vmax, nops, pre, op0, stop_at, start_at):
    rn = RULENAME[rule]
    store, logger, log = _world(rule)
    ctx["logger"] = logger
    p = store.create("a.p")
    p.change(x=0)                           # unstamped initial values
    if sel != "two":
        p.change(y=0)
    shares = {"p": p}
    if sel == "all":
        log.addLoggee("p", p)
        cols = [("p", "x"), ("p", "y")]
        other = ("p", "y")
    elif sel == "one":
        log.addLoggee("p", p, fields=["x"])
        cols = [("p", "x")]
        other = ("p", "y")
    elif sel == "late":
        log.addLoggee("p", p, fields=["x", "z"])
        cols = [("p", "x"), ("p", "z")]
        other = ("p", "z")
    else:
        q = store.create("a.q")
        q.change(x=0)
        shares["q"] = q
        log.addLoggee("p", p)
        log.addLoggee("q", q)
        cols = [("p", "x"), ("q", "x")]
        other = ("q", "x")
    cur = {("p", "x"): 0, ("p", "y"): 0, ("p", "z"): ABSENT, ("q", "x"): 0}
    logged = set(cols)

    path = "/x/h/lgr/lg.txt"
    old = ""
    if pre:                                  # an earlier session left a file behind (reuse)
        old = "text\tOld\tlg\n_time\tp\n7\t7\n"
        fs.put(path, old)
    seen = len(old)

    # model
    st = dict(first=True, last=None, last_stamp=None, must=[], may=False, nrec=0, deferred=None, deferred_key=None)

    def expect_line(stamp):
        parts = ["%s" % (stamp,)]
        for c in cols:
            v = cur[c]
            parts.append("" if v is ABSENT else "%s" % (v,))
        return "\t".join(parts)

    def run(control, tag, restart=False):
        nonlocal seen
        status = logger.runner.send(control)
        seen, lines, bad = _newlines(sym, fs, path, seen, sym.realize(log.header), st["first"] and not pre)
        if bad:
            sym.fail(bad[0] if bad[0].startswith("C22/") else "C22/%s/%s" % (rn, bad[0]), bad[1])
        # what does the rule promise for this run?
        now = store.stamp
        if rule == NEVER:
            need, allow = False, False
        elif rule == ONCE:
            need = allow = st["first"]
        elif rule == ALWAYS:
            need = allow = True
        elif rule == UPDATE:
            need = st["first"] or len(st["must"]) > 0
            allow = need or st["may"]
        else:
            if st["first"]:
                need = True
            else:
                need = False
                for c in cols:
                    if st["last"][c] is ABSENT or cur[c] is ABSENT:
                        if st["last"][c] is not cur[c]:
                            need = True
                    elif st["last"][c] != cur[c]:
                        need = True
            allow = need
        if restart and rule != NEVER:
            # START of a stopped logger: "first run of a new session" and "next run of the same history"
            # are both defensible readings; a record is demanded only where both demand it
            allow = True
            if rule == ONCE:
                need = False
        sym.check(len(lines) <= 1, "C22/%s/more-than-one-record-in-one-run" % rn, "%r" % lines)
        got = len(lines) == 1
        if got:
            sym.check(allow, "C22/%s/record-not-promised" % rn,
                      "%s at stamp %s wrote %r" % (tag, now, lines[0]))
            exp = sym.realize(expect_line(now))
            sym.check(lines[0] == exp, "C22/%s/record-content" % rn, "got %r expected %r" % (lines[0], exp))
            st["last"] = {c: cur[c] for c in cols}
            st["last_stamp"] = now
            st["must"] = []
            st["may"] = False
            st["nrec"] += 1
            sym.cover("record")
        else:
            if need:
                same_tick = (rule == UPDATE and not st["first"]
                             and all(s == st["last_stamp"] for s in st["must"]))
                if same_tick:
                    # known class: keep going so that any other failure on this path is reported first
                    if st["deferred"] is None:
                        st["deferred_key"] = KNOWN_SAME_TICK
                        st["deferred"] = "record at stamp %s, then update at stamp %s, %s at stamp %s wrote nothing" % (
                            st["last_stamp"], st["must"][0], tag, now)
                elif restart and rule == CHANGE:
                    # second class found on the unchanged tree: Log.prepare re-snapshots .lasts at every START
                    if st["deferred"] is None:
                        st["deferred_key"] = RESTART_CHANGE
                        st["deferred"] = "last logged %r, values at restart %r, START at stamp %s wrote nothing" % (
                            [sym.realize(st["last"][c]) for c in cols], [sym.realize(cur[c]) for c in cols], sym.realize(now))
                    st["last"] = {c: cur[c] for c in cols}     # follow the code from here on
                else:
                    sym.fail("C22/%s/promised-record-missing" % rn, "%s at stamp %s" % (tag, now))
            else:
                sym.cover("no-record")
        st["first"] = False
        return status

    run(START, "START")
    prev = -1
    stopped = False
    for k in range(K):
        if stop_at is not None and k == stop_at:
            run(STOP, "STOP")
            stopped = True
        if start_at is not None and k == start_at:
            run(START, "reSTART", restart=True)
            sym.cover("restarted")
            stopped = False
        op = op0 if (k == 0 and op0 is not None) else sym.choice("op%d" % k, nops)
        sym.assume(not (stopped and op == 3))        # a stopped logger is not run
        # two advances in a row == one advance; the same write twice in a row == the second write
        sym.assume(not (op == prev and op != 3))
        prev = op
        if op == 0:
            store.stamp = store.stamp + (sym.int("d%d" % k, 0, dmax) if rule == UPDATE else 1)
        elif op == 1 or op == 2 or op == 4:
            tagf = ("p", "x") if op != 2 else other
            v = sym.int("v%d" % k, 0, vmax) if rule == CHANGE else k + 1
            share = shares[tagf[0]]
            if op == 4:
                share.change(**{tagf[1]: v})
                st["may"] = True
            else:
                share.update(**{tagf[1]: v})
                if tagf in logged:
                    st["must"].append(store.stamp)
                else:
                    st["may"] = True
            cur[tagf] = v
        else:
            run(RUN, "RUN")
    run(STOP, "STOP")
    # whole file: [old text] header records
    text = fs.files[path].os
    if pre:
        sym.check(text.startswith(old), "C22/header/existing-file-content-changed", "%r" % text[:40])
    else:
        sym.check(text.startswith(log.header), "C22/header/new-file-does-not-start-with-header", "%r" % text[:40])
    body = text[len(old):] if pre else text[len(log.header):]
    sym.check(len(body.split("\n")) - 1 == st["nrec"], "C22/%s/file-record-count" % rn, "%r" % body)
    if rule == ONCE:
        sym.check(st["nrec"] == 1, "C22/once/not-exactly-one-record")
    if st["deferred"] is not None:
        sym.fail(st["deferred_key"], st["deferred"])
    return True


# ---------------------------------------------------------------------------------------------
# streak / deck
# ---------------------------------------------------------------------------------------------
def h_queue(sym, rule, kind, rounds, nmax, dmax):
    fs = MemFS()
    fs.realize = sym.realize
    undo = install(fs)
    ctx = {}
    try:
        return _queue(sym, fs, ctx, rule, kind, rounds, nmax, dmax)
    finally:
        _shutdown(ctx)
        undo()


def _queue(sym, fs, ctx, rule, kind, rounds, nmax, dmax):
    rn = RULENAME[rule]
    store, logger, log = _world(rule)
    ctx["logger"] = logger
    p = store.create("a.p")
    path = "/x/h/lgr/lg.txt"
    if rule == STREAK:
        box = {"list": list, "deque": deque, "odict": odict}[kind[0]]()
        p.change(q=box, r=5)
        log.addLoggee("p", p, fields={"default": None, "first": ["q"], "two": ["q", "r"]}[kind[1]])
        ncols = 1
    else:
        p.change(x=0)
        fields = {"x": ["x"], "xy": ["x", "y"]}[kind[1]]
        log.addLoggee("p", p, fields=fields)
        ncols = len(fields)
    seen = 0
    ctr = [0]
    queued = []      # model: expected text columns of the queued elements, FIFO

    def push():
        ctr[0] += 1
        i = ctr[0]
        if rule == STREAK:
            if kind[0] == "odict":
                box["k%d" % i] = i
                queued.append(["%s" % (("k%d" % i, i),)])
            else:
                box.append(i)
                queued.append(["%s" % i])
        else:
            if kind[0] == "dict":
                p.push(dict(x=i, y=i + 100))
                queued.append(["%s" % i, "%s" % (i + 100)][:ncols])
            elif kind[0] == "odict":
                p.push(odict([("y", i + 100), ("x", i), ("w", 3)]))
                queued.append(["%s" % i, "%s" % (i + 100)][:ncols])
            else:                              # entry lacks field y
                p.push(dict(x=i))
                queued.append(["%s" % i, ""][:ncols])

    first = [True]

    def run(control, tag):
        nonlocal seen
        logger.runner.send(control)
        seen, lines, bad = _newlines(sym, fs, path, seen, sym.realize(log.header), first[0])
        first[0] = False
        if bad:
            sym.fail(bad[0] if bad[0].startswith("C22/") else "C22/%s/%s" % (rn, bad[0]), bad[1])
        now = sym.realize(store.stamp)
        with _untraced(sym):
            now = "%s" % (now,)
            exp = ["\t".join([now] + q) for q in queued]
        if len(queued):
            sym.cover("elements-logged")
        if len(queued) > 1:
            sym.cover("several-elements-in-one-run")
        if lines != exp:
            sym.check(len(lines) >= len(exp), "C22/%s/queued-element-not-logged" % rn,
                      "%s got %r expected %r" % (tag, lines, exp))
            sym.fail("C22/%s/elements-not-once-in-fifo-order" % rn, "%s got %r expected %r" % (tag, lines, exp))
        left = len(box) if rule == STREAK else len(p.deck)
        sym.check(left == 0, "C22/%s/queue-not-empty-after-run" % rn, "%s left %r" % (tag, left))
        del queued[:]

    for r in range(rounds + 1):
        if r == 0 and sym.flag("early"):
            push()                              # queued before the logger is started
        if r > 0:
            store.stamp = store.stamp + 1
            n = sym.int("n%d" % r, 0, nmax)
            for i in range(n):
                push()
        run(START if r == 0 else RUN, "run %d" % r)
    n = sym.int("nstop", 0, nmax)
    for i in range(n):
        push()
    run(STOP, "STOP")
    text = fs.files[path].os
    sym.check(text.startswith(log.header), "C22/header/new-file-does-not-start-with-header", "%r" % text[:40])
    hl = log.header.split("\n")[:-1]
    sym.check(sum(1 for ln in text.split("\n") if ln == hl[0]) == 1, "C22/header/header-repeated")
    sym.check(len(text[len(log.header):].split("\n")) - 1 == ctr[0], "C22/%s/file-record-count" % rn)
    return True


# ---------------------------------------------------------------------------------------------
OPNAMES = ["advance", "write x (stamped)", "write other field/share (stamped)", "RUN",
           "write x via Share.change (no stamp)"]


def obligations(tier):
    quick = tier == "quick"
    out = []
    K = 5 if quick else 6
    covers_of = {NEVER: ["no-record"], ONCE: ["record", "no-record"], ALWAYS: ["record"],
                 UPDATE: ["record", "no-record"], CHANGE: ["record", "no-record"]}

    def family(prefix, rule, sel, K, nops, dmax, vmax, shard):
        b = dict(steps=K, ops=OPNAMES[:nops], field_selection=sel, session="START, steps, STOP",
                 stamp_increment=("0..%d (symbolic)" % dmax) if rule == UPDATE else "1 (concrete)",
                 values=("0..%d (symbolic)" % vmax) if rule == CHANGE else "distinct (concrete)")
        for op0 in (list(range(nops)) if shard else [None]):
            name = "%s/%s/%s" % (prefix, RULENAME[rule], sel) + ("" if op0 is None else "/op0=%d" % op0)
            out.append(Ob(name, h_rule, dict(rule=rule, sel=sel, K=K, dmax=dmax, vmax=vmax, nops=nops, op0=op0),
                          budget=600 if quick else 3000, covers=covers_of[rule] if op0 in (None, 3) else [],
                          bounds=dict(b, first_op=None if op0 is None else OPNAMES[op0])))

    for rule in (ONCE, ALWAYS, NEVER, UPDATE, CHANGE):
        hard = rule in (UPDATE, CHANGE)
        sels = SELS if (hard or not quick) else ["all", "late"]
        for sel in sels:
            # quick: the three trivial rules get one step less, which pays for unstamped/change below
            family("rule", rule, sel, K if (hard or not quick) else K - 1, 4, 1 if quick else 2, 1, hard)
            if hard and not quick:       # histories that also write through Share.change (no stamp)
                family("unstamped", rule, sel, 5, 5, 1, 1, True)
            if rule == CHANGE and quick and sel in ("all", "two"):
                # unstamped writes to a logged field, incl. with the log's stamp ahead of the share's stamp
                # (stamped write, advance, RUN, unstamped write)
                family("unstamped", rule, sel, 4, 5, 1, 1, True)
            if rule == CHANGE and not quick:   # three distinct values per field (a -> b -> c, a -> b -> a)
                family("values3", rule, sel, 4, 4, 1, 2, False)
    for rule in (ONCE, ALWAYS, NEVER, UPDATE, CHANGE):
        for sel in (["all"] if quick else ["all", "late", "two"]):
            Kr, sa, sb = (4, 1, 3) if quick else (5, 2, 4)
            out.append(Ob("restart/%s/%s" % (RULENAME[rule], sel), h_rule,
                          dict(rule=rule, sel=sel, K=Kr, dmax=1, vmax=1, nops=4, stop_at=sa, start_at=sb),
                          budget=600 if quick else 3000, covers=["restarted"] if rule not in (UPDATE, CHANGE) else [],
                          bounds=dict(steps=Kr, session="START, %d step(s), STOP, %d step(s) without RUN, START, %d step(s), STOP"
                                      % (sa, sb - sa, Kr - sb), field_selection=sel)))
    for rule in (ONCE, ALWAYS, NEVER, UPDATE, CHANGE):
        out.append(Ob("existing-file/%s" % RULENAME[rule], h_rule,
                      dict(rule=rule, sel="all", K=2, dmax=1, vmax=1, nops=4, pre=True),
                      budget=300, covers=[], bounds=dict(steps=2, note="log file exists before START (reuse): no header may be added")))
    rounds = 2 if quick else 3
    nmax = 2 if quick else 3
    skinds = [("list", "default"), ("deque", "first"), ("odict", "two")]
    if not quick:
        skinds += [("list", "two"), ("deque", "default"), ("odict", "first")]
    for kind in skinds:
        out.append(Ob("queue/streak/%s-%s" % kind, h_queue,
                      dict(rule=STREAK, kind=kind, rounds=rounds, nmax=nmax, dmax=1),
                      budget=600 if quick else 3000, covers=["elements-logged", "several-elements-in-one-run"],
                      bounds=dict(rounds=rounds, pushes_per_round="0..%d (symbolic)" % nmax, container=kind[0], fields=kind[1])))
    dkinds = [("dict", "x"), ("odict", "xy"), ("short", "xy")]
    if not quick:
        dkinds += [("dict", "xy"), ("odict", "x"), ("short", "x")]
    for kind in dkinds:
        out.append(Ob("queue/deck/%s-%s" % kind, h_queue,
                      dict(rule=DECK, kind=kind, rounds=rounds, nmax=nmax, dmax=1),
                      budget=600 if quick else 3000, covers=["elements-logged", "several-elements-in-one-run"],
                      bounds=dict(rounds=rounds, pushes_per_round="0..%d (symbolic)" % nmax, entries=kind[0], fields=kind[1])))
    return out
