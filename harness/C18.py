"""C18 -- the data store tree stays well formed (E1, inductive step).

Pre-state: every path of a 6-path universe is absent / node / share (symbolic),
constrained only by prefix closure (representation invariant).  One arbitrary
operation with an argument drawn from a spelling alphabet (leading / trailing
dots, empty segments, deeper and unrelated paths).  Post: abstract tree model
relation, names == paths, rejected operation => store unchanged (by identity).
One step from an arbitrary valid state covers histories of any length over the
universe, provided the invariant is inductive -- which the post-check asserts.
"""
from engine import Ob
from ioflo.base.storing import Store, Share, Node

PROPERTY = "C18"
FUNCTIONS = ["ioflo.base.storing.Store.add", "Store.addNode", "Store.create", "Store.createNode",
             "Store.change", "Store.fetch", "Store.fetchShare", "Store.fetchNode"]
ASSUMPTIONS = [
    "shares carry no data fields (a path descending into a share's fields is outside the property's alphabet)",
    "path universe {a, a.b, a.b.c, a.c, b, b.a}; argument spellings listed in bounds",
    "a share's / node's recorded name is compared modulo leading/trailing dots",
    "Store built without __init__'s bookkeeping shares (.meta/.time/.realtime/.datetime)",
]

UNIV = ["a", "a.b", "a.b.c", "a.c", "b", "b.a"]
ARGS_Q = ["a", "a.b", "a.b.c", "a.c", "b.a", ".a", "a.", ".a.b.", "a.b.c.d", "c", "a..b", "", "..", "a.b..c", "c..d"]
ARGS_T = ARGS_Q + ["b", "..a", "a.b.", ".b.a", "c.d", "c.d.e", "a.c.d", ".", "a.b.c..", "b..a"]
OPS = ["add", "addNode", "create", "createNode", "change", "fetch", "fetchShare", "fetchNode"]


def snapshot(store):
    out = {}

    def walk(node, prefix):
        for k, v in node.items():
            p = prefix + [k]
            if isinstance(v, Share):
                out[".".join(p)] = ("S", id(v), v.name)
            else:
                out[".".join(p)] = ("N", id(v), v.name)
                walk(v, p)
    walk(store.shares, [])
    return out


def model_step(kinds, op, arg):
    """abstract tree model: kinds = {path: 'N'|'S'}.  Returns (accepted, newkinds, target_path)."""
    name = arg if op in ("add", "change") else arg  # add/change see the raw share name
    norm = arg.strip(".")
    segs = norm.split(".")
    prefixes = [".".join(segs[:i]) for i in range(1, len(segs) + 1)]
    new = dict(kinds)
    if op in ("add", "create"):
        if op == "create" and kinds.get(norm) == "S":
            return True, new, norm
        if not (arg if op == "add" else norm):
            return False, kinds, None
        if any(not s for s in segs):
            return False, kinds, None
        for p in prefixes[:-1]:
            if kinds.get(p) == "S":
                return False, kinds, None
        if norm in kinds:
            return False, kinds, None
        for p in prefixes[:-1]:
            new[p] = "N"
        new[norm] = "S"
        return True, new, norm
    if op in ("addNode", "createNode"):
        if op == "createNode" and kinds.get(norm) == "N" and all(segs):
            return True, new, norm
        if any(not s for s in segs):
            return False, kinds, None
        for p in prefixes:
            if kinds.get(p) == "S":
                return False, kinds, None
        for p in prefixes:
            new[p] = "N"
        return True, new, norm
    if op == "change":
        if any(not s for s in segs) or kinds.get(norm) != "S":
            return False, kinds, None
        return True, new, norm
    raise AssertionError(op)


def h(sym, op, args):
    store = Store.__new__(Store)
    store.name = "s"
    store.stamp = None
    store.house = None
    store.shares = Node().byName('')
    kinds = {}
    for p in UNIV:
        k = sym.int("k_" + p, 0, 2)   # 0 absent 1 node 2 share
        parent = p.rsplit(".", 1)[0] if "." in p else None
        if k != 0 and parent is not None:
            sym.assume(kinds.get(parent) == "N")
        if k == 1:
            kinds[p] = "N"
            store.addNode(p)
        elif k == 2:
            kinds[p] = "S"
            store.add(Share(name=p))
    ai = sym.int("arg", 0, len(args) - 1)
    arg = args[ai]
    before = snapshot(store)
    sym.check({p: v[0] for p, v in before.items()} == kinds, "C18/harness/pre-state-mismatch")

    if op in ("fetch", "fetchShare", "fetchNode"):
        got = getattr(store, op)(arg)
        norm = arg.strip(".")
        exp = before.get(norm)
        if exp is not None and op == "fetchShare" and exp[0] != "S":
            exp = None
        if exp is not None and op == "fetchNode" and exp[0] != "N":
            exp = None
        if exp is None:
            sym.check(got is None, "C18/%s/returns-object-for-absent-path" % op, arg)
        else:
            sym.cover("lookup-hit")
            sym.check(got is not None and id(got) == exp[1], "C18/%s/wrong-object" % op, arg)
        sym.check(snapshot(store) == before, "C18/%s/lookup-mutates" % op, arg)
        return True

    accepted, newkinds, target = model_step(kinds, op, arg)
    newshare = None
    raised = None
    try:
        if op == "add":
            newshare = Share(name=arg)
            ret = store.add(newshare)
        elif op == "addNode":
            ret = store.addNode(arg)
        elif op == "create":
            ret = store.create(arg)
        elif op == "createNode":
            ret = store.createNode(arg)
        else:
            newshare = Share(name=arg)
            ret = store.change(newshare)
    except ValueError as ex:
        raised = ex
    after = snapshot(store)
    if raised is not None:
        sym.cover("rejected-op")
        sym.check(after == before, "C18/%s/rejected-op-changed-store" % op,
                  "arg=%r left=%r" % (arg, sorted(set(after) - set(before))))
        sym.check(not accepted, "C18/%s/valid-op-rejected" % op, arg)
        return True
    sym.check(accepted, "C18/%s/invalid-op-accepted" % op, arg)
    sym.cover("accepted-op")
    sym.check({p: v[0] for p, v in after.items()} == newkinds, "C18/%s/tree-differs-from-model" % op, arg)
    # objects that were there stay the same objects, except a changed share
    for p, v in before.items():
        if op == "change" and p == target:
            continue
        sym.check(after[p][1] == v[1], "C18/%s/existing-entry-replaced" % op, p)
    # names equal paths
    for p, (k, i, n) in after.items():
        sym.check(n.strip(".") == p, "C18/%s/name-differs-from-path" % op, "%r at %r" % (n, p))
    # returned object is what is at the target path, and lookups agree
    sym.check(id(ret) == after[target][1], "C18/%s/returned-object-not-at-path" % op, arg)
    if op in ("add", "change"):
        sym.check(ret is newshare and newshare.store is store, "C18/%s/share-not-placed" % op, arg)
    got = store.fetch(target)
    sym.check(got is ret, "C18/%s/fetch-after-op" % op, arg)
    return True


def obligations(tier):
    args = ARGS_Q if tier == "quick" else ARGS_T
    bounds = dict(universe=UNIV, argument_spellings=args, steps="1 (inductive) from any prefix-closed pre-state")
    out = []
    for op in OPS:
        covers = ["lookup-hit"] if op.startswith("fetch") else ["rejected-op", "accepted-op"]
        out.append(Ob("step/" + op, h, dict(op=op, args=args), budget=200 if tier == "quick" else 600,
                      covers=covers, bounds=bounds))
    return out
