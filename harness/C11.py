"""C11 -- framer elapsed/recurred clocks drive timeout and repeat exactly (E1).

Real Builder + real Framer clock code (restartTimer/updateTimer/restartCounter/
updateCounter, the implicit framer needs behind `timeout`, `repeat`,
`if elapsed >= ...`, `if recurred >= ...`).  Three frames a -> b -> c -> a under a
common top frame; a can be force-re-entered (`go a if x >= 1`).  A clock probe
action placed before each frame's transitions records what the framer reports
at the moment conditions are evaluated.
 symbolic: tick period P (integer time units), timeout T and repeat N (through
 indirect goals so they stay symbolic; literal `timeout`/`repeat` verbs on a
 realised grid), the re-entry trigger x of every tick.
 oracle (from the statement, integer arithmetic): at every evaluation
 elapsed == store time - time of the last outline change, recurred == completed
 iterations since then; frame a is left at the first evaluation with
 elapsed >= T, frame b at the first with recurred >= N.
"""
from engine import Ob
from engine import flogen
from engine.flogen import LOG, CLOCKS

PROPERTY = "C11"
ENGINE = "E1+E2"
FUNCTIONS = ["ioflo.base.framing.Framer.restartTimer/updateTimer/updateElapsed/restartCounter/updateCounter/updateRecurred/segue/enter",
             "ioflo.base.building.Builder.buildTimeout/buildRepeat/makeFramerNeed", "ioflo.base.needing.Need (framer elapsed/recurred needs)",
             "ioflo.base.acting.Transiter.action"]
ASSUMPTIONS = [
    "E1, exact-time regime: store time, tick period, timeout are integers (time unit arbitrary)",
    "E2, doubles: Framer.restartTimer/updateTimer translated from source to FP(11,53): after a restart at s0 the elapsed value at evaluations s1 <= s2 "
    "is exactly fl(s_i - s0) for all finite doubles in [0,1e6] (one subtraction from the change time, no accumulation); how a decimal tick period itself "
    "accumulates in the store time belongs to the scheduler (C02)",
    "store stamp assigned directly (store.stamp = k*P); framer driven through its real generator with START then RUN",
    "symbolic: T in [0,8], N in [0,4], x per tick in [0,1], P in [1,4] (one shard per P for the indirect goals); literal verbs `timeout T` / `repeat N` on the grid T in {0,1,2,3,5}, N in {0,1,2,3}",
    "program: top > a,b,c ; a: go a if x >= 1 ; a -> b on elapsed >= T ; b -> c on recurred >= N ; c -> a if x >= 1",
]

START, RUN = 1, 2


def script(tlit, nlit):
    a_t = ("timeout %s" % tlit) if tlit is not None else "go next if elapsed >= tgoal"
    b_t = ("repeat %s" % nlit) if nlit is not None else "go next if recurred >= ngoal"
    return "\n".join([
        "house h", "  framer m be active first a", "    frame top",
        "      do verif record at enter", "      do verif record at renter",
        "    frame a in top", "      do verif record at enter", "      do verif clock at precur",
        "      go a if x >= 1", "      " + a_t,
        "    frame b in top", "      do verif record at enter", "      do verif clock at precur", "      " + b_t,
        "    frame c in top", "      do verif record at enter", "      do verif clock at precur", "      go a if x >= 1",
    ]) + "\n"


def h(sym, ticks, tlit, nlit, Pfix=None):
    text = script(tlit, nlit)
    with flogen.notrace(sym):
        house = flogen.build_text(text)[0]
    store = house.store
    m = house.framers[0]
    P = Pfix if Pfix is not None else sym.int("P", 1, 4)
    T = tlit if tlit is not None else sym.int("T", 0, 8)
    N = nlit if nlit is not None else sym.int("N", 0, 4)
    xs = store.create("x")
    if tlit is None:
        store.create("tgoal").value = T
    if nlit is None:
        store.create("ngoal").value = N
    stamp = 0
    store.stamp = stamp
    xs.value = 0
    del LOG[:]
    del CLOCKS[:]
    st = m.runner.send(START)
    sym.check(st == 1 and m.active.name == "a", "C11/harness/start-failed")
    change_stamp, change_tick, cur = 0, 0, "a"
    for k in range(1, ticks + 1):
        stamp = stamp + P
        store.stamp = stamp
        x = sym.int("x%d" % k, 0, 1)
        xs.value = x
        del LOG[:]
        del CLOCKS[:]
        m.runner.send(RUN)
        exp_el = stamp - change_stamp
        exp_rc = k - change_tick
        sym.check(len(CLOCKS) == 1 and CLOCKS[0][1] == cur, "C11/harness/clock-probe", lambda: "%s %s" % (CLOCKS, cur))
        (_, _, el, rc, els, rcs) = CLOCKS[0]
        sym.check(el == exp_el and els == exp_el, "C11/elapsed-differs-from-store-time-since-outline-change",
                  lambda: "tick %d frame %s elapsed %s share %s expected %s" % (k, cur, el, els, exp_el))
        sym.check(rc == exp_rc and rcs == exp_rc, "C11/recurred-differs-from-completed-iterations",
                  lambda: "tick %d frame %s recurred %s share %s expected %s" % (k, cur, rc, rcs, exp_rc))
        # expected move
        if cur == "a":
            if x >= 1:
                nxt, changed = "a", True
                sym.cover("forced-reentry")
            elif exp_el >= T:
                nxt, changed = "b", True
                sym.cover("timeout-fired")
            else:
                nxt, changed = "a", False
                sym.cover("timeout-pending")
        elif cur == "b":
            if exp_rc >= N:
                nxt, changed = "c", True
                sym.cover("repeat-fired")
            else:
                nxt, changed = "b", False
                sym.cover("repeat-pending")
        else:
            if x >= 1:
                nxt, changed = "a", True
            else:
                nxt, changed = "c", False
        entered = [e[1] for e in LOG if e[2] == "enter"]
        sym.check(m.active.name == nxt, "C11/frame-left-at-wrong-evaluation",
                  lambda: "tick %d in %s: active %s expected %s (elapsed %s T %s recurred %s N %s)" % (k, cur, m.active.name, nxt, exp_el, T, exp_rc, N))
        sym.check((nxt in entered) == changed, "C11/enter-actions-differ", lambda: "tick %d entered %s expected change %s" % (k, entered, changed))
        if changed:
            change_stamp, change_tick = stamp, k
        cur = nxt
    return True


def obligations(tier):
    out = []
    ticks = 4 if tier == "quick" else 5
    for Pfix in (1, 2, 3, 4):
        out.append(Ob("clocks/indirect-goals/P%d" % Pfix, h, dict(ticks=ticks, tlit=None, nlit=None, Pfix=Pfix), budget=900 if tier == "quick" else 2400,
                      covers=["forced-reentry", "timeout-fired", "timeout-pending", "repeat-fired", "repeat-pending"],
                      bounds=dict(ticks=ticks, P=Pfix, T="[0,8]", N="[0,4]")))
    tg = [0, 2, 3] if tier == "quick" else [0, 1, 2, 3, 5]
    ng = [0, 2] if tier == "quick" else [0, 1, 2, 3]
    for t in tg:
        out.append(Ob("clocks/literal-timeout-%d" % t, h, dict(ticks=ticks, tlit=t, nlit=None), budget=600 if tier == "quick" else 1800,
                      covers=["timeout-fired"], bounds=dict(ticks=ticks, P="[1,4]", T=t, N="[0,4]")))
    for nn in ng:
        out.append(Ob("clocks/literal-repeat-%d" % nn, h, dict(ticks=ticks, tlit=None, nlit=nn), budget=600 if tier == "quick" else 1800,
                      covers=["repeat-fired"], bounds=dict(ticks=ticks, P="[1,4]", T="[0,10]", N=nn)))
    return out


# ---- E2: the clock arithmetic in doubles -------------------------------------------------------------
# In the integer regime an implementation that ACCUMULATES elapsed (elapsed += now - last; last = now) is
# indistinguishable from elapsed = now - start; with decimal tick periods it drifts by rounding.  The two clock
# methods are therefore also translated to FP(11,53) from their source and checked over all doubles.
def _fp_exec(fn, state, F, RNE):
    """tiny symbolic executor for straight-line methods over attribute chains of `self` (FP sort).
    Supports: assignment / augmented assignment to self.<chain>, + - *, float constants, try (body only),
    calls self.updateElapsed()/self.updateRecurred() (store publication, no effect on the clock) -- anything
    else raises NotImplementedError (=> the obligation is inconclusive)."""
    import ast, inspect, textwrap, z3
    tree = ast.parse(textwrap.dedent(inspect.getsource(fn))).body[0]

    def chain(node):
        parts = []
        while isinstance(node, ast.Attribute):
            parts.append(node.attr)
            node = node.value
        if isinstance(node, ast.Name) and node.id == "self":
            return "self." + ".".join(reversed(parts))
        raise NotImplementedError(ast.dump(node)[:60])

    def ev(e):
        if isinstance(e, ast.Constant) and isinstance(e.value, (int, float)):
            return z3.FPVal(float(e.value), F)
        if isinstance(e, ast.Attribute):
            k = chain(e)
            if k not in state:
                raise NotImplementedError("read of " + k)
            return state[k]
        if isinstance(e, ast.BinOp):
            a, b = ev(e.left), ev(e.right)
            if isinstance(e.op, ast.Add):
                return z3.fpAdd(RNE, a, b)
            if isinstance(e.op, ast.Sub):
                return z3.fpSub(RNE, a, b)
            if isinstance(e.op, ast.Mult):
                return z3.fpMul(RNE, a, b)
        raise NotImplementedError(ast.dump(e)[:60])

    def run(stmts):
        for s in stmts:
            if isinstance(s, ast.Expr) and isinstance(s.value, ast.Constant):
                continue
            if isinstance(s, ast.Assign) and len(s.targets) == 1:
                state[chain(s.targets[0])] = ev(s.value)
            elif isinstance(s, ast.AugAssign):
                k = chain(s.target)
                state[k] = ev(ast.BinOp(left=s.target, op=s.op, right=s.value))
            elif isinstance(s, ast.Try):
                run(s.body)
            elif isinstance(s, ast.Expr) and isinstance(s.value, ast.Call) and isinstance(s.value.func, ast.Attribute) \
                    and s.value.func.attr in ("updateElapsed", "updateRecurred"):
                continue
            else:
                raise NotImplementedError(ast.dump(s)[:80])
    run(tree.body)
    return state


def e2_clock(params):
    import time, z3
    from ioflo.base import framing
    t0 = time.time()
    F, RNE = z3.Float64(), z3.RNE()
    s0, s1, s2, junk = z3.FP("s0", F), z3.FP("s1", F), z3.FP("s2", F), z3.FP("junk", F)
    fin = lambda x: z3.And(z3.Not(z3.fpIsNaN(x)), z3.Not(z3.fpIsInf(x)), z3.fpGEQ(x, z3.FPVal(0.0, F)), z3.fpLEQ(x, z3.FPVal(1e6, F)))
    try:
        st = {"self.stamp": junk, "self.elapsed": junk, "self.store.stamp": s0}
        _fp_exec(framing.Framer.restartTimer, st, F, RNE)
        st["self.store.stamp"] = s1
        _fp_exec(framing.Framer.updateTimer, st, F, RNE)
        e1 = st["self.elapsed"]
        st["self.store.stamp"] = s2
        _fp_exec(framing.Framer.updateTimer, st, F, RNE)
        e2 = st["self.elapsed"]
    except NotImplementedError as ex:
        return dict(paths=1, confirmed=0, unknown=1, failed=0, exhausted=False, fails={}, samples=[], solver_checks=0, solver_time=0,
                    extra="clock methods not translatable: %s" % ex)
    s = z3.Solver()
    s.set("timeout", 120000)
    s.add(fin(s0), fin(s1), fin(s2), z3.fpLEQ(s0, s1), z3.fpLEQ(s1, s2))
    s.add(z3.Or(z3.Not(z3.fpEQ(e1, z3.fpSub(RNE, s1, s0))), z3.Not(z3.fpEQ(e2, z3.fpSub(RNE, s2, s0)))))
    t = time.time()
    r = str(s.check())
    dt = time.time() - t
    fails = {}
    if r == "sat":
        m = s.model()
        val = lambda x: float(m.eval(z3.fpToReal(x), model_completion=True).as_fraction())
        fails["C11/float/elapsed-not-store-time-minus-change-time"] = dict(
            vals=dict(s0=val(s0), s1=val(s1), s2=val(s2)), detail="elapsed after two evaluations differs from fl(now - change time)", count=1)
    # vacuity guard: the premises are satisfiable
    g = z3.Solver()
    g.add(fin(s0), fin(s1), fin(s2), z3.fpLT(s0, s1), z3.fpLT(s1, s2))
    guard = str(g.check())
    return dict(paths=2, confirmed=1 if r == "unsat" else 0, unknown=0 if r in ("sat", "unsat") and guard == "sat" else 1,
                failed=len(fails), exhausted=(r in ("sat", "unsat") and guard == "sat"), fails=fails,
                samples=[dict(query="elapsed(restart at s0; evaluate at s1, s2) == fl(s_i - s0)", result=r, premises=guard)],
                solver_checks=2, solver_time=round(dt, 3), wall=round(time.time() - t0, 2))


def e2_clock_replay(vals, params):
    from ioflo.base import housing, framing
    housing.House.Clear()
    housing.ClearRegistries()
    house = housing.House(name="h")
    house.assignRegistries()
    f = framing.Framer(name="m", store=house.store)
    st = house.store
    st.stamp = vals["s0"]
    f.restartTimer()
    st.stamp = vals["s1"]
    f.updateTimer()
    e1 = f.elapsed
    st.stamp = vals["s2"]
    f.updateTimer()
    e2 = f.elapsed
    if e1 != vals["s1"] - vals["s0"] or e2 != vals["s2"] - vals["s0"]:
        return ("fail", "C11/float/elapsed-not-store-time-minus-change-time",
                "change at %r, evaluations at %r, %r: elapsed %r, %r expected %r, %r" % (vals["s0"], vals["s1"], vals["s2"], e1, e2,
                                                                                          vals["s1"] - vals["s0"], vals["s2"] - vals["s0"]))
    return ("pass", None, "")


_obligations_e1 = obligations


def obligations(tier):
    out = _obligations_e1(tier)
    out.append(Ob("float/elapsed-is-one-subtraction", e2_clock, {}, kind="e2", replay=e2_clock_replay, budget=600,
                  bounds=dict(doubles="finite in [0, 1e6], s0 <= s1 <= s2", evaluations=2)))
    return out
